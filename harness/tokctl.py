"""Controller for the token harness of C08 / C09 (used by drive_c08.py and drive_c09.py).

Runs the *real* experimaestro.tokens code.  Three scenario kinds:

* "fs"     several real CounterToken objects on one directory, each standing for one scheduler
           process, driven sequentially.  ipcom().fswatch and the `threading` module seen by
           experimaestro.tokens are replaced by shims: filesystem events are computed from
           directory diffs and queued per emulated process, the controller delivers them (through
           the real FileSystemEventHandler.dispatch) in a recorded order; watcher threads started
           by TokenFile.watch are parked and their real `run` closure is called when the controller
           fires them.  File creation is split in two by truncating the freshly written token file
           until the `write` step (this is what another process can observe between open() and
           write()).
* "inproc" one real ProcessCounterToken and one real CounterToken, jobs depending on both, taken in
           the order and with the Locks discipline of Scheduler.aio_start (abort on LockError).
* "realobs" (thorough) a real watchdog observer on a scratch token directory: an empty token file
           appears; is the observer thread still alive, does it still see a later release?
* "stress" (thorough) real processes sharing one token directory; task-side weighted interval log.

Input: JSON on stdin; output: one JSON document on the last stdout line.
"""
import json
import logging
import os
import random
import shutil
import subprocess
import sys
import tempfile
import threading
import time
import types
from pathlib import Path

logging.disable(logging.CRITICAL)

import experimaestro.tokens as T  # noqa: E402
from experimaestro.locking import Locks, LockError  # noqa: E402
from experimaestro.scheduler.dependencies import DependencyStatus  # noqa: E402
from watchdog.events import FileCreatedEvent, FileModifiedEvent, FileDeletedEvent  # noqa: E402


# --------------------------------------------------------------------------- shims
class Ctx:
    proc = None       # emulated process on whose behalf real code currently runs
    tokenfile = None  # TokenFile whose watch() is running
    early = None      # name of the file whose watcher thread finishes at once (startrace)
    firing = None     # (process, file name) of the watcher thread being run by the controller
    joblock = 0       # job locks currently held by that thread
    world = None      # the FsWorld being driven
    mid = None        # ops to run while CounterToken.__init__ is between its two _update (startmid)
    race = None       # ops of the scheduler thread to run while a handler waits for the thread lock
    in_handler = False


class FakeLoop:
    """Dependency.loop: Token.aio_notify posts `check` with call_soon_threadsafe; run it at once."""

    def call_soon_threadsafe(self, fn, *args):
        fn(*args)

    call_soon = call_soon_threadsafe


class ParkedThread:
    def __init__(self, target=None, **kw):
        self.target = target

    def start(self):
        tf = Ctx.tokenfile
        if Ctx.early is not None and tf.path.name == Ctx.early:
            # this watcher thread wins the race against the rest of CounterToken.__init__
            Ctx.early = None
            self.target()
            return
        Ctx.proc.watchers.append((tf.path.name, self.target))


class IpcShim:
    def fswatch(self, handler, path, recursive=False):
        Ctx.proc.handler = handler
        if Ctx.mid is not None:
            # the directory watch of the starting process exists now; other processes go on
            ops, Ctx.mid = Ctx.mid, None
            Ctx.world.interleave(ops, skip_first_emit=Ctx.proc)
        return object()

    def fsunwatch(self, w):
        pass


class TrackedJobLock:
    """fasteners.InterProcessLock as seen by experimaestro.tokens: the real lock, plus a count of
    the job locks held by the watcher thread that the controller is running."""

    def __init__(self, path, *a, **kw):
        self.lock = REAL_FASTENERS.InterProcessLock(path, *a, **kw)
        self.job = str(path).endswith(".lock") and not str(path).endswith("token.lock")
        self.token = str(path).endswith("token.lock")
        self.proc = Ctx.proc       # the emulated process this lock object lives in

    def __enter__(self):
        w = Ctx.world
        if self.token and w is not None and self.proc is not None:
            # token.lock held by another emulated process that is inside TokenFile.create: the real
            # call would block until that process has written its file and left the lock
            holder = w.window_holder()
            if holder is not None and holder is not self.proc:
                w.complete_write()
        self.lock.__enter__()
        if self.job and Ctx.firing is not None:
            Ctx.joblock += 1
        return self

    def __exit__(self, *a):
        if self.job and Ctx.firing is not None:
            Ctx.joblock -= 1
        w = Ctx.world
        if self.token and w is not None and self.proc is not None and self.proc.token is not None \
                and self is not self.proc.token.ipc_lock and w.window_holder() is self.proc:
            # POSIX record locks belong to the process: releasing (closing) ANY lock object on token.lock
            # drops the lock that the scheduler thread of this process holds inside acquire()
            w.lost_lock.add(id(self.proc))
        return self.lock.__exit__(*a)

    def acquire(self, *a, **kw):
        return self.lock.acquire(*a, **kw)

    def release(self):
        return self.lock.release()


class HookLock:
    """threading.Lock as seen by experimaestro.tokens (CounterToken.lock): when a filesystem event handler
    reaches it, the controller may first let the scheduler thread of the same process run (it held the lock)."""

    def __init__(self):
        self.lock = threading.Lock()

    def __enter__(self):
        if Ctx.race is not None and Ctx.in_handler:
            ops, Ctx.race = Ctx.race, None
            Ctx.in_handler = False
            try:
                Ctx.world.interleave(ops)
                Ctx.world.complete_write()
            finally:
                Ctx.in_handler = True
        self.lock.acquire()
        return self

    def __exit__(self, *a):
        self.lock.release()

    def acquire(self, *a, **kw):
        return self.lock.acquire(*a, **kw)

    def release(self):
        return self.lock.release()


REAL_FASTENERS = T.fasteners
ORIG_DELETE = T.TokenFile.delete


def install_shims():
    T.ipcom = lambda: IpcShim()
    T.threading = types.SimpleNamespace(Lock=HookLock, Thread=ParkedThread)
    T.fasteners = types.SimpleNamespace(InterProcessLock=TrackedJobLock)

    def delete(self):
        if Ctx.firing is not None and Ctx.joblock == 0:
            # the watcher thread deletes outside the job lock: between leaving the lock and this
            # call anything can happen; the controller decides when the deletion takes place
            Ctx.firing[0].armed.append((self.path.name, self))
            return
        return ORIG_DELETE(self)

    T.TokenFile.delete = delete
    orig_watch = T.TokenFile.watch

    def watch(self):
        Ctx.tokenfile = self
        try:
            return orig_watch(self)
        finally:
            Ctx.tokenfile = None

    T.TokenFile.watch = watch


# --------------------------------------------------------------------------- fake jobs
class FakeJob:
    """What tokens.py reads of a job: identifier (file name), basepath (uri -> .lock/.pid)."""

    def __init__(self, jid, root):
        self.jid = jid
        self.identifier = "j%d" % jid
        self.path = root / "jobs" / self.identifier
        self.path.mkdir(parents=True, exist_ok=True)
        self.basepath = self.path / self.identifier
        self.changes = []
        # (wherever the token code looks for the event loop of the waiting job)
        self.scheduler = types.SimpleNamespace(loop=FakeLoop())

    def dependencychanged(self, dep, old, new):
        self.changes.append((old.name, new.name))

    def __repr__(self):
        return self.identifier


class EProc:
    """One emulated scheduler process."""

    def __init__(self):
        self.alive = False
        self.token = None
        self.handler = None
        self.obs = False
        self.evq = []        # (kind, name)
        self.watchers = []   # (name, run)
        self.armed = []      # (name, TokenFile): pinned watcher threads past their test, about to delete
        self.deps = {}       # jid -> CounterTokenDependency
        self.locks = {}      # jid -> (Locks, CounterTokenLock)


IDLE, CREATING, HOLDING, RUNNING, ENDED, DONE = "idle", "creating", "holding", "running", "ended", "done"


class FsWorld:
    def __init__(self, sc, root):
        self.sc = sc
        self.root = root
        self.tokdir = root / "tok"
        self.total = sc["total"]
        self.procs = [EProc() for _ in range(sc["nprocs"])]
        self.jobs = []
        for i, j in enumerate(sc["jobs"]):
            fj = FakeJob(i, root)
            self.jobs.append(dict(p=j["p"], c=j["c"], phase=IDLE, orphan=False, job=fj, saved=None, code=None, proc=None))
        self.loop = FakeLoop()
        self.lost_lock = set()
        self.inner = []
        self._before = {}
        Ctx.world = self

    # ---- directory
    def listing(self):
        out = {}
        if self.tokdir.is_dir():
            for f in self.tokdir.glob("*.token"):
                out[f.name] = f.stat().st_size
        return out

    def pidpath(self, i):
        return self.jobs[i]["job"].basepath.with_suffix(".pid")

    def cleanup(self):
        for j in self.jobs:
            if j["proc"] is not None:
                try:
                    j["proc"].kill()
                    j["proc"].wait()
                except Exception:
                    pass

    def emit(self, before, after, skip=None):
        evs = []
        # (within one step deletions come first: _update removes unwritten files before acquire creates)
        # (unwritten files first: they are removed by _update itself, a watcher thread comes after it)
        for n in sorted(before, key=lambda n: (before[n] > 0, n)):
            if n not in after:
                evs.append(("deleted", n))
        for n in sorted(after):
            if n not in before:
                evs.append(("created", n))
            elif before[n] == 0 and after[n] > 0:
                evs.append(("modified", n))
        for ev in evs:
            for pr in self.procs:
                if pr.alive and pr.obs and pr is not skip:
                    pr.evq.append(ev)

    def window_holder(self):
        """the emulated process that is between open() and write() of a token file and still has token.lock"""
        for j in self.jobs:
            if j["phase"] == CREATING and not j["orphan"]:
                pr = self.procs[j["p"]]
                if id(pr) not in self.lost_lock:
                    return pr
        return None

    def complete_write(self):
        for i, j in enumerate(self.jobs):
            if j["phase"] == CREATING and not j["orphan"]:
                self.interleave([["write", i]])

    def interleave(self, ops, skip_first_emit=None):
        """run other steps in the middle of the step being executed (events of what happened so far first)"""
        saved = (Ctx.proc, Ctx.tokenfile, Ctx.early)
        now = self.listing()
        self.emit(self._before, now, skip_first_emit)
        for op in ops:
            if op in self.enabled() or op[0] == "write":
                res = self.do(op)
                self.inner.append(dict(op=op, res=res))
        self._before = self.listing()
        Ctx.proc, Ctx.tokenfile, Ctx.early = saved

    def lock_free(self):
        return self.window_holder() is None

    def creating_in(self, p):
        return any(j["phase"] == CREATING and j["p"] == p and not j["orphan"] for j in self.jobs)

    # ---- enabled steps (harness bookkeeping + real dependency status)
    def enabled(self):
        st = []
        lf = self.lock_free()
        for p, pr in enumerate(self.procs):
            if not pr.alive:
                if lf:
                    st.append(["start", p])
                    for i, j in enumerate(self.jobs):
                        q = j["p"]
                        if q != p and self.procs[q].alive and not j["orphan"] and j["phase"] == IDLE and \
                                i in self.procs[q].deps and self.procs[q].deps[i].currentstatus == DependencyStatus.OK:
                            st.append(["startmid", p, q, i])
                    for n, size in sorted(self.listing().items()):
                        i = int(n[1:-len(".token")])
                        if size > 0 and self.jobs[i]["phase"] in (IDLE, ENDED, DONE):
                            st.append(["startrace", p, i])
                continue
            if not self.creating_in(p) or self.sc.get("killc", True):
                # (also between open() and write() of its token file)
                st.append(["kill", p])
            if not self.creating_in(p):
                if pr.obs:
                    for i in range(len(pr.evq)):
                        st.append(["deliver", p, i])
                    if lf:
                        for i, (kind, name) in enumerate(pr.evq):
                            if kind == "deleted" and name in pr.token.cache:
                                for i2, j in enumerate(self.jobs):
                                    if j["p"] != p or j["orphan"]:
                                        continue
                                    if j["phase"] in (HOLDING, ENDED):
                                        st.append(["deliverrace", p, i, True, i2])
                                    if j["phase"] == IDLE and i2 in pr.deps and pr.deps[i2].currentstatus == DependencyStatus.OK:
                                        st.append(["deliverrace", p, i, False, i2])
            for name in sorted(set(n for n, _ in pr.armed)):
                st.append(["firedelete", p, int(name[1:-len(".token")])])
            for name in sorted(set(n for n, _ in pr.watchers)):
                j = self.jobs[int(name[1:-len(".token")])]
                if j["phase"] in (IDLE, ENDED, DONE):
                    st.append(["fire", p, int(name[1:-len(".token")])])
        for i, j in enumerate(self.jobs):
            p = j["p"]
            pr = self.procs[p]
            if j["phase"] == RUNNING:
                st.append(["end", i, 0])
                st.append(["end", i, 1])
                st.append(["jobkill", i])
            if j["orphan"] or not pr.alive:
                continue
            if j["phase"] == DONE and self.sc.get("resubmit", True):
                st.append(["resubmit", p, i])
            if j["phase"] == IDLE and lf and i in pr.deps and pr.deps[i].currentstatus == DependencyStatus.OK:
                st.append(["acquire", p, i])
            if j["phase"] == CREATING:
                st.append(["write", i])
            if j["phase"] == HOLDING:
                st.append(["launch", i])
            if j["phase"] in (HOLDING, ENDED) and lf:
                st.append(["release", p, i])
        return st

    # ---- steps
    def do(self, op):
        k = op[0]
        outer_before = self._before
        self._before = self.listing()
        res = "ok"
        skip = None
        if k in ("start", "startrace", "startmid"):
            p = op[1]
            pr = self.procs[p]
            Ctx.proc = pr
            # what __init__ itself removes (unwritten token files in its first _update; with `startrace`
            # the file of the watcher thread that finishes at once) disappears before the directory watch
            # of the new process exists
            skip = pr
            if k == "startrace":
                Ctx.early = "j%d.token" % op[2]
            if k == "startmid":
                # while __init__ is between its two _update, process op[2] acquires for job op[3]
                Ctx.mid = [["acquire", op[2], op[3]]]
            pr.alive, pr.obs, pr.evq, pr.watchers, pr.deps, pr.locks, pr.armed = True, True, [], [], {}, {}, []
            try:
                pr.token = T.CounterToken("tok", self.tokdir, self.total)
            except Exception as e:  # noqa
                # CounterToken.__init__ raised: this scheduler has no token object, it does not start
                pr.alive, pr.obs, pr.watchers, pr.token, pr.handler = False, False, [], None, None
                res = "raised:" + type(e).__name__
                Ctx.early = None
            Ctx.mid = None
            Ctx.proc = pr
            # submission of the jobs of this scheduler (Scheduler.aio_submit l.581-588)
            for i, j in enumerate(self.jobs):
                if not pr.alive:
                    break
                if j["p"] == p and j["phase"] == IDLE and not j["orphan"]:
                    dep = pr.token.dependency(j["c"])
                    dep.target = j["job"]
                    dep.loop = self.loop
                    dep.origin.dependents.add(dep)
                    dep.check()
                    pr.deps[i] = dep
            if k == "startrace" and Ctx.early is not None and pr.alive:
                Ctx.early = None
                res = "raised:NoEarlyWatcher"
        elif k == "kill":
            p = op[1]
            pr = self.procs[p]
            pr.alive, pr.obs, pr.evq, pr.watchers, pr.deps, pr.locks, pr.armed = False, False, [], [], {}, {}, []
            pr.token, pr.handler = None, None
            for j in self.jobs:
                if j["p"] == p and not j["orphan"]:
                    if j["phase"] in (HOLDING, CREATING):
                        # (CREATING: killed between open() and write(): the empty file stays)
                        j["phase"], j["orphan"] = ENDED, True
                    elif j["phase"] in (RUNNING, ENDED):
                        j["orphan"] = True
        elif k == "acquire":
            p, i = op[1], op[2]
            pr, j = self.procs[p], self.jobs[i]
            Ctx.proc = pr
            dep = pr.deps[i]
            locks = Locks()
            locks.acquire()
            try:
                locks.append(dep.lock().acquire())
                pr.locks[i] = locks
                f = self.tokdir / dep.name
                j["saved"] = f.read_bytes()
                with f.open("wb"):
                    pass  # what the directory looks like between open() and write()
                j["phase"] = CREATING
            except LockError:
                # Scheduler.aio_start l.698-705
                dep.check()
                locks.release()
                res = "lockerror"
            except Exception as e:  # noqa
                locks.release()
                res = "raised:" + type(e).__name__
        elif k == "write":
            i = op[1]
            j = self.jobs[i]
            f = self.tokdir / ("j%d.token" % i)
            if f.exists():
                f.write_bytes(j["saved"])
            # else: the file was unlinked while its creator had it open: the creator's write goes to the
            # unlinked inode, nothing reappears in the directory
            j["phase"] = HOLDING
            self.lost_lock.discard(id(self.procs[j["p"]]))
        elif k == "launch":
            # Job.aio_run: the process is started and its pid file written (under the job lock)
            j = self.jobs[op[1]]
            j["proc"] = subprocess.Popen(["sleep", "600"])
            self.pidpath(op[1]).write_text(json.dumps({"type": "local", "pid": j["proc"].pid}))
            j["phase"] = RUNNING
        elif k in ("end", "jobkill"):
            j = self.jobs[op[1]]
            j["proc"].kill()
            j["proc"].wait()
            j["proc"] = None
            if k == "end":
                # orderly end: the job removes its pid file; a killed job leaves it behind
                self.pidpath(op[1]).unlink()
                j["code"] = op[2]
            j["phase"] = ENDED
        elif k == "release":
            p, i = op[1], op[2]
            pr, j = self.procs[p], self.jobs[i]
            Ctx.proc = pr
            try:
                pr.locks.pop(i).release()
            except Exception as e:  # noqa
                res = "raised:" + type(e).__name__
            if not res.startswith("raised"):
                j["phase"] = IDLE if j["phase"] == HOLDING else DONE
            else:
                pr.locks[i] = Locks()
        elif k == "resubmit":
            p, i = op[1], op[2]
            pr, j = self.procs[p], self.jobs[i]
            Ctx.proc = pr
            dep = pr.token.dependency(j["c"])
            dep.target = j["job"]
            dep.loop = self.loop
            dep.origin.dependents.add(dep)
            dep.check()
            pr.deps[i] = dep
            j["phase"] = IDLE
        elif k == "firedelete":
            p = op[1]
            pr = self.procs[p]
            idx = [n for n, _ in pr.armed].index("j%d.token" % op[2])
            name, tf = pr.armed.pop(idx)
            try:
                ORIG_DELETE(tf)
            except Exception as e:  # noqa
                res = "raised:" + type(e).__name__
        elif k in ("deliver", "deliverrace"):
            p, idx = op[1], op[2]
            pr = self.procs[p]
            Ctx.proc = pr
            if k == "deliverrace":
                # the handler's unlocked test has passed; before it gets the thread lock the scheduler
                # thread of the same process runs a release / an acquire (and writes its file)
                Ctx.race = [["release", p, op[4]]] if op[3] else [["acquire", p, op[4]]]
            kind, name = pr.evq.pop(idx)
            path = str(self.tokdir / name)
            ev = dict(created=FileCreatedEvent, modified=FileModifiedEvent, deleted=FileDeletedEvent)[kind](path)
            Ctx.in_handler = True
            try:
                pr.handler.dispatch(ev)
            except Exception as e:  # noqa
                # watchdog: BaseObserver/EventDispatcher.run only catches queue.Empty,
                # the exception ends the observer thread of this process
                res = "raised:" + type(e).__name__
                pr.obs = False
                pr.evq = []
            finally:
                Ctx.in_handler = False
                Ctx.race = None
        elif k == "fire":
            p = op[1]
            pr = self.procs[p]
            Ctx.proc = pr
            # watcher threads of one process for the same file are indistinguishable: take the oldest
            idx = [n for n, _ in pr.watchers].index("j%d.token" % op[2])
            name, run = pr.watchers.pop(idx)
            Ctx.firing, Ctx.joblock = (pr, name), 0
            try:
                run()
            except Exception as e:  # noqa
                res = "raised:" + type(e).__name__
            finally:
                Ctx.firing, Ctx.joblock = None, 0
        else:
            raise ValueError(k)
        Ctx.proc = None
        self.emit(self._before, self.listing(), skip)
        self._before = outer_before
        return res

    # ---- observables
    def snapshot(self):
        disk = []
        for n, size in sorted(self.listing().items()):
            if size == 0:
                disk.append([n, -1])
            else:
                disk.append([n, int((self.tokdir / n).read_text().split("\n")[0])])
        procs = []
        for pr in self.procs:
            if not pr.alive:
                procs.append(None)
                continue
            tk = pr.token
            procs.append(dict(avail=int(tk.available), cache=sorted([n, int(tf.count)] for n, tf in tk.cache.items()),
                              obs=pr.obs, evq=[list(e) for e in pr.evq], watch=sorted(n for n, _ in pr.watchers),
                              armed=sorted(n for n, _ in pr.armed)))
        jobs = []
        for i, j in enumerate(self.jobs):
            pr = self.procs[j["p"]]
            st = None
            if pr.alive and i in pr.deps and not j["orphan"]:
                st = pr.deps[i].currentstatus.name
            jobs.append([j["phase"], st, j["orphan"], self.pidpath(i).is_file()])
        return dict(disk=disk, procs=procs, jobs=jobs)


DEFAULT_W = dict(start=6, startrace=3, kill=1, acquire=8, write=10, launch=8, end=6, jobkill=1, release=8, deliver=10, fire=6,
                 firedelete=3, resubmit=2, startmid=3, deliverrace=4)


def run_fs(sc):
    root = Path(tempfile.mkdtemp(prefix="xpmverif-tok-", dir=sc.get("scratch")))
    try:
        w = None
        install_shims()
        w = FsWorld(sc, root)
        rng = random.Random(sc.get("seed", 0))
        weights = dict(DEFAULT_W)
        weights.update(sc.get("weights", {}))
        out = []
        err = None
        if sc.get("steps") is not None:
            for op in sc["steps"]:
                if op not in w.enabled():
                    err = "step not enabled in the harness: %s" % (op,)
                    break
                res = w.do(op)
                out.append(dict(op=op, res=res, obs=w.snapshot()))
        else:
            nkill = 0
            for _ in range(sc.get("nsteps", 40)):
                en = w.enabled()
                if nkill >= sc.get("maxkill", 1):
                    en = [e for e in en if e[0] != "kill"]
                if not en:
                    break
                # late phase: drain (no new acquisitions) so that runs end quiescent
                if len(out) >= sc.get("nsteps", 40) - sc.get("drain", 0):
                    en2 = [e for e in en if e[0] not in ("acquire", "kill", "start", "startrace", "resubmit", "startmid")]
                    en = en2 or en
                op = rng.choices(en, [weights[e[0]] for e in en])[0]
                if op[0] == "kill":
                    nkill += 1
                res = w.do(op)
                out.append(dict(op=op, res=res, obs=w.snapshot()))
        return dict(steps=out, error=err)
    finally:
        try:
            w.cleanup()
        except Exception:
            pass
        shutil.rmtree(root, ignore_errors=True)


# --------------------------------------------------------------------------- in-process scenario
def run_inproc(sc):
    """One scheduler: jobs depend on a ProcessCounterToken (count a) and/or on a CounterToken (count b);
    start = take the locks in order, abort (release what was taken) on LockError, as aio_start does."""
    root = Path(tempfile.mkdtemp(prefix="xpmverif-tokp-", dir=sc.get("scratch")))
    try:
        install_shims()
        pr = EProc()
        pr.alive = pr.obs = True
        Ctx.proc = pr
        ptok = T.ProcessCounterToken(sc["ptotal"])
        ftok = T.CounterToken("tok", root / "tok", sc["ftotal"])
        loop = FakeLoop()
        jobs = []
        for i, j in enumerate(sc["jobs"]):
            fj = FakeJob(i, root)
            deps = []
            for which, cnt in j["deps"]:
                tok = ptok if which == "p" else ftok
                d = tok.dependency(cnt)
                d.target, d.loop = fj, loop
                d.origin.dependents.add(d)
                d.check()
                deps.append((which, cnt, d))
            jobs.append(dict(deps=deps, locks=None, job=fj))
        out = []
        pops = []

        def snap():
            files = sorted((f.name, int(f.read_text().split("\n")[0])) for f in (root / "tok").glob("*.token"))
            return dict(pavail=int(ptok.available), favail=int(ftok.available), files=[list(x) for x in files],
                        status=[[d.currentstatus.name for _, _, d in j["deps"]] for j in jobs])

        for op in sc["ops"]:
            k, i = op
            j = jobs[i]
            res = "ok"
            if k == "start":
                if j["locks"] is not None:
                    res = "skip"
                else:
                    locks = Locks()
                    locks.acquire()
                    taken = 0
                    took_p = False
                    for which, cnt, d in j["deps"]:
                        try:
                            locks.append(d.lock().acquire())
                            taken += 1
                            if which == "p":
                                took_p = True
                                pops.append(["acquire", i, "ok", int(ptok.available)])
                        except LockError:
                            if which == "p":
                                pops.append(["acquire", i, "lockerror", int(ptok.available)])
                            d.check()
                            locks.release()
                            if took_p:
                                pops.append(["release", i, "ok", int(ptok.available)])
                            res = "abort:%d" % taken
                            break
                    else:
                        j["locks"] = locks
            elif k == "finish":
                if j["locks"] is None:
                    res = "skip"
                else:
                    j["locks"].release()
                    j["locks"] = None
                    if any(which == "p" for which, _, _ in j["deps"]):
                        pops.append(["release", i, "ok", int(ptok.available)])
            # deliver our own fs events at once (single process; the handler ignores them)
            out.append(dict(op=op, res=res, obs=snap()))
        return dict(steps=out, pops=pops, error=None)
    finally:
        shutil.rmtree(root, ignore_errors=True)


# --------------------------------------------------------------------------- real observer
def run_realobs(sc):
    """A real watchdog observer (ipcom()) on a scratch token directory."""
    root = Path(tempfile.mkdtemp(prefix="xpmverif-tokr-", dir=sc.get("scratch")))
    try:
        from experimaestro.ipc import ipcom
        tok = T.CounterToken("tok", root / "tok", sc.get("total", 1))
        obs = ipcom().observer
        loop = FakeLoop()
        fj = FakeJob(0, root)
        dep = tok.dependency(1)
        dep.target, dep.loop = fj, loop
        dep.origin.dependents.add(dep)
        dep.check()
        alive0 = obs.is_alive()
        # another process (a live job process stands for it) creates its token file: open() ...
        import subprocess
        other = FakeJob(1, root)
        sleeper = subprocess.Popen([sys.executable, "-c", "import time; time.sleep(60)"])
        other.basepath.with_suffix(".pid").write_text(json.dumps({"type": "local", "pid": sleeper.pid}))
        f = root / "tok" / "j1.token"
        fp = f.open("wt")
        time.sleep(sc.get("gap", 0.5))
        alive_mid = obs.is_alive()
        # ... then write()
        fp.write("1\n%s\n" % other.basepath)
        fp.close()
        time.sleep(0.5)
        # our process recounts (as a start attempt would) and its job has to wait
        with tok.lock, tok.ipc_lock:
            tok._update()
        dep.check()
        st_held = dep.currentstatus.name
        avail_held = int(tok.available)
        # the other job ends and its scheduler releases
        sleeper.kill()
        sleeper.wait()
        try:
            other.basepath.with_suffix(".pid").unlink()
        except FileNotFoundError:
            pass
        try:
            f.unlink()
        except FileNotFoundError:
            pass
        deadline = time.time() + sc.get("wait", 3.0)
        while time.time() < deadline and dep.currentstatus != DependencyStatus.OK:
            time.sleep(0.05)
        res = dict(alive_before=alive0, alive_after_empty_file=alive_mid, alive_end=obs.is_alive(),
                   status_while_held=st_held, avail_while_held=avail_held,
                   status_after_release=dep.currentstatus.name, avail_after_release=int(tok.available),
                   total=sc.get("total", 1))
        try:
            obs.stop()
        except Exception:
            pass
        return res
    finally:
        shutil.rmtree(root, ignore_errors=True)


# --------------------------------------------------------------------------- real aio_start window
def other_token_user(tokendir, workdir):
    """A second process that has the token directory open (real observer, real watcher threads)."""
    T.CounterToken("other", Path(tokendir), 1, force=False)
    (Path(workdir) / "other.ready").touch()
    limit = time.time() + 120
    while not (Path(workdir) / "other.stop").exists() and time.time() < limit:
        time.sleep(0.05)
    os._exit(0)


def run_startwin(sc):
    """The real Scheduler.aio_start on a job whose start is slow, while another process watches the
    token directory: from the moment the token is taken until the job process has ended, the token
    file of the job must stay (TokenFile.watch of the other process may only delete it once the job
    lock is free and the job's process is gone)."""
    import asyncio
    root = Path(tempfile.mkdtemp(prefix="xpmverif-tokw-", dir=sc.get("scratch")))
    other = None
    res = dict(error=None)
    try:
        from experimaestro import experiment
        from experimaestro.commandline import CommandLineJob
        from vpk_c08.tasks import HoldTask
        total = sc.get("total", 2)
        delay = sc.get("delay", 0.6)
        tokendir = root / "shared-token"
        tokendir.mkdir()
        (tokendir / "token.info").write_text(str(total))
        other = subprocess.Popen([sys.executable, "-W", "ignore", __file__, "other", str(tokendir), str(root)],
                                 stdout=subprocess.DEVNULL, stderr=subprocess.DEVNULL)
        limit = time.time() + 40
        while not (root / "other.ready").exists():
            if time.time() > limit or other.poll() is not None:
                return dict(error="the second token user did not start")
            time.sleep(0.02)
        orig = CommandLineJob.aio_run

        async def slow_run(self):
            # a slow start: the scheduler holds the job lock (and the token) while it prepares the job
            seen.append(sorted(f.name for f in tokendir.glob("*.token")))
            await asyncio.sleep(delay)
            seen.append(sorted(f.name for f in tokendir.glob("*.token")))
            return await orig(self)

        seen = []
        shared_token = None     # one CounterToken object per directory and process
        if sc.get("prefail"):
            # the job fails once (its .failed marker stays until the relaunched process has taken the job lock)
            (root / "fail.1").write_text("fail")
            try:
                with experiment(root / "xp", "firstrun", port=-1) as xp0:
                    xp0.workspace.launcher.setenv("PYTHONPATH", os.environ.get("PYTHONPATH", ""))
                    token0 = shared_token = T.CounterToken("tok", tokendir, total)
                    task0 = HoldTask(dir=root, x=1)
                    task0.add_dependencies(token0.dependency(total))
                    task0.submit()
                    xp0.wait()
            except Exception:  # noqa
                pass
            (root / "fail.1").unlink()
            res["failed_marker_before_relaunch"] = bool(list((root / "xp").rglob("*.failed")))
        CommandLineJob.aio_run = slow_run
        try:
            with experiment(root / "xp", "startwin", port=-1) as xp:
                xp.workspace.launcher.setenv("PYTHONPATH", os.environ.get("PYTHONPATH", ""))
                token = shared_token or T.CounterToken("tok", tokendir, total)
                task = HoldTask(dir=root, x=1)
                task.add_dependencies(token.dependency(total))
                task.submit()
                try:
                    limit = time.time() + 60
                    while not (root / "started.1").exists() and time.time() < limit:
                        time.sleep(0.02)
                    res["started"] = (root / "started.1").exists()
                    time.sleep(0.4)
                    files = sorted(f.name for f in tokendir.glob("*.token"))
                    res["files_at_start_of_run"] = seen[0] if seen else None
                    res["files_after_slow_start"] = seen[1] if len(seen) > 1 else None
                    res["files_while_running"] = files
                    res["available_while_running"] = int(token.available)
                    # a second job asking for one unit must not be granted while the first one runs
                    dep2 = token.dependency(1)
                    granted = True
                    try:
                        token.acquire(dep2_target(dep2, root))
                        token.release(dep2)
                    except LockError:
                        granted = False
                    res["second_acquisition_granted"] = granted
                finally:
                    (root / "go").write_text("go")
                    xp.wait()
            res["total"] = total
        finally:
            CommandLineJob.aio_run = orig
        return res
    finally:
        (root / "other.stop").touch()
        if other is not None:
            try:
                other.wait(5)
            except Exception:
                other.kill()
        shutil.rmtree(root, ignore_errors=True)


def run_abortwake(sc):
    """The real scheduler loop around the token: the start of a job is aborted because the token was taken by
    another process between READY and acquire; that process gives the token back while the aborted start is
    still unwinding (the job lock is being released).  The job must be started again and run."""
    root = Path(tempfile.mkdtemp(prefix="xpmverif-toka-", dir=sc.get("scratch")))
    res = dict(error=None)
    sleeper = None
    try:
        from experimaestro import experiment
        import experimaestro.connectors.local as LC
        from vpk_c08.tasks import HoldTask
        tokendir = root / "shared-token"
        (root / "go").write_text("go")          # the task ends at once
        foreign = FakeJob(7, root)
        sleeper = subprocess.Popen(["sleep", "120"])
        foreign.basepath.with_suffix(".pid").write_text(json.dumps({"type": "local", "pid": sleeper.pid}))
        ffile = tokendir / "foreign.token"
        state = dict(acquires=0, unwinds=0)
        orig_acquire = T.CounterToken.acquire
        orig_exit = LC.InterProcessLock.__exit__

        def acquire(self, dependency):
            state["acquires"] += 1
            if state["acquires"] == 1:
                # another process has just taken the whole token (its job is alive)
                ffile.write_text("1\n%s\n" % foreign.basepath)
            return orig_acquire(self, dependency)

        def lock_exit(self, *a):
            path = os.fsdecode(self.path)
            if path.endswith(".lock") and not path.endswith("token.lock") \
                    and ffile.exists() and state["acquires"] >= 1 and state["unwinds"] == 0:
                # the aborted start is releasing the job lock (helper thread): the other process releases now
                state["unwinds"] += 1
                sleeper.kill()
                sleeper.wait()
                try:
                    ffile.unlink()
                except FileNotFoundError:
                    pass
                time.sleep(sc.get("unwind", 0.8))   # the notification is handled by the event loop meanwhile
            return orig_exit(self, *a)

        T.CounterToken.acquire = acquire
        LC.InterProcessLock.__exit__ = lock_exit
        try:
            with experiment(root / "xp", "abortwake", port=-1) as xp:
                xp.workspace.launcher.setenv("PYTHONPATH", os.environ.get("PYTHONPATH", ""))
                token = T.CounterToken("tok", tokendir, 1)
                task = HoldTask(dir=root, x=1)
                task.add_dependencies(token.dependency(1))
                task.submit()
                limit = time.time() + sc.get("wait", 12)
                while not (root / "ended.1").exists() and time.time() < limit:
                    time.sleep(0.05)
                res["job_ran"] = (root / "ended.1").exists()
                res["acquire_calls"] = state["acquires"]
                res["aborted_start_seen"] = state["unwinds"] == 1
                res["available"] = int(token.available)
                res["files"] = sorted(f.name for f in tokendir.glob("*.token"))
                job = task.__xpm__.job
                res["job_state"] = str(job.state)
                res["ready_event_set"] = job._readyEvent.is_set()
                if not res["job_ran"]:
                    # do not wait (experiment.__exit__) for a job that will never start
                    res["hung"] = True
                    answer_and_exit(res)
        finally:
            T.CounterToken.acquire = orig_acquire
            LC.InterProcessLock.__exit__ = orig_exit
        return res
    finally:
        if sleeper is not None:
            try:
                sleeper.kill()
            except Exception:
                pass
        shutil.rmtree(root, ignore_errors=True)


def run_twoexp(sc):
    """Two experiments (schedulers) of ONE process ask the same token name (equal or different totals), nested or
    one after the other; slow-starting jobs holding one unit each; never more running jobs than the total written
    in token.info, and every running job has its token file."""
    import asyncio
    root = Path(tempfile.mkdtemp(prefix="xpmverif-tok2-", dir=sc.get("scratch")))
    res = dict(error=None)
    try:
        from experimaestro import experiment
        from experimaestro.commandline import CommandLineJob
        from vpk_c08.tasks import HoldTask
        os.environ["XPM_WORKDIR"] = str(root / "xpmhome")
        t1, t2 = sc.get("totals", [2, 3])
        n1, n2 = sc.get("jobs", [3, 3])
        nested = sc.get("nested", True)
        orig = CommandLineJob.aio_run

        async def slow_run(self):
            await asyncio.sleep(sc.get("delay", 0.4))
            return await orig(self)

        CommandLineJob.aio_run = slow_run
        tasks = []

        def submit(xp, token, xs):
            for x in xs:
                task = HoldTask(dir=root, x=x)
                task.add_dependencies(token.dependency(1))
                task.submit()
                tasks.append(x)

        def running():
            return [x for x in tasks if (root / ("started.%d" % x)).exists() and not (root / ("ended.%d" % x)).exists()]

        def observe(tokdir, label):
            # let the schedulers start what they think they can start
            limit = time.time() + sc.get("settle", 5.0)
            total = int((tokdir / "token.info").read_text())
            while time.time() < limit and len(running()) <= total:
                time.sleep(0.1)
            time.sleep(0.3)
            run = running()
            files = sorted(f.name[:8] for f in tokdir.glob("*.token"))
            res[label] = dict(total=total, running=len(run), token_files=len(files))
            return total

        try:
            with experiment(root / "ws1", "xp1", port=-1) as xp1:
                xp1.workspace.launcher.setenv("PYTHONPATH", os.environ.get("PYTHONPATH", ""))
                tok1 = xp1.token("shared", t1)
                res["same_object"] = None
                submit(xp1, tok1, range(0, n1))
                if nested:
                    with experiment(root / "ws2", "xp2", port=-1) as xp2:
                        xp2.workspace.launcher.setenv("PYTHONPATH", os.environ.get("PYTHONPATH", ""))
                        tok2 = xp2.token("shared", t2)
                        res["same_object"] = tok2 is tok1
                        submit(xp2, tok2, range(10, 10 + n2))
                        observe(tok1.path, "both")
                        (root / "go").write_text("go")
                        xp2.wait()
                    xp1.wait()
                else:
                    observe(tok1.path, "first")
                    (root / "go").write_text("go")
                    xp1.wait()
            if not nested:
                (root / "go").unlink()
                with experiment(root / "ws2", "xp2", port=-1) as xp2:
                    xp2.workspace.launcher.setenv("PYTHONPATH", os.environ.get("PYTHONPATH", ""))
                    tok2 = xp2.token("shared", t2)
                    res["same_object"] = tok2 is tok1
                    submit(xp2, tok2, range(10, 10 + n2))
                    observe(tok2.path, "second")
                    (root / "go").write_text("go")
                    xp2.wait()
        finally:
            CommandLineJob.aio_run = orig
            (root / "go").write_text("go")
        return res
    finally:
        shutil.rmtree(root, ignore_errors=True)


def leftexp_holder(rootdir, how):
    """Process A: its experiment is left (exception / stop) while its job holds the token and runs."""
    root = Path(rootdir)
    from experimaestro import experiment
    from vpk_c08.tasks import HoldTask
    try:
        with experiment(root / "wsA", "xpA", port=-1) as xp:
            xp.workspace.launcher.setenv("PYTHONPATH", os.environ.get("PYTHONPATH", ""))
            token = T.CounterToken("tok", root / "shared-token", 1)
            task = HoldTask(dir=root, x=1)
            task.add_dependencies(token.dependency(1))
            task.submit()
            limit = time.time() + 60
            while not (root / "started.1").exists() and time.time() < limit:
                time.sleep(0.02)
            time.sleep(0.3)
            if how == "exception":
                raise RuntimeError("a bug in the experiment script")
            raise KeyboardInterrupt()
    except (RuntimeError, KeyboardInterrupt):
        pass
    time.sleep(0.5)
    (root / "exited.A").write_text("left")
    limit = time.time() + 60
    while not (root / "stop.A").exists() and time.time() < limit:
        time.sleep(0.05)
    os._exit(0)


def run_leftexp(sc):
    """An experiment is left by an exception while its token-holding job (a detached process) still runs; then
    another process asks for the token: the job's token file must still be there and the request refused."""
    root = Path(tempfile.mkdtemp(prefix="xpmverif-tokl-", dir=sc.get("scratch")))
    res = dict(error=None)
    holder = None
    try:
        holder = subprocess.Popen([sys.executable, "-W", "ignore", __file__, "holder", str(root), sc.get("how", "exception")],
                                  stdout=subprocess.DEVNULL, stderr=subprocess.DEVNULL)
        limit = time.time() + 60
        while not (root / "exited.A").exists():
            if time.time() > limit or holder.poll() is not None:
                return dict(error="the holder process did not get through")
            time.sleep(0.05)
        tokdir = root / "shared-token"
        res["job_running"] = (root / "started.1").exists() and not (root / "ended.1").exists()
        res["token_files"] = sorted(f.name[:8] for f in tokdir.glob("*.token"))
        # a second scheduler process (this one) asks for the token
        install_shims()
        me = EProc()
        me.alive = me.obs = True
        Ctx.proc = me
        tok = T.CounterToken("tok", tokdir, 1)
        d = tok.dependency(1)
        dep2_target(d, root)
        granted = True
        try:
            tok.acquire(d)
            tok.release(d)
        except LockError:
            granted = False
        res["second_request_granted"] = granted
        res["available_seen_by_second"] = int(tok.available)
        res["job_running_after"] = (root / "started.1").exists() and not (root / "ended.1").exists()
        return res
    finally:
        (root / "go").write_text("go")
        (root / "stop.A").write_text("stop")
        if holder is not None:
            try:
                holder.wait(8)
            except Exception:
                holder.kill()
        time.sleep(0.3)
        shutil.rmtree(root, ignore_errors=True)


def run_sameid(sc):
    """The same task (same identifier, hence the same token file name) is contended by two schedulers sharing the
    token directory: the other one has just taken the token when this scheduler tries; the refused request must
    leave the other holder's token file alone and the job must wait."""
    root = Path(tempfile.mkdtemp(prefix="xpmverif-toki-", dir=sc.get("scratch")))
    res = dict(error=None)
    sleeper = None
    try:
        from experimaestro import experiment
        from vpk_c08.tasks import HoldTask
        tokendir = root / "shared-token"
        foreign = FakeJob(7, root)
        sleeper = subprocess.Popen(["sleep", "120"])
        foreign.basepath.with_suffix(".pid").write_text(json.dumps({"type": "local", "pid": sleeper.pid}))
        state = dict(acquires=0, name=None)
        orig_acquire = T.CounterToken.acquire

        def acquire(self, dependency):
            state["acquires"] += 1
            if state["acquires"] == 1:
                # the same job, run from another workspace by another scheduler, has just taken the token
                state["name"] = dependency.name
                (tokendir / dependency.name).write_text("1\n%s\n" % foreign.basepath)
            return orig_acquire(self, dependency)

        T.CounterToken.acquire = acquire
        try:
            with experiment(root / "xp", "sameid", port=-1) as xp:
                xp.workspace.launcher.setenv("PYTHONPATH", os.environ.get("PYTHONPATH", ""))
                token = T.CounterToken("tok", tokendir, 1)
                task = HoldTask(dir=root, x=1)
                task.add_dependencies(token.dependency(1))
                task.submit()
                limit = time.time() + 10
                while state["acquires"] == 0 and time.time() < limit:
                    time.sleep(0.02)
                time.sleep(sc.get("settle", 2.0))
                f = tokendir / state["name"] if state["name"] else None
                res["first_request_made"] = state["acquires"] >= 1
                res["other_holder_file_kept"] = bool(f and f.exists() and str(foreign.basepath) in f.read_text())
                res["job_started_while_other_holds"] = (root / "started.1").exists()
                # the other holder ends and releases
                sleeper.kill()
                sleeper.wait()
                foreign.basepath.with_suffix(".pid").unlink()
                try:
                    if f and f.exists() and str(foreign.basepath) in f.read_text():
                        f.unlink()
                except FileNotFoundError:
                    pass
                (root / "go").write_text("go")
                limit = time.time() + 10
                while not (root / "ended.1").exists() and time.time() < limit:
                    time.sleep(0.05)
                res["job_ran_after_release"] = (root / "ended.1").exists()
                if not res["job_ran_after_release"]:
                    res["hung"] = True
                    answer_and_exit(res)
        finally:
            T.CounterToken.acquire = orig_acquire
        return res
    finally:
        if sleeper is not None:
            try:
                sleeper.kill()
            except Exception:
                pass
        shutil.rmtree(root, ignore_errors=True)


def run_seqexp(sc):
    """Successive experiments of ONE process reuse the token object of a name; the second one asks the name with a
    larger count; jobs wait at the first release."""
    root = Path(tempfile.mkdtemp(prefix="xpmverif-toks-", dir=sc.get("scratch")))
    res = dict(error=None)
    try:
        from experimaestro import experiment
        from vpk_c08.tasks import HoldTask
        os.environ["XPM_WORKDIR"] = str(root / "xpmhome")
        (root / "go").write_text("go")

        def submit(token, x, count):
            task = HoldTask(dir=root, x=x)
            task.add_dependencies(token.dependency(count))
            task.submit()
            return task

        with experiment(root / "ws1", "one", port=-1) as xp1:
            xp1.workspace.launcher.setenv("PYTHONPATH", os.environ.get("PYTHONPATH", ""))
            tok1 = xp1.token("shared", sc.get("first", 1))
            submit(tok1, 1, 1)
            xp1.wait()
        res["first_experiment_job_ran"] = (root / "ended.1").exists()
        (root / "go").unlink()
        try:
          with experiment(root / "ws2", "two", port=-1) as xp2:
              xp2.workspace.launcher.setenv("PYTHONPATH", os.environ.get("PYTHONPATH", ""))
              tok2 = xp2.token("shared", sc.get("second", 2))
              res["same_object"] = tok2 is tok1
              total = int((tok2.path / "token.info").read_text())
              res["token_info_total"] = total
              res["available_when_idle"] = int(tok2.available)
              # a job that needs the whole capacity as written in token.info
              full = submit(tok2, 20, total)
              limit = time.time() + sc.get("wait", 8)
              while not (root / "started.20").exists() and time.time() < limit:
                  time.sleep(0.05)
              res["full_capacity_job_started"] = (root / "started.20").exists()
              if res["full_capacity_job_started"]:
                  a, b = submit(tok2, 21, 1), submit(tok2, 22, 1)
                  time.sleep(0.6)
                  res["waiters_started_early"] = (root / "started.21").exists() or (root / "started.22").exists()
                  (root / "go").write_text("go")
                  limit = time.time() + sc.get("wait2", 15)
                  while not ((root / "ended.21").exists() and (root / "ended.22").exists()) and time.time() < limit:
                      time.sleep(0.05)
                  res["waiters_ran"] = (root / "ended.21").exists() and (root / "ended.22").exists()
                  res["states"] = [str(t.__xpm__.job.state) for t in (full, a, b)]
                  res["available_at_end"] = int(tok2.available)
              if not res.get("waiters_ran"):
                  res["hung"] = True
                  (root / "go").write_text("go")
                  answer_and_exit(res)
        except Exception as e:  # noqa
            # e.g. the experiment reports a failed job on exit
            res["second_experiment_exception"] = "%s: %s" % (type(e).__name__, str(e)[:200])
        return res
    finally:
        shutil.rmtree(root, ignore_errors=True)


def dep2_target(dep, root):
    dep.target = FakeJob(99, root)
    dep.loop = FakeLoop()
    return dep


# --------------------------------------------------------------------------- directed probes
def run_probe(sc):
    """Small directed situations on the real code (side findings of the seeding round)."""
    root = Path(tempfile.mkdtemp(prefix="xpmverif-tokq-", dir=sc.get("scratch")))
    out = {}
    try:
        install_shims()
        loop = FakeLoop()

        def token(sub, total, who):
            Ctx.proc = who
            who.alive = who.obs = True
            return T.CounterToken("tok", root / sub, total)

        def files(sub):
            res = []
            for f in sorted((root / sub).glob("*.token")):
                txt = f.read_text().split("\n")[0]
                res.append([f.name, txt])
            return res

        def dep(tok, count, job):
            d = tok.dependency(count)
            d.target, d.loop = job, loop
            d.origin.dependents.add(d)
            d.check()
            return d

        # E1: one job, two requests on the same token (taken one by one as aio_start does)
        try:
            p0 = EProc()
            tok = token("e1", 4, p0)
            job = FakeJob(0, root)
            d1, d2 = dep(tok, 2, job), dep(tok, 1, job)
            locks = Locks()
            locks.acquire()
            locks.append(d1.lock().acquire())
            locks.append(d2.lock().acquire())
            with tok.lock, tok.ipc_lock:
                tok._update()           # what the next acquire / release of anybody does first
            out["two_requests"] = dict(held=3, total=4, files=files("e1"), available_after_recount=int(tok.available))
            locks.release()
        except Exception as e:  # noqa
            out["two_requests"] = dict(error=type(e).__name__ + ": " + str(e)[:200])

        # E2: the same job identifier in two workspaces (two job directories) sharing the token
        try:
            p0 = EProc()
            tok = token("e2", 2, p0)
            ja, jb = FakeJob(1, root), FakeJob(1, root)
            jb.path = root / "other-workspace" / jb.identifier
            jb.path.mkdir(parents=True)
            jb.basepath = jb.path / jb.identifier
            da, db = dep(tok, 1, ja), dep(tok, 1, jb)
            la, lb = da.lock().acquire(), db.lock().acquire()
            fs = files("e2")
            with tok.lock, tok.ipc_lock:
                tok._update()
            out["same_identifier"] = dict(held=2, total=2, files=fs, available_after_recount=int(tok.available))
            la.release()
            out["same_identifier"]["files_after_first_release"] = files("e2")
            lb.release()
        except Exception as e:  # noqa
            out["same_identifier"] = dict(error=type(e).__name__ + ": " + str(e)[:200])

        # E3 / E4: requests that are not non-negative integers
        for name, count in (("float_request", 2.0), ("negative_request", -1)):
            try:
                p0, p1 = EProc(), EProc()
                sub = "e-" + name
                tok = token(sub, 2, p0)
                job = FakeJob(2, root)
                try:
                    d = dep(tok, count, job)
                except (ValueError, TypeError) as e:
                    out[name] = dict(rejected=type(e).__name__)
                    continue
                lk = d.lock().acquire()
                before = files(sub)
                tok1 = token(sub, 2, p1)      # another process looks at the directory
                out[name] = dict(rejected=None, count=repr(count), files=before, files_after_other_process_recount=files(sub),
                                 available_in_holder=float(tok.available), available_in_other=float(tok1.available), total=2)
                lk.release()
            except Exception as e:  # noqa
                out[name] = dict(error=type(e).__name__ + ": " + str(e)[:200])

        # E6: token.info is being rewritten (truncated) by the __init__ of another process when the
        # modified event is handled
        try:
            p0 = EProc()
            tok = token("e6", 2, p0)
            info = root / "e6" / "token.info"
            saved = info.read_text()
            info.write_text("")
            try:
                p0.handler.dispatch(FileModifiedEvent(str(info)))
                out["token_info_truncated"] = dict(handler_raised=None)
            except Exception as e:  # noqa
                out["token_info_truncated"] = dict(handler_raised=type(e).__name__)
            info.write_text(saved)
            p0.handler.dispatch(FileModifiedEvent(str(info)))
            out["token_info_truncated"]["available_after_rewrite"] = int(tok.available)
        except Exception as e:  # noqa
            out["token_info_truncated"] = dict(error=type(e).__name__ + ": " + str(e)[:200])

        # a job path that contains a newline: what another process makes of the token file
        try:
            p0, p1 = EProc(), EProc()
            tok = token("e-nl", 2, p0)
            job = FakeJob(3, root)
            job.path = root / "work\nspace" / job.identifier
            job.path.mkdir(parents=True)
            job.basepath = job.path / job.identifier
            lk = dep(tok, 1, job).lock().acquire()
            before = files("e-nl")
            tok1 = token("e-nl", 2, p1)
            out["newline_in_job_path"] = dict(files=before, files_after_other_process_recount=files("e-nl"),
                                              available_in_other=int(tok1.available), total=2)
            lk.release()
        except Exception as e:  # noqa
            out["newline_in_job_path"] = dict(error=type(e).__name__ + ": " + str(e)[:200])

        # a token directory whose own name ends in .token: inotify reports the directory as modified
        try:
            from watchdog.events import DirModifiedEvent
            p0 = EProc()
            tok = token("gpu.token", 2, p0)
            try:
                p0.handler.dispatch(DirModifiedEvent(str(root / "gpu.token")))
                out["directory_named_token"] = dict(handler_raised=None)
            except Exception as e:  # noqa
                out["directory_named_token"] = dict(handler_raised=type(e).__name__)
        except Exception as e:  # noqa
            out["directory_named_token"] = dict(error=type(e).__name__ + ": " + str(e)[:200])

        # Process.handler(): a second watcher thread asks for a handler while the first one is loading them
        try:
            import experimaestro.connectors as CN
            import pkg_resources
            CN.Process.HANDLERS = None
            seen = {}
            real_iter = pkg_resources.iter_entry_points

            def iter_hook(*a, **kw):
                first = True
                for ep in real_iter(*a, **kw):
                    if first and "second" not in seen:
                        first = False
                        seen["second"] = "pending"
                        # what another TokenFile.watch thread gets at this very moment
                        seen["second"] = CN.Process.handler("local") is not None
                    yield ep

            pkg_resources.iter_entry_points = iter_hook
            try:
                first = CN.Process.handler("local") is not None
            finally:
                pkg_resources.iter_entry_points = real_iter
            out["process_handlers"] = dict(first_caller_gets_handler=first, concurrent_caller_gets_handler=seen.get("second"))
        except Exception as e:  # noqa
            out["process_handlers"] = dict(error=type(e).__name__ + ": " + str(e)[:200])
        return out
    finally:
        Ctx.proc = None
        shutil.rmtree(root, ignore_errors=True)


def run_one(sc):
    kind = sc.get("kind", "fs")
    if kind == "fs":
        return run_fs(sc)
    if kind == "inproc":
        return run_inproc(sc)
    if kind == "realobs":
        return run_realobs(sc)
    if kind == "stress":
        from tokstress import run_stress
        return run_stress(sc)
    if kind == "startwin":
        return run_startwin(sc)
    if kind == "probe":
        return run_probe(sc)
    if kind == "abortwake":
        return run_abortwake(sc)
    if kind == "twoexp":
        return run_twoexp(sc)
    if kind == "sameid":
        return run_sameid(sc)
    if kind == "seqexp":
        return run_seqexp(sc)
    if kind == "leftexp":
        return run_leftexp(sc)
    raise ValueError(kind)


RESULT_FD = None


def answer_and_exit(res):
    """Give the answer of the scenario and end the process at once (threads / event loop may be stuck)."""
    if RESULT_FD is not None:
        os.write(RESULT_FD, json.dumps(res).encode())
        os.close(RESULT_FD)
    else:
        print(json.dumps(res))
        sys.stdout.flush()
    os._exit(0)


def run_forked(sc, timeout):
    """Each scenario runs in its own (forked) process under a hard timeout."""
    import select
    import signal
    r, w = os.pipe()
    pid = os.fork()
    if pid == 0:
        code = 0
        try:
            os.setpgrp()   # job processes started by the scenario die with it on a timeout
            os.close(r)
            global RESULT_FD
            RESULT_FD = w
            try:
                res = run_one(sc)
            except BaseException as e:  # noqa
                import traceback
                res = dict(error="harness exception: %s" % traceback.format_exc()[-1500:], steps=[])
            with os.fdopen(w, "w") as fp:
                fp.write(json.dumps(res))
        except BaseException:  # noqa
            code = 1
        finally:
            os._exit(code)
    os.close(w)
    chunks = []
    deadline = time.time() + timeout
    timed_out = False
    with os.fdopen(r, "rb") as fp:
        while True:
            left = deadline - time.time()
            if left <= 0:
                timed_out = True
                break
            ready, _, _ = select.select([fp], [], [], left)
            if not ready:
                timed_out = True
                break
            b = os.read(fp.fileno(), 1 << 16)
            if not b:
                break
            chunks.append(b)
    if timed_out:
        try:
            os.killpg(pid, signal.SIGKILL)
        except Exception:
            pass
        try:
            os.kill(pid, signal.SIGKILL)
        except Exception:
            pass
    try:
        os.waitpid(pid, 0)
    except Exception:
        pass
    if timed_out:
        return dict(error="timeout after %ss" % timeout, steps=[], timeout=True)
    try:
        return json.loads(b"".join(chunks).decode())
    except Exception:
        return dict(error="no answer from the scenario process", steps=[])


def main():
    if len(sys.argv) > 1 and sys.argv[1] == "other":
        other_token_user(sys.argv[2], sys.argv[3])
    if len(sys.argv) > 1 and sys.argv[1] == "holder":
        leftexp_holder(sys.argv[2], sys.argv[3])
    payload = json.load(sys.stdin)
    if "scenarios" in payload:
        res = [run_forked(sc, payload.get("timeout", 30)) for sc in payload["scenarios"]]
    else:
        res = run_one(payload)
    sys.stdout.flush()
    print(json.dumps(res))


if __name__ == "__main__":
    main()
