"""C11 - restarting a killed experiment adopts running jobs and repeats nothing.

Real experiment driver processes (harness/vpk_jobdir/xpdriver.py: `with experiment(...)`, 1 job /
chain of 2 / 2 independent jobs of latch-controlled tasks) are killed (SIGKILL / SIGTERM / SIGINT)
at the n-th executed line of Scheduler.aio_start / CommandLineJob.aio_run or at coarse phases,
the same experiment is run again, and
  * the property is checked on the task-side log and the final states (oracle, model independent);
  * the recorded effect sequence of both runs and of the job processes is validated against
    model/JobDir.v inside coqc (corr/JobDirCorr.v).
"""
import json
import os
import time

from vcommon import Check, InternalError, REPO, main_wrapper, run_impl
from vpk_jobdir import cases, replay

SIGNALS = ["KILL", "TERM", "INT"]


def nlines(out):
    return sum(1 for r in replay.parse_log(out["log"]) if r["who"] != "P" and r["kind"] == "L" and r["rest"][0] in cases.KILLFUNCS)


def last_wait(out, markers):
    """index (among the counted lines) of the last line at which the scheduler starts waiting for a job process"""
    k = last = 0
    for r in replay.parse_log(out["log"]):
        if r["who"] != "P" and r["kind"] == "L" and r["rest"][0] in cases.KILLFUNCS:
            k += 1
            if markers and markers.get((r["rest"][0], int(r["rest"][1]))) == "WAIT":
                last = k
    return last or k


def gen_scenarios(c, nref, lastwait, nspawn, nspawn_tok=0):
    rng = c.rng
    scs = []
    k = 0

    def add(kind, kill, latch, sig, second=None):
        nonlocal k
        k += 1
        if "line" in kill and kill["line"] > lastwait.get(kind, 10 ** 6):
            latch = "free"      # the line is only executed once every body has ended
        scs.append(cases.sc_restart(f"s{k:04d}", kind, kill, latch, sig, second))

    if c.quick:
        # coarse phases first (they survive a time-limited run), then the line sweep, configurations interleaved
        phases = [("one", "running:1"), ("chain2", "between:1"), ("indep2", "running:2"), ("one", "spawn:1"),
                  ("chain2", "running:1"), ("one", "entered"), ("indep2", "submitted"), ("chain2", "start")]
        for kind, ph in phases:
            add(kind, {"phase": ph}, rng.choice(["late", "late", "early"]), rng.choice(SIGNALS))
        add("one", {"line": rng.randrange(20, 40)}, "late", "KILL", second=rng.randrange(5, 60))
        # the signal reaches the whole process group of the experiment (Ctrl-C / hang-up of its terminal)
        add("one", {"phase": "running:1"}, "late", "GINT")
        add("chain2", {"phase": "running:1"}, "late", "GHUP")
        k += 1
        scs.append(cases.sc_frozen_orphan(f"s{k:04d}", nspawn))
        # the job cannot be adopted (no pid file / empty pid file) and keeps running well into the second run
        k += 1
        scs.append(cases.sc_long_orphan(f"s{k:04d}", "one", nspawn, wait=6.5))
        k += 1
        scs.append(cases.sc_long_orphan(f"s{k:04d}", "one", nspawn + 1, wait=6.5, sig="TERM"))
        # the job ends while the second run looks for its process; empty pid file + token + slow start
        k += 1
        scs.append(cases.sc_toctou(f"s{k:04d}"))
        if nspawn_tok:
            k += 1
            scs.append(cases.sc_token_empty_pid(f"s{k:04d}", nspawn_tok + 1))
        k += 1
        scs.append(cases.sc_linger(f"s{k:04d}", "KILL"))
        k += 1
        scs.append(cases.sc_silent_eoj(f"s{k:04d}", "KILL"))
        for sig, latch in (("TERM", "late"), ("KILL", "early")):
            k += 1
            scs.append(cases.sc_token_restart(f"s{k:04d}", sig, "running:1", latch))
        steps = dict(one=4, chain2=7, indep2=12)
        per = {}
        for kind in ("one", "chain2", "indep2"):
            off = rng.randrange(steps[kind])
            per[kind] = [(kind, n) for n in range(1 + off, nref[kind] + 1, steps[kind])]
        while any(per.values()):
            for kind in ("one", "chain2", "indep2"):
                if per[kind]:
                    kd, n = per[kind].pop(0)
                    add(kd, {"line": n}, rng.choice(["late", "late", "early", "free"]), rng.choice(["KILL", "KILL", "TERM", "INT"]))
    else:
        for kind in ("one", "chain2", "indep2"):
            for n in range(1, nref[kind] + 1):
                add(kind, {"line": n}, rng.choice(["late", "late", "early", "free"]), "KILL")
                if n % 2 == 0:
                    add(kind, {"line": n}, rng.choice(["late", "early", "free"]), "TERM")
                if n % 3 == 0:
                    add(kind, {"line": n}, rng.choice(["late", "early", "free"]), "INT")
        for kind, phs in (("one", ["start", "entered", "submitted", "spawn:1", "running:1"]),
                          ("chain2", ["entered", "submitted", "spawn:1", "running:1", "between:1"]),
                          ("indep2", ["entered", "submitted", "spawn:2", "running:1", "running:2"])):
            for ph in phs:
                for sig in SIGNALS:
                    add(kind, {"phase": ph}, rng.choice(["late", "early"]), sig)
        for _ in range(20):
            kind = rng.choice(["one", "chain2", "indep2"])
            add(kind, {"line": rng.randrange(1, nref[kind] + 1)}, "late", "KILL", second=rng.randrange(1, 80))
        for kind, ph in (("one", "running:1"), ("one", "spawn:1"), ("chain2", "running:1"), ("chain2", "between:1"),
                         ("indep2", "running:2")):
            for sig in ("GINT", "GHUP", "GTERM"):
                add(kind, {"phase": ph}, rng.choice(["late", "early"]), sig)
        for i in range(6):
            k += 1
            scs.append(cases.sc_long_orphan(f"s{k:04d}", rng.choice(["one", "one", "indep2"]), nspawn + (i % 3),
                                            wait=rng.choice([6.5, 8.0]), sig=SIGNALS[i % 2]))
        for sig in SIGNALS[:2]:
            k += 1
            scs.append(cases.sc_toctou(f"s{k:04d}", sig))
        if nspawn_tok:
            for i in range(4):
                k += 1
                scs.append(cases.sc_token_empty_pid(f"s{k:04d}", nspawn_tok + 1 + (i % 2), thaw=rng.choice([1.0, 2.0, 3.0])))
        for sig in SIGNALS:
            k += 1
            scs.append(cases.sc_linger(f"s{k:04d}", sig))
            k += 1
            scs.append(cases.sc_silent_eoj(f"s{k:04d}", sig, extra=rng.choice([2.0, 3.0])))
        for i in range(12):
            k += 1
            scs.append(cases.sc_frozen_orphan(f"s{k:04d}", nspawn + (i % 3), SIGNALS[i % 2], wait=rng.choice([1.5, 2.5, 4.0])))
        for sig in SIGNALS:
            for ph in ("running:1", "submitted", "entered"):
                for latch in ("late", "early"):
                    k += 1
                    scs.append(cases.sc_token_restart(f"s{k:04d}", sig, ph, latch))
        rng.shuffle(scs)
    return scs


def hang_signature(sc, out, rows):
    """the scenario ran out of time although nothing was left to wait for: a restarted experiment that has submitted
    everything is still there, the latches are open, every body that began has ended, no job process is alive, and
    the shared log has been silent for a while"""
    if not out["timed_out"] or not out.get("alive_at_end"):
        return None
    if (out.get("quiet_s") or 0) < 12 or not out.get("latch_open"):
        return None
    begun = {(r["tag"], r["pid"]) for r in rows if r["who"] == "P" and r["kind"] == "begin"}
    ended = {(r["tag"], r["pid"]) for r in rows if r["who"] == "P" and r["kind"] == "end"}
    if begun - ended:
        return None
    stuck = [x for x in out["alive_at_end"] if not x.endswith(".0")
             and any(r["who"] == x.split(".")[0] and str(r.get("run")) == x.split(".")[1] and r["kind"] == "phase"
                     and r["rest"] == ["submitted"] for r in rows)]
    if not stuck:
        return None
    empty = [t for t, s in out["snapshot"].items() if s.get("pid") and s.get("pidvalue") in (None, "unreadable")]
    never = [t for t in sc["tags"] if not any(tg == t for tg, _ in begun) and not out["snapshot"].get(str(t), {}).get("done")]
    return dict(stuck_runs=stuck, empty_pid_files=empty, jobs_never_started=never, token_files=out.get("token_files"))


def oracle(c, sc, out):
    """the property restated on what the real processes did; returns 'ok' | 'violation' | 'inconclusive'"""
    rows = replay.parse_log(out["log"])
    tags = sc["tags"]
    meta = sc["meta"]
    data = dict(scenario=sc, exit=out["exit"], snapshot=out["snapshot"], log=cases.short_log(out, 80))
    verdict = "ok"
    hs = hang_signature(sc, out, rows)
    if hs is not None:
        key = ("C11:pid-file-vanishes-during-lookup-stuck" if sc["meta"].get("toctou") else
               "C11:token-watcher-spins-on-empty-pid-file" if sc["meta"].get("token_empty_pid") else
               "C11:empty-pid-file-stuck" if hs["empty_pid_files"] else
               "C11:token-not-reclaimed-stuck" if sc["meta"].get("token") and hs["jobs_never_started"] else "C11:restart-stuck")
        c.violation(key, "the experiment run again after the kill never ends: " + json.dumps(hs), data)
        return "violation"
    if not cases.usable(out):
        return "inconclusive"
    for t in tags:
        overlap, rerun = cases.intervals_ok(rows, t)
        if overlap:
            c.violation("C11:body-overlap", f"two bodies of job {t} ran at the same time", data)
            verdict = "violation"
        nb = cases.count_begins(rows, t)
        if rerun or nb > 1:
            c.violation("C11:body-rerun", f"the body of job {t} ran {nb} times although no run failed", data)
            verdict = "violation"
        begun = [(r["pid"]) for r in cases.body_rows(rows, t) if r["kind"] == "begin"]
        ended_ok = [(r["pid"]) for r in cases.body_rows(rows, t) if r["kind"] == "end" and r["res"] == "ok"]
        if set(begun) - set(ended_ok) and str(meta.get("sig", "")).startswith("G"):
            c.violation("C11:group-signal-kills-jobs", f"a signal sent to the process group of the experiment (as a terminal "
                        f"does) killed the running process of job {t}", data)
            verdict = "violation"
        elif set(begun) - set(ended_ok):
            c.violation("C11:job-process-lost", f"a process of job {t} began its body and never ended it successfully", data)
            verdict = "violation"
    if out.get("lock_changes"):
        c.violation("C11:lock-file-replaced", f"the file that carries the run lock was removed or replaced: {out['lock_changes']}", data)
        verdict = "violation"
    # a dependent may only begin once the PROCESS of its dependency is gone (it logs "late" at its very end)
    if sc["kind"] == "chain2":
        late = [r["i"] for r in rows if r["who"] == "P" and r["kind"] == "late" and r["tag"] == tags[0]]
        b2 = [r["i"] for r in rows if r["who"] == "P" and r["kind"] == "begin" and r["tag"] == tags[1]]
        if meta.get("linger") and b2 and (not late or min(b2) < max(late)):
            c.violation("C11:dependent-before-dependency-process-ended", "the dependent job began while the process of its "
                        "dependency (success marker written, pid file present) was still working: it was not adopted", data)
            verdict = "violation"
    if any(r["who"] == "P" and r["kind"] == "early" for r in rows):
        c.violation("C11:dependent-before-dependency", "the dependent job began before its dependency had ended", data)
        verdict = "violation"
    last = max(r["run"] for r in sc["runs"])
    res = out["results"].get(f"S0.{last}")
    if not res or "jobs" not in res:
        c.violation("C11:no-result-after-restart", "the last run of the experiment gave no result: " + json.dumps(out["stderr"])[:300], data)
        return "violation"
    states = {j["tag"]: j for j in res["jobs"]}
    for t in tags:
        if states.get(t, {}).get("state") != "DONE" or not out["snapshot"][str(t)]["done"]:
            c.violation("C11:not-done-after-restart", f"job {t} is {states.get(t, {}).get('state')} after the restart "
                        f"(marker: {out['snapshot'][str(t)]['done']})", data)
            verdict = "violation"
        # what the only execution of the body printed is part of the results of the job
        ran = [r["pid"] for r in cases.body_rows(rows, t) if r["kind"] == "begin"]
        outtxt = out["snapshot"][str(t)].get("out")
        if len(ran) == 1 and outtxt is not None and f"output of {t} {ran[0]}" not in outtxt:
            c.violation("C11:output-lost-by-noop-relaunch", f"job {t} ran once (process {ran[0]}) but its standard output is "
                        f"{outtxt!r}: a later launch that did not run the body truncated <name>.out", data)
            verdict = "violation"
        if cases.count_begins(rows, t) == 0:
            c.violation("C11:done-without-run", f"job {t} is reported DONE but its body never ran", data)
            verdict = "violation"
    if sc["meta"].get("token"):
        if out.get("token_files"):
            c.violation("C11:token-file-left", f"token files remain after the last run: {out['token_files']}", data)
            verdict = "violation"
        # the token has one unit: the two bodies never overlap
        inside = None
        for r in rows:
            if r["who"] == "P" and r["kind"] == "begin":
                if inside is not None:
                    c.violation("C11:token-capacity", "two jobs sharing a token of total 1 ran at the same time", data)
                    verdict = "violation"
                inside = r["pid"]
            elif r["who"] == "P" and r["kind"] == "end" and inside == r["pid"]:
                inside = None
        # killed while a job was running and recorded: exactly one process per job over all runs
        if sc["meta"]["kill"].get("phase", "").startswith("running"):
            for t in tags:
                nl = sum(1 for r in rows if r["who"] == "S0" and r["kind"] == "R" and r["rest"][0] == "aio_run" and r["rest"][1] == str(t))
                if nl != 1:
                    c.violation("C11:launch-count", f"job {t} was launched {nl} times over all runs (kill while it was running, "
                                "recorded in its pid file)", data)
                    verdict = "violation"
    # adoption: a job whose process was recorded in the pid file and still inside its body when the last run
    # looked for it must not be launched again by that run
    for t in tags:
        rec = None
        for r in rows:
            if r["who"] == "S0" and r["kind"] == "L" and r["run"] < last and r["rest"][0] == "aio_run" and r["rest"][2] == str(t):
                kv = dict(x.split("=", 1) for x in r["rest"][3:] if "=" in x)
                if kv.get("state") == "RUNNING" and "pid" in kv:
                    rec = int(kv["pid"])
        if rec is None:
            continue
        b = next((r["i"] for r in cases.body_rows(rows, t) if r["kind"] == "begin" and r["pid"] == rec), None)
        e = next((r["i"] for r in cases.body_rows(rows, t) if r["kind"] == "end" and r["pid"] == rec), None)
        first_start = next((r["i"] for r in rows if r["who"] == "S0" and r["kind"] == "L" and r["run"] == last
                            and r["rest"][0] == "aio_start" and r["rest"][2] == str(t)), len(rows) + 1)
        look = [r["i"] for r in rows if r["who"] == "S0" and r["kind"] == "L" and r["run"] == last
                and r["rest"][0] == "aio_submit" and r["rest"][2] == str(t) and r["i"] < first_start]
        if b is None or e is None or not look:
            continue
        if b < look[0] and e > look[-1] and states[t].get("launched"):
            # the recorded process was inside its body during the whole look-up phase of the last run's aio_submit,
            # and that run nevertheless started a process of its own
            c.violation("C11:relaunched-instead-of-adopted", f"job {t} was running (process {rec} recorded in the pid file, "
                        "inside its body) when the experiment was run again, and a new process was launched for it", data)
            verdict = "violation"
    return verdict


def _spawned(rows, run, t):
    return any(r["who"] == "S0" and r["kind"] == "R" and r["run"] == run and r["rest"][0] == "aio_run" and r["rest"][1] == str(t)
               for r in rows)


def _first_spawn(rows, run, t):
    return next(r["i"] for r in rows if r["who"] == "S0" and r["kind"] == "R" and r["run"] == run and r["rest"][0] == "aio_run"
                and r["rest"][1] == str(t))


def run(c: Check):
    c.rule = ("real experiment processes (1 job / chain of 2 / 2 independent jobs, latch-controlled bodies) killed by "
              "SIGKILL/SIGTERM/SIGINT at the n-th executed line of Scheduler.aio_start / CommandLineJob.aio_run (n swept over "
              "the reference execution) or at a phase (before launch, after spawn, while job k runs, between dependent jobs), "
              "then run again (sometimes killed again); non-trivial = the killed run left at least one job unfinished; "
              "distinct by (configuration, kill point, signal, latch policy)")
    if os.environ.get("VERIF_SKIP_BUILD"):
        c.gate()
    else:
        c.build()
    c.props()
    markers = replay.load_markers(REPO)
    c.extra["source_markers_found"] = markers is not None
    t_budget = time.time() + (70 if c.quick else 13 * 60)
    base = str(c.scratch())
    if c.replay:
        rp = json.load(open(c.replay))["replay"]
        scs = [dict(rp["scenario"], id=f"replay{i}") for i in range(3)] if "scenario" in rp else []
        refs = []
    else:
        refs = [cases.sc_reference(k) for k in ("one", "chain2", "indep2", "tok1")]
        scs = []
        try:
            gold = json.load(open(os.path.join(os.path.dirname(__file__), "..", "golden", "c11.json")))
        except FileNotFoundError:
            gold = []
        for i, g in enumerate(gold):
            scs.append(dict(g, id=f"gold{i}"))
    ref_out = run_impl("drive_c11.py", dict(scenarios=refs, base=base, workers=4), timeout=300) if refs else []
    nref, lastwait, nspawn, nspawn_tok = {}, {}, 34, 0
    for sc, o in zip(refs, ref_out):
        if o is None or not cases.usable(o):
            raise InternalError(f"reference run {sc['id']} did not complete: {json.dumps(o)[:1500] if o else o}")
        nref[sc["meta"]["kind"]] = nlines(o)
        lastwait[sc["meta"]["kind"]] = last_wait(o, markers)
        if sc["meta"]["kind"] in ("one", "tok1"):
            # the first counted line at which the job process exists
            kk = 0
            for r in replay.parse_log(o["log"]):
                if r["who"] != "P" and r["kind"] == "L" and r["rest"][0] in cases.KILLFUNCS:
                    kk += 1
                    if r["rest"][0] == "aio_run" and any(x.startswith("pid=") for x in r["rest"][3:]):
                        if sc["meta"]["kind"] == "one":
                            nspawn = kk
                        else:
                            nspawn_tok = kk
                        break
    c.extra["reference_lines"] = nref
    if not c.replay:
        scs += gen_scenarios(c, nref, lastwait, nspawn, nspawn_tok)
    outs = run_impl("drive_c11.py", dict(scenarios=scs, base=base, workers=6, deadline=t_budget),
                    timeout=(240 if c.quick else 1500)) if scs else []
    allsc = list(zip(refs + scs, ref_out + outs))
    corr = []
    skipped = inconclusive = 0
    for sc, o in allsc:
        if o is None:
            skipped += 1
            continue
        c.evaluations += 1
        m = sc["meta"]
        fam = m["family"]
        c.count(f"family:{fam}")
        c.count(f"config:{m['kind']}")
        if m.get("frozen_orphan"):
            c.count("kill:frozen-orphan")
        if m.get("linger"):
            c.count("kill:dependency-process-lingering")
        if m.get("long_orphan"):
            c.count("kill:unadoptable-job-runs-on-for-seconds")
        if m.get("toctou"):
            c.count("kill:job-ends-during-process-lookup")
        if m.get("token_empty_pid"):
            c.count("kill:token+empty-pid-file+slow-start")
        if m.get("silent_eoj"):
            c.count("kill:end-of-job-report-hanging")
        if fam == "restart":
            c.count("signal:" + m["sig"])
            c.count("latch:" + m["latch"])
            c.count("kill:" + ("line" if "line" in m["kill"] else "phase:" + m["kill"]["phase"].split(":")[0]))
            if m.get("second_kill") is not None:
                c.count("kill:twice")
        v = oracle(c, sc, o)
        c.count("oracle:" + v)
        if v == "inconclusive":
            inconclusive += 1
            c.extra.setdefault("inconclusive", []).append(dict(id=sc["id"], meta=m, timed_out=o["timed_out"], leftover=o["leftover"],
                                                               problems=o["problems"], unfired=o["unfired"], exit=o["exit"]))
            continue
        rows = replay.parse_log(o["log"])
        died = o["exit"].get("S0.0") not in (0, None) or any(r.get("kind") in ("KILL", "EXTKILL") for r in rows if r["who"] == "S0")
        returned0 = sum(1 for r in rows if r["who"] == "S0" and r.get("run") == 0 and r["kind"] == "R" and r["rest"][0] == "aio_submit")
        if fam == "restart" and died and returned0 < len(sc["tags"]):
            c.nontrivial.add(json.dumps([m["kind"], m["kill"], m["sig"], m["latch"], m.get("second_kill")], sort_keys=True))
        if v == "ok":
            case, why = cases.build_case(sc, o, markers)
            if case is None:
                c.count("trace:not-validated:" + why)
            else:
                c.count("trace:witness-" + ("found" if case["found"] else "not-found"))
                case["id"] = sc["id"]
                case["meta"] = m
                case["log"] = cases.short_log(o, 60)
                corr.append(case)
        if len(c.samples) < 4 and fam == "restart":
            c.samples.append(dict(scenario=m, exit=o["exit"], log=cases.short_log(o, 25)))
    c.extra["skipped_for_time"] = skipped
    c.extra["inconclusive_scenarios"] = inconclusive
    if c.evaluations and inconclusive > max(3, 0.3 * c.evaluations):
        raise InternalError(f"{inconclusive} of {c.evaluations} scenarios did not end cleanly (machine overloaded?): "
                            + json.dumps(c.extra.get("inconclusive", [])[:3])[:1500])
    bad = c.corr_shards("corr", cases.CORR_HEADER, corr, cases.g_case, "check_case", shard=40) if corr else []
    c.extra["disagreeing_cases"] = [dict(id=corr[i]["id"], meta=corr[i]["meta"], why=corr[i]["why"], log=corr[i]["log"]) for i in bad[:5]]
    c.level_assumptions = [
        "OS: the fcntl lock on <name>.lock is exclusive between processes and released when its holder dies (modelled by the "
        "Lock/Unlock/Crash/Kill transitions, probed by every scenario, not proved)",
        "OS: a job process started with Popen survives the death of the scheduler process (probed: every body that began "
        "must end successfully); psutil reports liveness of the pid in the pid file truthfully, no pid reuse",
        "the theorems are safety statements plus absence of dead ends (C11_no_deadlock); that an enabled effect is eventually "
        "taken (fair OS scheduling, terminating task bodies) is assumed",
        "token workloads (2 jobs sharing a CounterToken of total 1) are checked by the oracle (adopted not relaunched, one "
        "launch per job, capacity, no token file left = tokens_clean) and validated as traces against JobDir.v with the token "
        "abstracted away (its gate only delays LReady); the token protocol itself is C08/C09's model",
    ]


if __name__ == "__main__":
    main_wrapper("C11", run)
