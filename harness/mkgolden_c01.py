"""Regenerates golden/c01.json: identifiers pinned by the base commit (run by hand:
VERIF_REPO=<worktree of 406b0b9> python harness/mkgolden_c01.py)."""
import json
import random
import identgen
from vcommon import run_impl, ROOT

rng = random.Random("golden-c01")
g = identgen.Gen(rng)
cases = []
for k in range(40):
    # identifiers of sealed cyclic configurations were request-order dependent at the base commit
    # (defect #1), so cyclic graphs are pinned unsealed only
    d = g.graph(p_cycle=0.0) if k < 28 else g.graph(p_cycle=1.0, p_out=0.0)
    if k >= 28:
        d["actions"] = [a for a in d["actions"] if a["a"] not in ("submit", "seal")]
    cases.append(dict(desc=d, histories=[[dict(op="full", n=i) for i in range(len(d["nodes"]))],
                                         [dict(op="raw", n=i) for i in range(len(d["nodes"]))]]))
res = run_impl("drive_ident.py", dict(cases=cases))
out = [dict(desc=c["desc"], histories=c["histories"], answers=r["answers"]) for c, r in zip(cases, res)]
(ROOT / "golden" / "c01.json").write_text(json.dumps(out))
print(len(out), sum(len(a) for o in out for a in o["answers"]))
