"""Implementation driver for C10: crash sweep on the real task runner.

stdin : {"scratch": dir, "workers": 16, "cases": [{"launches": [{"mode", "sig", "n", "kill_after", "waiter"}, ...]}, ...]}
        kill_after: j - a second death (SIGKILL when j observable effects have followed the first signal)
        waiter: {"mode", "sig", "n"} | {"mode", "sig", "ext": ms, "after_line": n} - a second job process for the
        same directory, started while the first is held in its body (see launch_double)
stdout: last line = JSON list, one entry per case: {"launches": [observation, ...]}

For every case a real job directory is produced by the real submission machinery in GENERATE_ONLY mode
(CommandLineJob.prepare -> PythonScriptBuilder.write: <name>.py + params.json).  Every launch starts the
generated script with the real LocalProcessBuilder under vpk_c10.crashrun, writes <name>.pid exactly as
CommandLineJob.aio_run does (json.dump(process.tospec())), waits for the process to end and then looks at
the directory: marker files, whether a probe can take the run lock, the body counter.
"""
import json
import logging
import os
import signal
import sys
import threading
import time
from concurrent.futures import ThreadPoolExecutor
from pathlib import Path

logging.disable(logging.CRITICAL)

import fasteners  # noqa: E402
from experimaestro import experiment, RunMode  # noqa: E402
from experimaestro.connectors import Redirect  # noqa: E402
from experimaestro.connectors.local import LocalConnector  # noqa: E402
from vpk_c10.tasks import CrashTask  # noqa: E402

PY = sys.executable

import experimaestro.run as _xrun  # noqa: E402
from vpk_c10.crashrun import try_ranges  # noqa: E402

TRY_RANGES = try_ranges(_xrun.__file__)


def generate(scratch, cases):
    """One real job directory per case; the workspace directory is named as the case says (`ws`: plain, or with
    characters a shell would quote - the paths end up as Python literals in the generated script)."""
    jobs = [None] * len(cases)
    stderr, sys.stderr = sys.stderr, open(os.devnull, "w")
    try:
        for wsname in sorted({case.get("ws") or "ws" for case in cases}):
            wd = Path(scratch) / wsname
            with experiment(wd, "c10", port=-1, run_mode=RunMode.GENERATE_ONLY):
                for i, case in enumerate(cases):
                    if (case.get("ws") or "ws") != wsname:
                        continue
                    counter = Path(scratch) / "counters" / f"{i}"
                    counter.parent.mkdir(exist_ok=True, parents=True)
                    t = CrashTask(mode=case["launches"][0]["mode"], counter=str(counter))
                    t.submit()
                    job = t.__xpm__.job
                    jobs[i] = dict(path=job.path, script=job.path / f"{job.name}.py", pid=job.pidpath,
                                   lock=job.lockpath, done=job.donepath, failed=job.failedpath,
                                   counter=counter, stdout=job.stdout, stderr=job.stderr)
    finally:
        sys.stderr = stderr
    return jobs


def observe(job):
    failed = None
    raw = None
    if job["failed"].is_file():
        raw = job["failed"].read_text()
        try:
            failed = int(raw.strip())
        except ValueError:
            failed = -999
    lock = fasteners.InterProcessLock(str(job["lock"]))
    lockfree = bool(lock.acquire(blocking=False))
    if lockfree:
        lock.release()
    text = job["counter"].read_text() if job["counter"].is_file() else ""
    return dict(done=job["done"].is_file(), failed=failed, failed_raw=raw, pid=job["pid"].is_file(),
                lockfree=lockfree, B=text.count("B"), E=text.count("E"), X=text.count("X"), F=text.count("F"))


def start(job, evlog, mode, sig, n, env, j2=None, hold=None):
    """Starts the generated script under the crash wrapper and writes <name>.pid as CommandLineJob.aio_run does."""
    if evlog.exists():
        evlog.unlink()
    pb = LocalConnector.instance().processbuilder()
    pb.command = [PY, "-W", "ignore", "-m", "vpk_c10.crashrun", str(job["script"]), str(evlog),
                  sig or "NONE", str(n or 0), str(-1 if j2 is None else j2)]
    e = dict(env)
    e["VPK_C10_MODE"] = mode
    e.pop("VPK_C10_HOLD", None)
    if hold is not None:
        e["VPK_C10_HOLD"] = str(hold)
    pb.environ = e
    pb.stdout = Redirect.file(job["stdout"])
    pb.stderr = Redirect.file(job["stderr"])
    process = pb.start(True)
    # what CommandLineJob.aio_run does right after starting the process
    with job["pid"].open("w") as fp:
        json.dump(process.tospec(), fp)
    return process


def wait(process, limit=90):
    hung = []
    timer = threading.Timer(limit, lambda: (hung.append(1), os.kill(process.tospec()["pid"], signal.SIGKILL)))
    timer.start()
    rc = process.wait()
    timer.cancel()
    return rc, bool(hung)


def read_log(evlog):
    """-> effects before the (first) signal, after it, executed lines, the signal record, the second death,
    the number of lines executed when the lock was taken"""
    pre, post, lines, kill, kill2, lock_n, body_n, pre_n, child, mid = [], [], [], None, None, None, None, [], [], None
    for line in (evlog.read_text().splitlines() if evlog.exists() else []):
        tag, _, rest = line.partition(" ")
        if tag == "L":
            lines.append(rest.split(" ")[1])
        elif tag == "K":
            f = rest.split(" ")
            rec = dict(sig=f[0], ctx=f[1], n=int(f[2]), at=f[3])   # (second death: ctx "-", n = j, at = eff:<next>)
            if kill is None:
                kill = rec
            else:
                kill2 = rec
        elif tag == "CE":
            child.append(rest)
        elif tag == "M":
            mid = dict(done=rest[0] == "1", failed=rest[1] == "1", pid=rest[2] == "1")
        elif tag == "E":
            (post if kill else pre).append(rest)
            if not kill:
                pre_n.append(len(lines))
            if rest == "Lock" and lock_n is None:
                lock_n = len(lines)
            if rest == "BodyBegin" and body_n is None:
                body_n = len(lines)
    return pre, post, lines, kill, kill2, lock_n, body_n, pre_n, child, mid


def record(job, evlog, l, rc, hung):
    pre, post, lines, kill, kill2, lock_n, body_n, pre_n, child, mid = read_log(evlog)
    out = dict(mode=l["mode"], sig=l.get("sig"), n=l.get("n") or 0, fired=kill is not None,
               ctx=kill["ctx"] if kill else None, at=kill["at"] if kill else None,
               killed_again=kill2 is not None, at2=kill2["at"] if kill2 else None,
               pre=pre, post=post, child=child, mid=mid, eoj=l.get("eoj"), rc=rc, nlines=len(lines), hung=hung or rc == 97)
    if l.get("ref"):
        out["lines"] = lines
        out["lock_n"] = lock_n   # number of executed lines when the lock was taken (the last one calls lock.acquire)
        out["body_n"] = body_n   # ... when the body began
        out["pre_n"] = pre_n     # ... at each observed effect
    if rc not in (0, 1, -9, -15, -2) or os.environ.get("VPK_C10_KEEPERR"):
        out["stderr_tail"] = job["stderr"].read_text()[-1500:] if job["stderr"].is_file() else ""
    return out


def notifications(job, how):
    """The job's .notifications folder as a scheduler's add_notification_server leaves it: empty; one entry naming a
    server that refuses the connection (`refused`: report_eoj logs a warning); one entry that cannot be read as text
    (`garbage`, a torn file: Reporter.check_urls, hence report_eoj, raises)."""
    d = job["path"] / ".notifications"
    if d.is_dir():
        for f in d.iterdir():
            f.unlink()
    if how:
        d.mkdir(exist_ok=True)
        (d / "c10").write_bytes(b"\xff\xfe\x00 torn" if how == "garbage" else b"http://127.0.0.1:9/c10")


def launch_triple(job, k, l, env):
    """Three overlapping launches of one job.  A is held in its body; B is started and waits for the run lock; A is
    let go and ends through cleanup WITHOUT success (its body fails, or it gets its signal); B gets the lock and is
    held in its body; C is started while B is alive in its body: it must wait.  Then B is let go, C runs on."""
    t = l["triple"]
    la, lb = job["path"] / f"latch.{k}.a", job["path"] / f"latch.{k}.b"
    for f in (la, lb):
        if f.exists():
            f.unlink()
    ev = {x: job["path"] / f"events.{k}.{x}.log" for x in "abc"}
    notifications(job, None)

    def has(path, text):
        return path.exists() and any(x.startswith(text) for x in path.read_text().splitlines())

    out = dict(mode=l["mode"], triple=True, problems=[])
    pa = start(job, ev["a"], l["mode"], l.get("sig"), l.get("n"), env, hold=la)
    if not (wait_for(lambda: has(ev["a"], "E BodyBegin"), pa, 90) and process_alive(pa)):
        out["problems"].append("A did not reach its body")
        la.touch()
        wait(pa)
        return out
    pb = start(job, ev["b"], t["b"], None, 0, env, hold=lb)
    if not wait_for(lambda: has(ev["b"], "L %d " % t["after_line"]), pb, 60):
        out["problems"].append("B did not reach lock.acquire")
    time.sleep(0.15)
    out["b_waited"] = not has(ev["b"], "E Lock")
    la.touch()
    rca, hunga = wait(pa)
    out["a"] = record(job, ev["a"], l, rca, hunga)
    out["a"]["obs"] = observe_files(job)
    if wait_for(lambda: has(ev["b"], "E BodyBegin"), pb, 90) and process_alive(pb):
        pc = start(job, ev["c"], t["c"], None, 0, env)
        wait_for(lambda: has(ev["c"], "L %d " % t["after_line"]), pc, 60)
        time.sleep(0.5)
        # C while B is alive in its body
        out["c_while_b_in_body"] = dict(lock=has(ev["c"], "E Lock"), body=has(ev["c"], "E BodyBegin"),
                                        ended=not process_alive(pc), b_alive=process_alive(pb))
        lb.touch()
        rcb, hungb = wait(pb)
        rcc, hungc = wait(pc)
        out["c"] = record(job, ev["c"], dict(mode=t["c"]), rcc, hungc)
    else:
        out["b_no_body"] = True
        lb.touch()
        rcb, hungb = wait(pb)
    out["b"] = record(job, ev["b"], dict(mode=t["b"]), rcb, hungb)
    out["obs"] = observe(job)
    out["hung"] = any(out.get(x, {}).get("hung") for x in "abc")
    return out


def observe_files(job):
    return dict(done=job["done"].is_file(), failed=job["failed"].is_file(), pid=job["pid"].is_file(),
                lockfile=job["lock"].is_file())


def launch(job, k, l, env):
    if l.get("triple"):
        return launch_triple(job, k, l, env)
    if l.get("waiter"):
        return launch_double(job, k, l, env)
    evlog = job["path"] / f"events.{k}.log"
    notifications(job, l.get("eoj"))
    process = start(job, evlog, l["mode"], l.get("sig"), l.get("n"), env, j2=l.get("kill_after"))
    rc, hung = wait(process)
    out = record(job, evlog, l, rc, hung)
    out["obs"] = observe(job)
    return out


def wait_for(cond, process, limit):
    """polls until cond() holds; False when the process ended first or the time is over"""
    t0 = time.time()
    while time.time() - t0 < limit:
        if cond():
            return True
        if not process_alive(process):
            return cond()
        time.sleep(0.004)
    return False


def process_alive(process):
    pid = process.tospec()["pid"]
    try:
        with open(f"/proc/{pid}/stat") as f:
            return f.read().rsplit(")", 1)[1].split()[0] != "Z"
    except OSError:
        return False


def launch_double(job, k, l, env):
    """Two job processes for one job directory (what two experiments do after a forced double launch).  The first
    (H) is held in its body; the second (W), whose scheduler rewrites the pid file, receives its signal before it
    can have the run lock - at its n-th executed line, or from outside while it is blocked in lock.acquire - and
    dies; the directory is looked at; H is then let go (and may die as well)."""
    w = l["waiter"]
    latch = job["path"] / f"latch.{k}"
    if latch.exists():
        latch.unlink()
    evh, evw = job["path"] / f"events.{k}.log", job["path"] / f"events.{k}.w.log"
    if evw.exists():
        evw.unlink()
    notifications(job, None)
    ph = start(job, evh, l["mode"], l.get("sig"), l.get("n"), env, hold=latch)
    in_body = wait_for(lambda: evh.exists() and "E BodyBegin" in evh.read_text(), ph, 90)
    wrec = None
    if in_body and process_alive(ph):
        before = observe(job)
        pw = start(job, evw, w["mode"], None if w.get("ext") is not None else w["sig"], w.get("n"), env)
        sent = True
        if w.get("ext") is not None:
            # W is blocked in lock.acquire (the line that calls it has been reached and no other follows)
            want = "L %d " % w["after_line"]
            sent = wait_for(lambda: evw.exists() and any(x.startswith(want) for x in evw.read_text().splitlines()), pw, 60)
            if sent:
                time.sleep(w["ext"] / 1000.0)
                sent = process_alive(pw)   # (a process that did not wait for the lock is gone already)
            if sent:
                last = [x for x in evw.read_text().splitlines() if x.startswith("L ")][-1].split(" ")
                ctx = "prop"
                if last[2].startswith("run:"):
                    ln = int(last[2].split(":")[1])
                    ctx = "try" if any(a <= ln <= b for a, b in TRY_RANGES) else "prop"
                with open(evw, "ab") as fp:
                    fp.write(("K %s %s %d %s\n" % (w["sig"], ctx, 0, last[2])).encode())
                try:
                    os.kill(pw.tospec()["pid"], getattr(signal, "SIG" + w["sig"]))
                except ProcessLookupError:
                    pass
        rcw, hungw = wait(pw, limit=40)
        wrec = record(job, evw, dict(mode=w["mode"], sig=w["sig"], n=w.get("n")), rcw, False)
        wrec.update(ext=w.get("ext"), never_died=hungw, before=before, obs=observe(job),
                    holder_alive=process_alive(ph))
    latch.touch()
    rc, hung = wait(ph)
    out = record(job, evh, l, rc, hung)
    out["obs"] = observe(job)
    out["waiter"] = wrec
    out["waiter_skipped"] = wrec is None
    return out


def main():
    payload = json.load(sys.stdin)
    cases = payload["cases"]
    jobs = generate(payload["scratch"], cases)
    env = {k: v for k, v in os.environ.items()}

    def one(i):
        return dict(launches=[launch(jobs[i], k, l, env) for k, l in enumerate(cases[i]["launches"])])

    with ThreadPoolExecutor(max_workers=int(payload.get("workers", 16))) as ex:
        res = list(ex.map(one, range(len(cases))))
    print(json.dumps(res))


if __name__ == "__main__":
    main()
