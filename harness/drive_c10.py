"""Implementation driver for C10: crash sweep on the real task runner.

stdin : {"scratch": dir, "workers": 16, "cases": [{"launches": [{"mode", "sig", "n"}, ...]}, ...]}
stdout: last line = JSON list, one entry per case: {"launches": [observation, ...]}

For every case a real job directory is produced by the real submission machinery in GENERATE_ONLY mode
(CommandLineJob.prepare -> PythonScriptBuilder.write: <name>.py + params.json).  Every launch starts the
generated script with the real LocalProcessBuilder under vpk_c10.crashrun, writes <name>.pid exactly as
CommandLineJob.aio_run does (json.dump(process.tospec())), waits for the process to end and then looks at
the directory: marker files, whether a probe can take the run lock, the body counter.
"""
import json
import logging
import os
import signal
import sys
import threading
from concurrent.futures import ThreadPoolExecutor
from pathlib import Path

logging.disable(logging.CRITICAL)

import fasteners  # noqa: E402
from experimaestro import experiment, RunMode  # noqa: E402
from experimaestro.connectors import Redirect  # noqa: E402
from experimaestro.connectors.local import LocalConnector  # noqa: E402
from vpk_c10.tasks import CrashTask  # noqa: E402

PY = sys.executable


def generate(scratch, cases):
    """One real job directory per case."""
    wd = Path(scratch) / "ws"
    jobs = []
    stderr, sys.stderr = sys.stderr, open(os.devnull, "w")
    try:
        with experiment(wd, "c10", port=-1, run_mode=RunMode.GENERATE_ONLY):
            for i, case in enumerate(cases):
                counter = Path(scratch) / "counters" / f"{i}"
                counter.parent.mkdir(exist_ok=True, parents=True)
                t = CrashTask(mode=case["launches"][0]["mode"], counter=str(counter))
                t.submit()
                job = t.__xpm__.job
                jobs.append(dict(path=job.path, script=job.path / f"{job.name}.py", pid=job.pidpath,
                                 lock=job.lockpath, done=job.donepath, failed=job.failedpath,
                                 counter=counter, stdout=job.stdout, stderr=job.stderr))
    finally:
        sys.stderr = stderr
    return jobs


def observe(job):
    failed = None
    raw = None
    if job["failed"].is_file():
        raw = job["failed"].read_text()
        try:
            failed = int(raw.strip())
        except ValueError:
            failed = -999
    lock = fasteners.InterProcessLock(str(job["lock"]))
    lockfree = bool(lock.acquire(blocking=False))
    if lockfree:
        lock.release()
    text = job["counter"].read_text() if job["counter"].is_file() else ""
    return dict(done=job["done"].is_file(), failed=failed, failed_raw=raw, pid=job["pid"].is_file(),
                lockfree=lockfree, B=text.count("B"), E=text.count("E"), X=text.count("X"))


def launch(job, k, l, env):
    evlog = job["path"] / f"events.{k}.log"
    if evlog.exists():
        evlog.unlink()
    pb = LocalConnector.instance().processbuilder()
    pb.command = [PY, "-W", "ignore", "-m", "vpk_c10.crashrun", str(job["script"]), str(evlog),
                  l.get("sig") or "NONE", str(l.get("n") or 0)]
    e = dict(env)
    e["VPK_C10_MODE"] = l["mode"]
    pb.environ = e
    pb.stdout = Redirect.file(job["stdout"])
    pb.stderr = Redirect.file(job["stderr"])
    process = pb.start(True)
    # what CommandLineJob.aio_run does right after starting the process
    with job["pid"].open("w") as fp:
        json.dump(process.tospec(), fp)
    hung = []
    timer = threading.Timer(90, lambda: (hung.append(1), os.kill(process.tospec()["pid"], signal.SIGKILL)))
    timer.start()
    rc = process.wait()
    timer.cancel()
    pre, post, lines, kill = [], [], [], None
    for line in (evlog.read_text().splitlines() if evlog.exists() else []):
        tag, _, rest = line.partition(" ")
        if tag == "L":
            lines.append(rest.split(" ")[1])
        elif tag == "K":
            f = rest.split(" ")
            kill = dict(sig=f[0], ctx=f[1], n=int(f[2]), at=f[3])
        elif tag == "E":
            (post if kill else pre).append(rest)
    out = dict(mode=l["mode"], sig=l.get("sig"), n=l.get("n") or 0, fired=kill is not None,
               ctx=kill["ctx"] if kill else None, at=kill["at"] if kill else None,
               pre=pre, post=post, rc=rc, nlines=len(lines), obs=observe(job), hung=bool(hung) or rc == 97)
    if l.get("ref"):
        out["lines"] = lines
    if rc not in (0, 1, -9, -15, -2) or os.environ.get("VPK_C10_KEEPERR"):
        out["stderr_tail"] = job["stderr"].read_text()[-1500:] if job["stderr"].is_file() else ""
    return out


def main():
    payload = json.load(sys.stdin)
    cases = payload["cases"]
    jobs = generate(payload["scratch"], cases)
    env = {k: v for k, v in os.environ.items()}

    def one(i):
        return dict(launches=[launch(jobs[i], k, l, env) for k, l in enumerate(cases[i]["launches"])])

    with ThreadPoolExecutor(max_workers=int(payload.get("workers", 16))) as ex:
        res = list(ex.map(one, range(len(cases))))
    print(json.dumps(res))


if __name__ == "__main__":
    main()
