"""Implementation driver for C17: builds configuration graphs from generated heaps, submits
the root task in dry-run mode (twice, from fresh objects) and reports every generated value."""
import json
import logging
import os
import sys
from pathlib import PurePosixPath

logging.disable(logging.CRITICAL)

from experimaestro import experiment, RunMode, setmeta  # noqa: E402
import vpk_c17 as S  # noqa: E402


def value_of(v, objs, rev=False, drop=()):
    """drop: nodes flagged as meta-parameters whose occurrences as list elements are left out (the identifier
    ignores them: same configuration)"""
    t = v["t"]
    if t == "none":
        return None
    if t == "int":
        return v["v"]
    if t == "ref":
        return objs[v["n"]]
    if t == "list":
        return [value_of(x, objs, rev, drop) for x in v["v"] if not (x["t"] == "ref" and x["n"] in drop)]
    if t == "dict":
        # rev: the same dict filled in the opposite order (same configuration, same identifier)
        items = list(reversed(v["v"])) if rev else v["v"]
        return {k: value_of(x, objs, rev, drop) for k, x in items}
    raise ValueError(t)


def canon_path(p):
    p = PurePosixPath(p)
    root = len(p.root)
    parts = list(p.parts[1:]) if root else list(p.parts)
    return dict(root=root, parts=parts)


def refs_ready(v, objs):
    t = v["t"]
    if t == "ref":
        return v["n"] in objs
    if t == "list":
        return all(refs_ready(x, objs) for x in v["v"])
    if t == "dict":
        return all(refs_ready(x, objs) for _, x in v["v"])
    return True


def plan_of(nd, second):
    """(names in the order they are given, how many of the leading ones go to the constructor)"""
    names = [k for k, _ in nd["fields"]]
    order = nd.get("order2" if second and "order2" in nd else "order") or []
    order = [names[x] if isinstance(x, int) else x for x in order]
    order = [x for x in order if x in names]
    order += [x for x in names if x not in order]
    kw = nd.get("kw2" if second and "kw2" in nd else "kw") or 0
    return order, kw


def create(i, nd, objs, rev, second, drop=()):
    """Builds configuration i.  The order of the .values dict of a configuration is its ASSIGNMENT order:
    defaults of the arguments not given to the constructor (declaration order), then the keywords in the
    order they are written; a later assignment keeps the position of its key.  The leading `kw` names of
    the plan are constructor keywords when the objects they refer to exist already; the others are
    assigned afterwards (returned)."""
    order, kw = plan_of(nd, second)
    fields = dict((k, v) for k, v in nd["fields"])
    kwargs, later = {}, []
    for pos, name in enumerate(order):
        if pos < kw and refs_ready(fields[name], objs):
            kwargs[name] = value_of(fields[name], objs, rev, drop)
        else:
            later.append(name)
    objs[i] = S.CLASSES[nd["cls"]](**kwargs)
    if nd.get("meta"):
        setmeta(objs[i], True)
    return later


def finish(i, nd, later, objs, rev, repre=False, drop=()):
    o = objs[i]
    fields = dict((k, v) for k, v in nd["fields"])
    for name in later:
        setattr(o, name, value_of(fields[name], objs, rev, drop))
    # repre: the same pre-tasks added in another order (same configuration, same identifier)
    pre = nd.get("pre2", nd["pre"]) if repre else nd["pre"]
    if pre:
        o.add_pretasks(*[objs[j] for j in pre])


def build_and_submit(case, rev=False, second=False, repre=False, dropmeta=False):
    nodes = case["nodes"]
    objs = {}
    drop = {i for i, nd in enumerate(nodes) if nd.get("meta")} if dropmeta else ()
    # configurations sealed by earlier submissions (references go to higher indices: built first)
    todo = {}
    for i in reversed(range(len(nodes))):
        if nodes[i]["sealed"] and nodes[i]["cls"] != "Out":
            todo[i] = create(i, nodes[i], objs, rev, second, drop)
    for i, later in todo.items():
        finish(i, nodes[i], later, objs, rev, repre, drop)
    for pid, oid in case["producers"]:
        objs[oid] = objs[pid].submit(run_mode=RunMode.DRY_RUN)
    todo = {}
    for i in reversed(range(len(nodes))):
        if not nodes[i]["sealed"] and nodes[i]["cls"] != "Out":
            todo[i] = create(i, nodes[i], objs, rev, second, drop)
    for i, later in todo.items():
        finish(i, nodes[i], later, objs, rev, repre, drop)
    sealed_before = [bool(objs[i].__xpm__._sealed) for i in range(len(nodes))]
    # the input as it really is: key order of the .values dict of every configuration
    vorder = [list(objs[i].__xpm__.values.keys()) for i in range(len(nodes))]
    root = objs[case["root"]]
    exc = None
    try:
        root.submit(run_mode=RunMode.DRY_RUN, init_tasks=[objs[j] for j in nodes[case["root"]]["init"]])
    except RecursionError:
        # dependencies of a cyclic graph: raised after validate_and_seal, the values are set
        exc = "RecursionError"
    jobdir = canon_path(root.__xpm__.job.path)
    out = []
    for i in range(len(nodes)):
        o = objs[i]
        for name, arg in o.__xpmtype__.arguments.items():
            if arg.generator is not None:
                val = o.__xpm__.values.get(name)
                out.append(dict(node=i, arg=name, path=None if val is None else canon_path(val)))
    # raw identifier of every configuration attached as a pre-task (what the full identifier sorts)
    ids = {}
    for nd in nodes:
        for j in list(nd["pre"]) + list(nd.get("pre2") or []):
            if str(j) not in ids:
                ids[str(j)] = objs[j].__xpm__.raw_identifier.all.hex()
    return dict(jobdir=jobdir, sealed=sealed_before, values=out, exc=exc, vorder=vorder, ids=ids)


def class_table():
    tab = {}
    for name, cls in S.CLASSES.items():
        gens = []
        for aname, arg in cls.__getxpmtype__().arguments.items():
            if arg.generator is not None:
                p = arg.generator.path
                gens.append([aname, p(None, None) if callable(p) else str(p)])
        tab[name] = gens
    return tab


def decl_table():
    """declared argument names of every class, declaration order (what xpmvalues() iterates)"""
    return {name: list(cls.__getxpmtype__().arguments.keys()) for name, cls in S.CLASSES.items()}


def probes():
    """directed runs: (1) does this tree place pre-tasks by the rank of their identifier (fixes/C17-3.diff) or by
    their index in the list?  (2) a task parameter whose default value is a configuration with a generated path"""
    from vpk_c17.probe import TDefault

    def pre_run(swap):
        a, b, t = S.Pre(v=1), S.Pre(v=2), S.T(v=3)
        t.add_pretasks(*([b, a] if swap else [a, b]))
        t.submit(run_mode=RunMode.DRY_RUN)
        return [canon_path(t.__xpm__.job.path), canon_path(a.p), canon_path(b.p)]

    r1, r2 = pre_run(False), pre_run(True)
    out = dict(pretask_order=dict(first=r1, second=r2), sorts_pretasks=(r1 == r2))
    # flagged list elements: numbered apart (fixes/C17-4.diff) or counted like the others?
    m, a, t = setmeta(S.Leaf(v=1), True), S.Leaf(v=2), S.T(v=4)
    t.l = [m, a]
    t.submit(run_mode=RunMode.DRY_RUN)
    out["meta_list"] = dict(jobdir=canon_path(t.__xpm__.job.path), unflagged=canon_path(a.p), flagged=canon_path(m.p))
    out["meta_apart"] = canon_path(a.p)["parts"][-2] == "0"
    # one configuration given to two tasks: sealed by the first submit, its paths stay in the first job
    sub = S.Leaf(v=7)
    t1, t2 = S.T(v=5, c=sub), S.T(v=6, c=sub)
    t1.submit(run_mode=RunMode.DRY_RUN)
    t2.submit(run_mode=RunMode.DRY_RUN)
    out["shared"] = dict(first_job=canon_path(t1.__xpm__.job.path), second_job=canon_path(t2.__xpm__.job.path),
                         path_in_second=canon_path(t2.c.p))
    # generated paths against the job directory the task ends up with
    from vpk_c17 import probe as PB

    def inside(name, build):
        try:
            t, paths = build()
            out[name] = dict(jobdir=canon_path(t.__xpm__.job.path), paths=[canon_path(p) for p in paths])
        except Exception as e:  # noqa
            out[name] = dict(error=f"{type(e).__name__}: {e}")

    def marked_twice():
        out1 = PB.TLearn(model=PB.PModel(n=1), epochs=1).submit(run_mode=RunMode.DRY_RUN)
        t2 = PB.TLearn(model=out1, epochs=2)
        t2.submit(run_mode=RunMode.DRY_RUN)
        return t2, [t2.log]

    def marked_pre(as_init):
        def build():
            model = PB.PModel(n=2)
            t = PB.TLearnSub(sub=PB.PLeaf(x=1), model=model)
            ld = PB.PLoader(model=model)
            if as_init:
                t.submit(run_mode=RunMode.DRY_RUN, init_tasks=[ld])
            else:
                t.add_pretasks(ld)
                t.submit(run_mode=RunMode.DRY_RUN)
            return t, [t.sub.path, ld.cache]
        return build

    def resubmit():
        t = PB.TNamed(sub=PB.PLeaf(x=1))
        try:
            t.submit(run_mode=RunMode.DRY_RUN)
            raise RuntimeError("the first submit was expected to fail")
        except TypeError:
            pass
        t.name = "hello"
        t.submit(run_mode=RunMode.DRY_RUN)
        return t, [t.sub.path, t.out]

    inside("marked_by_two_tasks", marked_twice)
    inside("marked_held_by_pretask", marked_pre(False))
    inside("marked_held_by_init_task", marked_pre(True))
    inside("resubmit_after_failed_sealing", resubmit)
    try:
        from vpk_c17.probe import PLeaf, TIgnored, PHolder, PState, TAttach
        s = PLeaf(x=1)
        t1, t2 = TIgnored(m=s, p=s), TIgnored(p=PLeaf(x=1))
        t1.submit(run_mode=RunMode.DRY_RUN)
        t2.submit(run_mode=RunMode.DRY_RUN)
        out["ignored_parameter"] = dict(first_job=canon_path(t1.__xpm__.job.path), second_job=canon_path(t2.__xpm__.job.path),
                                        first_path=canon_path(t1.p.path), second_path=canon_path(t2.p.path))
        p1, p2 = PState(v=1), PState(v=1)
        t1 = TAttach(a=PHolder(y=1).add_pretasks(p1), b=PHolder(y=2))
        t2 = TAttach(a=PHolder(y=1), b=PHolder(y=2).add_pretasks(p2))
        t1.submit(run_mode=RunMode.DRY_RUN)
        t2.submit(run_mode=RunMode.DRY_RUN)
        out["pretask_attachment"] = dict(first_job=canon_path(t1.__xpm__.job.path), second_job=canon_path(t2.__xpm__.job.path),
                                         first_path=canon_path(p1.state), second_path=canon_path(p2.state))
    except Exception as e:  # noqa
        out["ignored_parameter"] = out.get("ignored_parameter") or dict(error=f"{type(e).__name__}: {e}")
        out["pretask_attachment"] = out.get("pretask_attachment") or dict(error=f"{type(e).__name__}: {e}")
    try:
        from vpk_c17.probe import TDefault2
        t1, t2 = TDefault2(y=1), TDefault2(y=2)
        same_object = t1.a is t2.a
        t1.submit(run_mode=RunMode.DRY_RUN)
        t2.submit(run_mode=RunMode.DRY_RUN)
        out["default_two_jobs"] = dict(same_object=same_object, first_job=canon_path(t1.__xpm__.job.path),
                                       second_job=canon_path(t2.__xpm__.job.path), first_path=canon_path(t1.a.p),
                                       second_path=canon_path(t2.a.p))
    except Exception as e:  # noqa
        out["default_two_jobs"] = dict(error=f"{type(e).__name__}: {e}")
    try:
        t = TDefault()
        t.submit(run_mode=RunMode.DRY_RUN)
        out["config_default"] = dict(jobdir=canon_path(t.__xpm__.job.path), a_p=canon_path(t.a.p),
                                     out=canon_path(t.out))
    except Exception as e:  # noqa
        out["config_default"] = dict(error=f"{type(e).__name__}: {e}")
    return out


def run_case(case):
    try:
        a = build_and_submit(case)
        # the second submit is a fresh copy of the same configuration, possibly with its dicts filled in
        # the opposite order, or with its parameters assigned in another order (order2 / kw2)
        # (order2 / kw2), or with its pre-tasks added in another order (pre2)
        b = build_and_submit(case, rev=bool(case.get("reorder")), second=bool(case.get("reassign")),
                             repre=bool(case.get("repre")), dropmeta=bool(case.get("dropmeta")))
        return dict(first=a, second=b)
    except Exception as e:  # noqa
        import traceback
        return dict(error=f"{type(e).__name__}: {e}", tb=traceback.format_exc()[-1500:])


def main():
    payload = json.load(sys.stdin)
    wd = payload["workdir"]
    os.makedirs(wd, exist_ok=True)
    res = []
    with experiment(wd, "c17", port=-1):
        pr = probes()
        for c in payload["cases"]:
            res.append(run_case(c))
    print(json.dumps(dict(classes=class_table(), decls=decl_table(), probes=pr, answers=res)))


if __name__ == "__main__":
    main()
