"""Implementation driver for C17: builds configuration graphs from generated heaps, submits
the root task in dry-run mode (twice, from fresh objects) and reports every generated value."""
import json
import logging
import os
import sys
from pathlib import PurePosixPath

logging.disable(logging.CRITICAL)

from experimaestro import experiment, RunMode  # noqa: E402
import vpk_c17 as S  # noqa: E402


def value_of(v, objs, rev=False):
    t = v["t"]
    if t == "none":
        return None
    if t == "int":
        return v["v"]
    if t == "ref":
        return objs[v["n"]]
    if t == "list":
        return [value_of(x, objs, rev) for x in v["v"]]
    if t == "dict":
        # rev: the same dict filled in the opposite order (same configuration, same identifier)
        items = list(reversed(v["v"])) if rev else v["v"]
        return {k: value_of(x, objs, rev) for k, x in items}
    raise ValueError(t)


def canon_path(p):
    p = PurePosixPath(p)
    root = len(p.root)
    parts = list(p.parts[1:]) if root else list(p.parts)
    return dict(root=root, parts=parts)


def fill(i, nd, objs, rev=False):
    o = objs[i]
    # assignment order is arbitrary: the walk follows the declaration order
    for k in nd.get("order") or range(len(nd["fields"])):
        name, v = nd["fields"][k]
        setattr(o, name, value_of(v, objs, rev))
    if nd["pre"]:
        o.add_pretasks(*[objs[j] for j in nd["pre"]])


def build_and_submit(case, rev=False):
    nodes = case["nodes"]
    objs = {}
    for i, nd in enumerate(nodes):
        if nd["cls"] != "Out":
            objs[i] = S.CLASSES[nd["cls"]]()
    # configurations sealed by earlier submissions
    for i, nd in enumerate(nodes):
        if nd["sealed"]:
            fill(i, nd, objs, rev)
    for pid, oid in case["producers"]:
        objs[oid] = objs[pid].submit(run_mode=RunMode.DRY_RUN)
    for i, nd in enumerate(nodes):
        if not nd["sealed"] and nd["cls"] != "Out":
            fill(i, nd, objs, rev)
    sealed_before = [bool(objs[i].__xpm__._sealed) for i in range(len(nodes))]
    root = objs[case["root"]]
    exc = None
    try:
        root.submit(run_mode=RunMode.DRY_RUN, init_tasks=[objs[j] for j in nodes[case["root"]]["init"]])
    except RecursionError:
        # dependencies of a cyclic graph: raised after validate_and_seal, the values are set
        exc = "RecursionError"
    jobdir = canon_path(root.__xpm__.job.path)
    out = []
    for i in range(len(nodes)):
        o = objs[i]
        for name, arg in o.__xpmtype__.arguments.items():
            if arg.generator is not None:
                val = o.__xpm__.values.get(name)
                out.append(dict(node=i, arg=name, path=None if val is None else canon_path(val)))
    return dict(jobdir=jobdir, sealed=sealed_before, values=out, exc=exc)


def class_table():
    tab = {}
    for name, cls in S.CLASSES.items():
        gens = []
        for aname, arg in cls.__getxpmtype__().arguments.items():
            if arg.generator is not None:
                p = arg.generator.path
                gens.append([aname, p(None, None) if callable(p) else str(p)])
        tab[name] = gens
    return tab


def run_case(case):
    try:
        a = build_and_submit(case)
        b = build_and_submit(case, rev=bool(case.get("reorder")))
        return dict(first=a, second=b)
    except Exception as e:  # noqa
        import traceback
        return dict(error=f"{type(e).__name__}: {e}", tb=traceback.format_exc()[-1500:])


def main():
    payload = json.load(sys.stdin)
    wd = payload["workdir"]
    os.makedirs(wd, exist_ok=True)
    res = []
    with experiment(wd, "c17", port=-1):
        for c in payload["cases"]:
            res.append(run_case(c))
    print(json.dumps(dict(classes=class_table(), answers=res)))


if __name__ == "__main__":
    main()
