"""Config/Task classes for C20.

Every `Old*` class derives from the class that replaces it and carries the identifier the
class had *before* it was replaced (`__xpmid__`).  With VPK_C20_DEPRECATED=0 the old classes are
ordinary classes with their own identifier (this is how job directories "recorded under a former
identifier" are produced: real submits of the old classes); with VPK_C20_DEPRECATED=1 (default)
they are marked with the real @deprecate, as a user would after renaming / moving a class.

`aux` / `auxes` are `Meta[...]` parameters: their value is ignored by the identifier unless it was flagged
`setmeta(value, False)`; any member may also be flagged `setmeta(value, True)` (ignored wherever it occurs).
"""
import os
from typing import Dict, List, Optional

from experimaestro import Config, Meta, Param, Task, deprecate

# classes defined in a plain file (a module outside any package): recorded with a "file" entry in params.json
from vpk_c20_plain import PlainModel, PlainLearner, OldPlainLearner  # noqa: E402

DEPRECATED = os.environ.get("VPK_C20_DEPRECATED", "1") == "1"


def _dep(cls):
    return deprecate(cls) if DEPRECATED else cls


# ---------------------------------------------------------------- configurations
class NewLeaf(Config):
    v: Param[int]


@_dep
class OldLeaf(NewLeaf):
    __xpmid__ = "vpk_c20.legacy.leaf"


@_dep
class OlderLeaf(OldLeaf):
    """two renames ago: deprecated into OldLeaf, itself deprecated into NewLeaf"""
    __xpmid__ = "vpk_c20.ancient.leaf"


class NewAux(Config):
    """only given through `Meta[...]` parameters: it counts in the identifier of its holder exactly when it
    was flagged `setmeta(aux, False)` (an explicit False forces a Meta member into the identifier)"""
    x: Param[int]
    leaf: Param[Optional[NewLeaf]] = None


@_dep
class OldAux(NewAux):
    __xpmid__ = "vpk_c20.legacy.aux"


class NewMid(Config):
    w: Param[int]
    leaf: Param[NewLeaf]
    opt: Param[Optional[NewLeaf]] = None
    items: Param[List[NewLeaf]] = []
    table: Param[Dict[str, NewLeaf]] = {}
    aux: Meta[Optional[NewAux]] = None


@_dep
class OldMid(NewMid):
    __xpmid__ = "vpk_c20.legacy.mid"


class Plain(Config):
    """a class without any deprecated relative"""
    z: Param[int]
    sub: Param[Optional[NewMid]] = None


# ---------------------------------------------------------------- tasks
class _Exec:
    def execute(self):
        with open("ran.txt", "a") as out:
            out.write("ran\n")


class NewTask(_Exec, Task):
    x: Param[int]
    leaf: Param[Optional[NewLeaf]] = None
    aux: Meta[Optional[NewAux]] = None


@_dep
class RenamedTask(NewTask):
    """the class was renamed: the last component of the identifier differs"""
    __xpmid__ = "vpk_c20.defs.formertask"


@_dep
class MovedTask(NewTask):
    """the class was moved to another module: same last component"""
    __xpmid__ = "vpk_c20.legacy.newtask"


class Holder(_Exec, Task):
    """not deprecated itself; holds deprecated configurations at nested positions"""
    n: Param[int]
    mid: Param[Optional[NewMid]] = None
    leaves: Param[List[NewLeaf]] = []
    named: Param[Dict[str, NewMid]] = {}
    plain: Param[Optional[Plain]] = None
    aux: Meta[Optional[NewAux]] = None
    auxes: Meta[List[NewAux]] = []


class NewBig(_Exec, Task):
    n: Param[int]
    mid: Param[NewMid]
    aux: Meta[Optional[NewAux]] = None


@_dep
class OldBig(NewBig):
    """deprecated root *and* deprecated classes below it"""
    __xpmid__ = "vpk_c20.legacy.big"


OLD2NEW = {"OldLeaf": "NewLeaf", "OlderLeaf": "NewLeaf", "OldMid": "NewMid", "RenamedTask": "NewTask",
           "MovedTask": "NewTask", "OldBig": "NewBig", "OldAux": "NewAux", "OldPlainLearner": "PlainLearner"}
CLASSES = {c.__name__: c for c in (NewLeaf, OldLeaf, OlderLeaf, NewAux, OldAux, NewMid, OldMid, Plain, NewTask, RenamedTask,
                                   MovedTask, Holder, NewBig, OldBig, PlainModel, PlainLearner, OldPlainLearner)}


# ---------------------------------------------------------------- directed probe (not used by the random generators)
class DefHolder(Config):
    """a parameter whose DEFAULT is a configuration: a value equal to the default is skipped by the identifier,
    and `Config.__eq__` compares the python classes"""
    n: Param[int]
    leaf: Param[NewLeaf] = NewLeaf(v=1)


PROBES = {"DefHolder": DefHolder}
