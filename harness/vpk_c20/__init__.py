"""Schema library of the C20 check (deprecated classes).  See defs.py."""
