"""Config/Task classes for C20 defined in a PLAIN FILE: a top-level module, not part of a package.

experimaestro records such classes in params.json with a "file" entry and loads them by executing the file again
(core/objects.py load_objects); harness/vpk_c20/defs.py lists them beside the classes of the package.
Same switch as vpk_c20.defs: VPK_C20_DEPRECATED=0 the old class is an ordinary class with its former identifier,
=1 (default) it is marked with the real @deprecate."""
import os

from experimaestro import Config, Param, Task, deprecate

DEPRECATED = os.environ.get("VPK_C20_DEPRECATED", "1") == "1"


def _dep(cls):
    return deprecate(cls) if DEPRECATED else cls


class PlainModel(Config):
    layers: Param[int]


class PlainLearner(Task):
    """a task with a sub-configuration: two objects in params.json"""
    x: Param[int]
    model: Param[PlainModel]

    def execute(self):
        with open("ran.txt", "a") as out:
            out.write("ran\n")


@_dep
class OldPlainLearner(PlainLearner):
    __xpmid__ = "vpk_c20_plain.formerlearner"
