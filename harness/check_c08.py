"""C08 - jobs running under a token never hold more than its capacity."""
import json
from vcommon import Check, main_wrapper, run_impl
import tokcheck as tc


def run(c: Check):
    c.rule = ("random schedules of 1-3 emulated scheduler processes (real CounterToken objects on one directory, driven "
              "sequentially) with 1-6 jobs asking 1..total+1 of a total of 1-4: start/kill/acquire/write/launch/end/"
              "release, filesystem events delivered in random order and with random delay, watcher threads fired at "
              "random; plus one scheduler with a ProcessCounterToken and a CounterToken and two-token jobs (aborted "
              "starts).  non-trivial = at least two token files at once or a refused acquisition (file token), an "
              "aborted two-token start (process token); distinct by (configuration, schedule)")
    from concurrent.futures import ThreadPoolExecutor
    early = None
    if not c.replay:
        # the real-experiment scenarios run while the schedules are generated and checked
        wins0 = [dict(kind="startwin", total=2, delay=[0.6, 0.6, 0.3, 1.0][k], prefail=(k == 1)) for k in range(2 if c.quick else 4)]
        if c.quick:
            exps0 = [dict(kind="twoexp", totals=[2, 3], nested=True), dict(kind="leftexp", how="exception"), dict(kind="sameid")]
        else:
            exps0 = [dict(kind="twoexp", totals=[2, 3], nested=True), dict(kind="twoexp", totals=[2, 2], nested=True),
                     dict(kind="twoexp", totals=[3, 2], nested=False), dict(kind="twoexp", totals=[2, 2], nested=False),
                     dict(kind="leftexp", how="exception"), dict(kind="leftexp", how="interrupt"), dict(kind="sameid")]
        early = ThreadPoolExecutor(max_workers=1).submit(tc.run_batches, "drive_c08.py", wins0 + exps0, c.scratch(), 1, 150)
    tc.run_check(c, "C08")
    early_res = early.result() if early is not None else None
    rk = json.load(open(c.replay))["replay"].get("scenario", {}).get("kind") if c.replay else None
    if not c.replay or rk == "startwin":
        # the real Scheduler.aio_start on a slow-starting job, a second process watching the token directory:
        # the token file of a starting / running job is never deleted
        # (prefail: the job failed once before; its .failed marker is still there while it is started again)
        if c.replay:
            wins = [dict(json.load(open(c.replay))["replay"]["scenario"])]
        else:
            wins = [dict(kind="startwin", total=2, delay=[0.6, 0.6, 0.3, 1.0][k], prefail=(k == 1))
                    for k in range(2 if c.quick else 4)]
        for sc in wins:
            sc["scratch"] = str(c.scratch())
        if early_res is not None:
            wins, wres = wins0, early_res[:len(wins0)]
        else:
            wres = tc.run_batches("drive_c08.py", wins, c.scratch(), per=1, timeout=120)
        for sc, r in zip(wins, wres):
            c.evaluations += 1
            c.extra.setdefault("start_window_runs", []).append(r)
            if r.get("error") or not r.get("started"):
                c.count("startwin:no-verdict")
                continue
            c.count("startwin:ok")
            if not r["files_while_running"] or not r["files_after_slow_start"] or r["second_acquisition_granted"]:
                sc.pop("scratch", None)
                c.violation("C08:token-file-of-running-job-deleted",
                            "real aio_start with another process watching the token directory%s: the token file of the job "
                            "was deleted while the job was starting/running (files after the slow start: %s, while running: "
                            "%s); a further request was %s although the job holds the whole token"
                            % (" (job relaunched after a failure)" if sc.get("prefail") else "",
                               r["files_after_slow_start"], r["files_while_running"],
                               "granted" if r["second_acquisition_granted"] else "refused"),
                            dict(scenario=sc, observed=r))
    if not c.replay or rk in ("twoexp", "leftexp", "sameid"):
        # real experiments: (a) two experiments of ONE process ask the same token name (equal / different totals,
        # nested / one after the other); (b) an experiment is left by an exception / interrupt while its
        # token-holding job still runs, then another process asks for the token
        if c.replay:
            scs = [dict(json.load(open(c.replay))["replay"]["scenario"])]
        elif c.quick:
            scs = [dict(kind="twoexp", totals=[2, 3], nested=True), dict(kind="leftexp", how="exception"), dict(kind="sameid")]
        else:
            scs = [dict(kind="twoexp", totals=[2, 3], nested=True), dict(kind="twoexp", totals=[2, 2], nested=True),
                   dict(kind="twoexp", totals=[3, 2], nested=False), dict(kind="twoexp", totals=[2, 2], nested=False),
                   dict(kind="leftexp", how="exception"), dict(kind="leftexp", how="interrupt"), dict(kind="sameid")]
        for sc in scs:
            sc["scratch"] = str(c.scratch())
        if early_res is not None:
            scs, rs = exps0, early_res[len(wins0):]
        else:
            rs = tc.run_batches("drive_c08.py", scs, c.scratch(), per=1, timeout=120)
        for sc, r in zip(scs, rs):
            sc.pop("scratch", None)
            c.evaluations += 1
            c.extra.setdefault("experiment_runs", []).append(dict(scenario=sc, result=r))
            if r.get("error"):
                c.count(sc["kind"] + ":no-verdict")
                continue
            c.count(sc["kind"] + ":ok")
            if sc["kind"] == "twoexp":
                for label in ("both", "first", "second"):
                    o = r.get(label)
                    if o and (o["running"] > o["total"] or o["token_files"] < o["running"]):
                        c.violation("C08:capacity-exceeded:two-experiments-one-process",
                                    "two experiments of one process asking the token `shared` with totals %s (%s): %d jobs "
                                    "holding 1 each run under a total of %d, %d token files (same token object: %s)"
                                    % (sc["totals"], "nested" if sc["nested"] else "one after the other", o["running"],
                                       o["total"], o["token_files"], r.get("same_object")),
                                    dict(scenario=sc, observed=r))
            elif sc["kind"] == "sameid":
                if r.get("first_request_made") and (not r["other_holder_file_kept"] or r["job_started_while_other_holds"]):
                    c.violation("C08:refused-request-disturbs-other-holder",
                                "the same job (same identifier = same token file name) is held through another scheduler "
                                "sharing the token directory; this scheduler's request is refused, yet afterwards the other "
                                "holder's token file is %s and this scheduler's job %s"
                                % ("kept" if r["other_holder_file_kept"] else "gone",
                                   "runs as well" if r["job_started_while_other_holds"] else "waits"),
                                dict(scenario=sc, observed=r))
            else:
                if r.get("job_running") and r.get("job_running_after") and (not r["token_files"] or r["second_request_granted"]):
                    c.violation("C08:token-released-while-job-runs:experiment-left",
                                "an experiment was left (%s) while its job, holding the whole token, runs detached: token files "
                                "%s, a request of another process was %s" % (sc.get("how"), r["token_files"],
                                "granted" if r["second_request_granted"] else "refused"),
                                dict(scenario=sc, observed=r))
    if not c.quick and not c.replay:
        # supporting: real processes, real observer/threads/locks, task-side weighted interval log
        runs = []
        for k in range(3):
            total = c.rng.choice([2, 3, 4])
            workers = [[[c.rng.choice([1, 1, 2, total]), c.rng.choice([0.05, 0.1, 0.2])] for _ in range(c.rng.choice([1, 2]))]
                       for _ in range(c.rng.choice([2, 3]))]
            sc = dict(kind="stress", total=total, duration=14, reps=4, workers=workers, scratch=str(c.scratch()))
            r = run_impl("drive_c08.py", sc, timeout=120)
            log = r.pop("log")
            runs.append(dict(config=dict(total=total, workers=workers), result=r))
            c.count("stress:tasks", r["tasks"])
            if r["peak"] > total:
                c.violation("C08:stress-capacity-exceeded",
                            "real processes: tasks running at the same instant hold %d > total %d" % (r["peak"], total),
                            dict(scenario=sc, log=log, peak_at=r["peak_at"]))
        c.extra["stress_runs"] = runs
    c.level_assumptions = [
        "fcntl/fasteners inter-process locks are exclusive (the emulated processes are driven sequentially; the real "
        "exclusion is only exercised by the thorough-tier stress run)",
        "a watcher thread's lock / wait / delete sequence is one step of the model, and the create window of a token file "
        "is not interrupted by a kill of its creator",
        "all schedulers configure the same total; requests are non-negative",
        "the scheduler is not killed between starting the job process and the completed write of its pid file; "
        "TokenFile.delete is atomic; filesystem events are never lost or duplicated",
        "the capacity theorems are about the watcher thread that tests and deletes under the job lock (fixes/C08-1); the "
        "pinned thread is refuted (C08_stale_watcher_refuted) and reported as C08:stale-watcher-deletes-live-token-file",
        "the in-process scheduler itself (aio_start around the token) is modelled by C06's Sched.v, not here: this model "
        "takes 'a job is started only when its dependency status is OK' from it",
    ]


if __name__ == "__main__":
    main_wrapper("C08", run)
