"""Implementation driver for C09 (tokens given back, waiting jobs run): see tokctl.py (shared with C08)."""
from tokctl import main

if __name__ == "__main__":
    main()
