"""C15 - parameters only ever hold values of their declared type; submit fails fast."""
import json
import struct
from concurrent.futures import ThreadPoolExecutor
from pathlib import Path

from vcommon import Check, InternalError, ROOT, main_wrapper, run_impl, gz, gnat, glist, gopt, gbool

# ------------------------------------------------------------------ the class library (vpk_c15.lib)
# name, parents, task; compared with the table read off the real classes on every run
LIB = [("A", [], False), ("A1", [0], False), ("A2", [1], False), ("B", [], False), ("T", [], True),
       ("T1", [4], True), ("LWT", [], False), ("N", [], False), ("N1", [7], False), ("LW", [], False),
       ("TK", [], True), ("N2", [7], False)]
ASSIGN_CLASSES = [0, 1, 2, 3, 4, 5, 6]
ENUM_SIZES = [3, 2]
C_N, C_N1, C_LW, C_TK, C_N2 = 7, 8, 9, 10, 11
GRAPH_CLASSES = (C_N, C_N1, C_LW, C_TK, C_N2)
# required, non generated arguments per graph class; container fields and their shapes
REQUIRED = {C_N: ["a", "m"], C_N1: ["a", "m", "z", "lr"], C_LW: ["a", "m"], C_TK: ["a", "m"], C_N2: ["a", "m"]}
SHAPES = {  # field -> shape of a value holding configurations
    C_N: {"c": "obj", "cs": "list", "dc": "dict", "ll": "listlist", "dl": "dictlist"},
    C_N1: {"c": "obj", "cs": "list", "dc": "dict", "ll": "listlist", "dl": "dictlist", "lr": "list"},
    C_LW: {"c": "obj"},
    C_TK: {"c": "obj", "cs": "list", "dc": "dict", "ld": "listdict"},
    C_N2: {"c": "obj", "cs": "list", "dc": "dict", "ll": "listlist", "dl": "dictlist"},
}
# fields that hold TASKS (a task value is only accepted once it went through its own submit: these are
# assigned in the middle of a history, by "set" operations)
TASK_SHAPES = {
    C_TK: {"t": "obj", "ts": "list", "dt": "dict"},
    C_N2: {"t": "obj", "ts": "list", "dt": "dict", "lt": "listlist"},
}


def subclass(c, d):
    return c == d or any(subclass(p, d) for p in LIB[c][1])


def is_task(c):
    return LIB[c][2]


# ------------------------------------------------------------------ pools
INT_POOL = [0, 1, -1, 2, 7, 255, -300, 2 ** 31, 2 ** 53, -(2 ** 53), 2 ** 63, -(2 ** 64) - 1]
INT_FLOATSAFE = [0, 1, -1, 2, 7, 255, -300, 2 ** 31, 2 ** 53, -(2 ** 53)]
FLOAT_INT_POOL = [0, 1, -1, 2, 3, 1000, 2 ** 53, 10 ** 20, -(2 ** 60)]
FRAC_POOL = [0.5, -2.25, 1e-300, 3.14, float("inf"), float("-inf"), float("nan")]
STR_POOL = ["", "a", "abc", "x/y", "$type", "path", "hello world", "0", "$value"]
PATH_POOL = ["a", "b/c", "/abs/x", ".", "..", "a.txt", "x/y"]


def bits_of(x):
    return str(struct.unpack("!q", struct.pack("!d", x))[0])


def v_none():
    return {"k": "none"}


def v_int(z):
    return {"k": "int", "z": str(z)}


def v_bool(b):
    return {"k": "bool", "b": bool(b)}


def v_fint(z):
    return {"k": "float", "z": str(z)}


def v_frac(x):
    return {"k": "float", "bits": bits_of(x)}


def v_str(s):
    return {"k": "str", "s": s}


def v_path(s):
    return {"k": "path", "s": s}


# ------------------------------------------------------------------ type expressions
def gen_key_type(rng):
    k = rng.choices(["str", "int", "enum", "path", "bool", "float"], [60, 12, 10, 8, 5, 5])[0]
    return {"k": "enum", "e": rng.randrange(2)} if k == "enum" else {"k": k}


def gen_leaf_type(rng):
    k = rng.choices(["int", "float", "bool", "str", "path", "enum", "obj"], [18, 14, 8, 14, 12, 12, 22])[0]
    if k == "enum":
        return {"k": "enum", "e": rng.randrange(2)}
    if k == "obj":
        return {"k": "obj", "c": rng.choice(ASSIGN_CLASSES)}
    return {"k": k}


def gen_type(rng, depth):
    if depth == 0:
        return gen_leaf_type(rng)
    if rng.random() < 0.5:
        return {"k": "list", "t": gen_type(rng, depth - 1)}
    return {"k": "dict", "kt": gen_key_type(rng), "vt": gen_type(rng, depth - 1)}


def type_depth(t):
    if t["k"] in ("list", "opt"):
        return 1 + type_depth(t["t"])
    if t["k"] == "dict":
        return 1 + type_depth(t["vt"])
    return 0


def has_obj_type(t):
    if t["k"] == "list":
        return has_obj_type(t["t"])
    if t["k"] == "dict":
        return has_obj_type(t["vt"])
    return t["k"] == "obj"


def nest_opt(rng, t):
    """wrap one strictly inner position into Optional (such a class cannot be declared)"""
    if t["k"] == "list":
        if rng.random() < 0.5 or t["t"]["k"] not in ("list", "dict"):
            return {"k": "list", "t": {"k": "opt", "t": t["t"]}}
        return {"k": "list", "t": nest_opt(rng, t["t"])}
    if t["k"] == "dict":
        if rng.random() < 0.5 or t["vt"]["k"] not in ("list", "dict"):
            return {"k": "dict", "kt": t["kt"], "vt": {"k": "opt", "t": t["vt"]}}
        return {"k": "dict", "kt": t["kt"], "vt": nest_opt(rng, t["vt"])}
    return t


def has_nested_opt(a, top=True):
    if a["k"] == "opt":
        return (not top) or has_nested_opt(a["t"], False)
    if a["k"] == "list":
        return has_nested_opt(a["t"], False)
    if a["k"] == "dict":
        return has_nested_opt(a["kt"], False) or has_nested_opt(a["vt"], False)
    return False


# ------------------------------------------------------------------ values
class Ctx:
    def __init__(self, rng):
        self.rng = rng
        self.next_obj = 0

    def obj(self, c, sub):
        self.next_obj += 1
        return {"k": "obj", "o": self.next_obj - 1, "c": c, "sub": bool(sub)}


def pykey(v):
    """what Python's dict uses to tell keys apart"""
    k = v["k"]
    if k == "int":
        return ("n", int(v["z"]))
    if k == "bool":
        return ("n", int(v["b"]))
    if k == "float":
        return ("n", int(v["z"])) if "z" in v else ("f", v["bits"])
    if k == "none":
        return ("none",)
    if k == "enum":
        return ("e", v["e"], v["m"])
    return (k, v["s"])


NAN_BITS = bits_of(float("nan"))


def gen_conforming(ctx, t, coerce=0.0, key=False):
    """a value of runtime type t; with probability `coerce` a leaf is replaced by a value
    that the documented coercions turn into one"""
    rng = ctx.rng
    k = t["k"]
    if k == "int":
        if rng.random() < coerce:
            return v_fint(rng.choice(FLOAT_INT_POOL))
        if rng.random() < 0.1:
            return v_bool(rng.random() < 0.5)        # a bool is an int
        return v_int(rng.choice(INT_POOL))
    if k == "float":
        if rng.random() < coerce:
            return v_int(rng.choice(INT_FLOATSAFE))
        if rng.random() < 0.6:
            return v_fint(rng.choice(FLOAT_INT_POOL))
        x = rng.choice(FRAC_POOL[:-1] if key else FRAC_POOL)
        return v_frac(x)
    if k == "bool":
        return v_bool(rng.random() < 0.5)
    if k == "str":
        return v_str(rng.choice(STR_POOL))
    if k == "path":
        if rng.random() < coerce:
            return v_str(rng.choice(STR_POOL))
        return v_path(rng.choice(PATH_POOL))
    if k == "enum":
        return {"k": "enum", "e": t["e"], "m": rng.randrange(ENUM_SIZES[t["e"]])}
    if k == "list":
        return {"k": "list", "l": [gen_conforming(ctx, t["t"], coerce) for _ in range(rng.choice([0, 1, 1, 2, 3]))]}
    if k == "dict":
        ps, seen = [], set()
        for _ in range(rng.choice([0, 1, 1, 2, 3])):
            kk = gen_conforming(ctx, t["kt"], coerce, key=True)
            ck = coerce_doc(kk, t["kt"])
            if ck is None or pykey(ck) in seen or pykey(kk) in seen:
                continue
            seen.add(pykey(ck))
            seen.add(pykey(kk))
            ps.append([kk, gen_conforming(ctx, t["vt"], coerce)])
        return {"k": "dict", "ps": ps}
    if k == "obj":
        subs = [c for c in ASSIGN_CLASSES if subclass(c, t["c"])]
        c = rng.choice(subs)
        return ctx.obj(c, is_task(c) and (is_task(t["c"]) or rng.random() < 0.5))
    raise ValueError(k)


def rand_value(ctx, hashable=False, with_objs=True):
    rng = ctx.rng
    kinds = ["none", "int", "bool", "fint", "frac", "str", "path", "enum"]
    if not hashable:
        kinds += ["list0", "list1", "dict0", "dict1", "pathdict"] + (["obj", "obj"] if with_objs else [])
    k = rng.choice(kinds)
    if k == "none":
        return v_none()
    if k == "int":
        return v_int(rng.choice(INT_FLOATSAFE))
    if k == "bool":
        return v_bool(rng.random() < 0.5)
    if k == "fint":
        return v_fint(rng.choice(FLOAT_INT_POOL))
    if k == "frac":
        return v_frac(rng.choice(FRAC_POOL[:-1] if hashable else FRAC_POOL))
    if k == "str":
        return v_str(rng.choice(STR_POOL))
    if k == "path":
        return v_path(rng.choice(PATH_POOL))
    if k == "enum":
        e = rng.randrange(2)
        return {"k": "enum", "e": e, "m": rng.randrange(ENUM_SIZES[e])}
    if k == "list0":
        return {"k": "list", "l": []}
    if k == "list1":
        return {"k": "list", "l": [rand_value(ctx, True)]}
    if k == "dict0":
        return {"k": "dict", "ps": []}
    if k == "dict1":
        return {"k": "dict", "ps": [[rand_value(ctx, True), rand_value(ctx, True)]]}
    if k == "pathdict":
        ps = [[v_str("$type"), v_str(rng.choice(["path", "path", "other"]))]]
        if rng.random() < 0.8:
            ps.append([v_str("$value"), rng.choice([v_str("q/r"), v_path("w"), v_int(3), v_none()])])
        return {"k": "dict", "ps": ps}
    c = rng.choice(ASSIGN_CLASSES)
    return ctx.obj(c, is_task(c) and rng.random() < 0.5)


NEAR_INT = [-1.5, -0.5, -2.25, -1e-300, -3.999999, 1.5, 2.0000001, -1000000.25]


def near_miss(ctx, t):
    """a value that is NOT of type t but close to one: what a careless coercion would let through"""
    rng = ctx.rng
    k = t["k"]
    if k == "int":
        return rng.choice([v_frac(rng.choice(NEAR_INT)), v_frac(rng.choice(NEAR_INT)), v_str(rng.choice(["1", "-2", "0"]))])
    if k == "float":
        return rng.choice([v_str("1.5"), v_str("0"), v_path("1")])
    if k == "bool":
        return rng.choice([v_int(0), v_int(1), v_str("True"), v_fint(1)])
    if k == "str":
        return rng.choice([v_path("a"), v_int(1), {"k": "list", "l": [v_str("a")]}])
    if k == "path":
        return rng.choice([v_int(1), {"k": "list", "l": [v_str("a")]}, v_frac(0.5)])
    if k == "enum":
        other = 1 - t["e"]
        return rng.choice([{"k": "enum", "e": other, "m": 0}, v_int(1), v_str("A")])
    if k == "list":
        return rng.choice([{"k": "dict", "ps": []}, gen_conforming(ctx, t["t"]), v_str("ab")])
    if k == "dict":
        return rng.choice([{"k": "list", "l": []}, v_str("ab"), gen_conforming(ctx, t["vt"])])
    return v_int(1)


def gen_nearmiss(ctx, t):
    """a conforming value in which the sub-value at one random position is replaced by a near miss OF THE TYPE
    EXPECTED AT THAT POSITION (e.g. a negative non-integral float where an int is expected)"""
    v = gen_conforming(ctx, t, coerce=0.1)

    def typed_positions(v, t, path=()):
        out = [(path, t)]
        if t["k"] == "list" and v["k"] == "list":
            for i, x in enumerate(v["l"]):
                out += typed_positions(x, t["t"], path + (("l", i),))
        elif t["k"] == "dict" and v["k"] == "dict":
            for i, (a, b) in enumerate(v["ps"]):
                out.append((path + (("k", i),), t["kt"]))
                out += typed_positions(b, t["vt"], path + (("v", i),))
        return out

    path, tt = ctx.rng.choice(typed_positions(v, t))
    nm = near_miss(ctx, tt)
    if path and path[-1][0] == "k" and nm["k"] in ("list", "dict"):
        nm = v_int(1) if tt["k"] != "int" else v_frac(-1.5)
    return replace_at(v, path, nm), len(path)


def positions(v, path=()):
    out = [path]
    if v["k"] == "list":
        for i, x in enumerate(v["l"]):
            out += positions(x, path + (("l", i),))
    elif v["k"] == "dict":
        for i, (a, b) in enumerate(v["ps"]):
            out.append(path + (("k", i),))
            out += positions(b, path + (("v", i),))
    return out


def replace_at(v, path, new):
    if not path:
        return new
    (kind, i), rest = path[0], path[1:]
    v = json.loads(json.dumps(v))
    if kind == "l":
        v["l"][i] = replace_at(v["l"][i], rest, new)
    elif kind == "k":
        v["ps"][i][0] = new
    else:
        v["ps"][i][1] = replace_at(v["ps"][i][1], rest, new)
    return v


def gen_offbyone(ctx, t, with_objs=True):
    """a conforming value with the sub-value at one random position replaced by a value built
    with another constructor"""
    v = gen_conforming(ctx, t, coerce=0.1)
    path = ctx.rng.choice(positions(v))
    key = bool(path) and path[-1][0] == "k"
    return replace_at(v, path, rand_value(ctx, hashable=key, with_objs=with_objs)), len(path)


# ------------------------------------------------------------------ the property, restated (no model)
def strip_opt(a):
    return a["t"] if a["k"] == "opt" else a


def conforms(v, t):
    k = t["k"]
    if k == "int":
        return v["k"] in ("int", "bool")
    if k == "float":
        return v["k"] == "float"
    if k in ("bool", "str", "path"):
        return v["k"] == k
    if k == "enum":
        return v["k"] == "enum" and v["e"] == t["e"]
    if k == "list":
        return v["k"] == "list" and all(conforms(x, t["t"]) for x in v["l"])
    if k == "dict":
        return v["k"] == "dict" and all(conforms(a, t["kt"]) and conforms(b, t["vt"]) for a, b in v["ps"])
    if k == "obj":
        return v["k"] == "obj" and v["c"] >= 0 and subclass(v["c"], t["c"]) and (not is_task(t["c"]) or v["sub"])
    return False


def why_not(v, t, inside=False):
    """names the first offending position (for the violation key)"""
    k = t["k"]
    if k == "list" and v["k"] == "list":
        for x in v["l"]:
            if not conforms(x, t["t"]):
                return why_not(x, t["t"], True)
    if k == "dict" and v["k"] == "dict":
        for a, b in v["ps"]:
            if not conforms(a, t["kt"]):
                return why_not(a, t["kt"], True)
            if not conforms(b, t["vt"]):
                return why_not(b, t["vt"], True)
    if k == "obj" and v["k"] == "none" and inside:
        return "none-in-container"
    return f"stored-nonconforming:{k}"


def coerce_doc(v, t):
    """the documented result for v at type t, or None when the documentation promises nothing"""
    k = t["k"]
    if k == "int":
        if v["k"] == "float" and "z" in v:
            return v_int(int(v["z"]))
        return v if conforms(v, t) else None
    if k == "float":
        if v["k"] == "int":
            return v_fint(int(v["z"]))
        return v if conforms(v, t) else None
    if k == "path":
        if v["k"] == "str":
            return v_path(str(Path(v["s"])))
        return v if conforms(v, t) else None
    if k == "list":
        if v["k"] != "list":
            return None
        xs = [coerce_doc(x, t["t"]) for x in v["l"]]
        return None if any(x is None for x in xs) else {"k": "list", "l": xs}
    if k == "dict":
        if v["k"] != "dict":
            return None
        ps = [[coerce_doc(a, t["kt"]), coerce_doc(b, t["vt"])] for a, b in v["ps"]]
        if any(a is None or b is None for a, b in ps):
            return None
        if len({pykey(a) for a, _ in ps}) != len(ps):
            return None           # keys that coincide after coercion: nothing is documented
        return {"k": "dict", "ps": ps}
    return v if conforms(v, t) else None


def odd(v, t):
    """the accepted values that are NOT the given value up to the documented coercions, listed (the same list as
    `odd` in coq/model/Types.v): a bool where a float is expected, the serialised dict form where a path is
    expected, dict keys that become equal once validated - anywhere inside the value"""
    k = t["k"]
    if k == "float":
        return v["k"] == "bool"
    if k == "path":
        return v["k"] == "dict"
    if k == "list":
        return v["k"] == "list" and any(odd(x, t["t"]) for x in v["l"])
    if k == "dict":
        if v["k"] != "dict":
            return False
        if any(odd(a, t["kt"]) or odd(b, t["vt"]) for a, b in v["ps"]):
            return True
        ks = [coerce_doc(a, t["kt"]) for a, _ in v["ps"]]
        return all(x is not None for x in ks) and len({pykey(x) for x in ks}) != len(ks)
    return False


def nonbool_at_bool(v, t):
    k = t["k"]
    if k == "bool":
        return v["k"] != "bool"
    if k == "list":
        return v["k"] == "list" and any(nonbool_at_bool(x, t["t"]) for x in v["l"])
    if k == "dict":
        return v["k"] == "dict" and any(nonbool_at_bool(a, t["kt"]) or nonbool_at_bool(b, t["vt"]) for a, b in v["ps"])
    return False


def report_undocumented(c, v, t, data, prefix=""):
    """v was accepted although it is not of type t up to the documented coercions"""
    if odd(v, t):
        return
    if nonbool_at_bool(v, t):
        c.violation("C15:bool-accepts-anything", "a value that is not a boolean, given where a bool is expected, is "
                    "silently converted with bool() instead of being refused", data)
    else:
        c.violation("C15:" + prefix + "nonconforming-accepted:" + t["k"], "a value that is not of the declared type "
                    "(up to the documented coercions and the listed oddities) was accepted", data)


def norm(v):
    if v is None:
        return None
    if v["k"] == "list":
        return {"k": "list", "l": [norm(x) for x in v["l"]]}
    if v["k"] == "dict":
        return {"k": "dict", "ps": sorted(([norm(a), norm(b)] for a, b in v["ps"]),
                                          key=lambda p: json.dumps(p[0], sort_keys=True))}
    if v["k"] == "obj":
        return {"k": "obj", "o": v["o"], "c": v["c"], "sub": v["sub"]}
    return v


def ast_eq(a, b):
    return json.dumps(norm(a), sort_keys=True) == json.dumps(norm(b), sort_keys=True)


def py_eq(a, b):
    """Python == between two canonical values (what Choices.check uses)"""
    num = lambda v: (int(v["z"]) if "z" in v else None) if v["k"] in ("int", "float") else (int(v["b"]) if v["k"] == "bool" else None)
    na, nb = num(a), num(b)
    if na is not None or nb is not None:
        return na is not None and na == nb
    if a["k"] != b["k"]:
        return False
    if a["k"] == "float":
        return a["bits"] == b["bits"] and a["bits"] != NAN_BITS
    if a["k"] == "list":
        return len(a["l"]) == len(b["l"]) and all(py_eq(x, y) for x, y in zip(a["l"], b["l"]))
    if a["k"] == "dict":
        return len(a["ps"]) == len(b["ps"]) and all(any(py_eq(k, k2) and py_eq(x, x2) for k2, x2 in b["ps"]) for k, x in a["ps"])
    return json.dumps(a, sort_keys=True) == json.dumps(b, sort_keys=True)


def check_py(ck, v):
    """Checker.check on a canonical value; a check that raises (len() of a number) refuses"""
    if ck is None:
        return True
    if ck["k"] == "nonempty":
        return (v["k"] == "list" and len(v["l"]) > 0) or (v["k"] == "dict" and len(v["ps"]) > 0) or (v["k"] == "str" and v["s"] != "")
    return any(py_eq(v, x) for x in ck["choices"])


def oracle_initial(c, case, a, t, optional, data):
    """a parameter that was never assigned: H() holds the declared default as a value of the declared type -
    i.e. after the documented coercions, exactly what assigning the default would store - or None / nothing"""
    d = case.get("default")
    expected = coerce_doc(d, t) if d is not None else None
    refused = expected is not None and not check_py(case.get("checker"), expected)   # the checker refuses the default
    if refused:
        if not a.get("init_raised"):
            c.violation("C15:checker-ignored", "a declared default that the checker of the parameter refuses is held", data)
        return
    if a.get("init_raised"):
        if d is None or expected is not None:
            c.violation("C15:construction-raised", "a configuration whose default is of the declared type (up to "
                        "the documented coercions) cannot be built", data)
        return
    s = a["initial"]
    if s["k"] == "absent":
        if expected is not None:
            c.violation("C15:default-not-held", "an unassigned parameter does not hold its declared default", data)
    elif s["k"] == "none":
        if not optional:
            c.violation("C15:default-none-required", "an unassigned required parameter holds None", data)
        elif expected is not None:
            c.violation("C15:default-not-held", "an unassigned parameter does not hold its declared default", data)
    else:
        if d is None:
            c.violation("C15:unassigned-holds-value", "a parameter without default holds a value before any assignment", data)
        if not conforms(s, t):
            c.violation("C15:default-" + why_not(s, t), "an unassigned parameter holds a default that is not of the "
                        "declared type (the documented coercion was not applied to the default)", data)
        elif expected is not None and not ast_eq(s, expected):
            c.violation("C15:default-not-coerced:" + t["k"], "an unassigned parameter does not hold what assigning "
                        "its default stores", data)
        if d is not None and expected is None:
            report_undocumented(c, d, t, data, "default-")
    if "initial_read" in a and not ast_eq(a["initial_read"], s):
        c.violation("C15:readback-differs", "reading the parameter does not give the stored value", data)


def oracle_assign(c, case, a):
    if not a["declared"]:
        return
    annot = case["annot"]
    t = strip_opt(annot)
    declared_optional = annot["k"] == "opt"                      # None is a value of the parameter
    optional = declared_optional or case.get("default") is not None   # a fresh object may hold None / a default
    v = a["input"]
    data = dict(kind="assign", case=case, answer=a)
    ck = case.get("checker")
    if case.get("bare_field") and not declared_optional and not a.get("required"):
        c.violation("C15:bare-field-optional", "x: Param[T] = field() - neither default nor factory - declares a "
                    "parameter that is silently optional: a missing value is never reported", data)
        return          # everything else about this case follows from that
    oracle_initial(c, case, a, t, declared_optional if case.get("bare_field") else optional, data)
    if a.get("init_raised"):
        return
    if a["raised"]:
        if not ast_eq(a["after"], a["before"]):
            c.violation("C15:raise-changed-value", "an assignment raised and the stored value changed", data)
    else:
        s = a["after"]
        ok = (declared_optional if s["k"] == "none" else (s["k"] != "absent" and conforms(s, t)))
        if not ok:
            if s["k"] == "none" and v["k"] == "none" and (case.get("default") is not None or case.get("bare_field")):
                c.violation("C15:none-for-defaulted-parameter", "None, given to a parameter that is not declared "
                            "Optional (it has a default), is stored: the parameter holds no value of its type", data)
            else:
                key = why_not(s, t) if s["k"] not in ("none", "absent") else "stored-none-required"
                c.violation("C15:" + key, "an assignment stored a value that is not of the declared type", data)
        if not ast_eq(a.get("readback"), s):
            c.violation("C15:readback-differs", "reading the parameter does not give the stored value", data)
    writable = not case.get("sealed")
    if v["k"] == "none":
        expected = v if declared_optional else None
    else:
        expected = coerce_doc(v, t)
    if expected is None and v["k"] != "none" and not a["raised"]:
        report_undocumented(c, v, t, data)
    if expected is not None and v["k"] != "none" and not check_py(ck, expected):
        # the checker looks at the coerced value and refuses it: the assignment must raise
        if not a["raised"]:
            c.violation("C15:checker-ignored", "a value that the checker of the parameter refuses was stored", data)
        return
    if expected is not None and writable:
        if a["raised"]:
            c.violation("C15:conforming-rejected:" + t["k"], "a conforming (or documented-coercible) value was refused", data)
        elif not ast_eq(a["after"], expected):
            c.violation("C15:readback-not-equal:" + t["k"], "a conforming value does not read back equal (up to the documented coercions)", data)


# ------------------------------------------------------------------ graphs
def refs(v, deep=True):
    k = v["k"]
    if k == "obj":
        return [v["o"]]
    if deep and k == "list":
        return [o for x in v["l"] for o in refs(x)]
    if deep and k == "dict":
        return [o for _, x in v["ps"] for o in refs(x)]
    return []


def node_children(nodes, i, init, deep):
    n = nodes[i]
    out = []
    for v in n["fields"].values():
        out += refs(v, deep)
    return out + list(n.get("pre", [])) + list(init)


def reachable(nodes, root, inits, deep=True, stop=(), stop_root=False):
    """the configurations below root: through parameter values (deep: also inside lists and dicts),
    pre-tasks and init tasks.  inits: {node: init tasks its submit gave it} (a list = those of root).
    Nodes in `stop` are neither listed nor entered."""
    if not isinstance(inits, dict):
        inits = {root: list(inits)}
    seen, todo = [], [root]
    while todo:
        i = todo.pop()
        if i in seen or (i in stop and (i != root or stop_root)):
            continue
        seen.append(i)
        todo += node_children(nodes, i, inits.get(i, []), deep)
    return seen


def lacks(n):
    return any(f not in n["fields"] or n["fields"][f]["k"] == "none" for f in REQUIRED[n["c"]])


def wrap(rng, shape, ids):
    o = lambda i: {"k": "obj", "o": i}
    key = lambda j: v_str("k%d" % j)
    if shape == "obj":
        return o(ids[0])
    if shape == "list":
        return {"k": "list", "l": [o(i) for i in ids]}
    if shape == "dict":
        return {"k": "dict", "ps": [[key(j), o(i)] for j, i in enumerate(ids)]}
    if shape == "listlist":
        cut = rng.randint(0, len(ids))
        return {"k": "list", "l": [{"k": "list", "l": [o(i) for i in part]} for part in (ids[:cut], ids[cut:])]}
    if shape == "dictlist":
        return {"k": "dict", "ps": [[key(0), {"k": "list", "l": [o(i) for i in ids]}]]}
    if shape == "listdict":
        return {"k": "list", "l": [{"k": "dict", "ps": [[key(j), o(i)]]} for j, i in enumerate(ids)]}
    raise ValueError(shape)


def pipeline_ops(rng, nodes, classes, nt, init):
    """a history over nt tasks: the upstream ones go through their own submit first (accepted or rejected -
    in both cases the object then "has a job" and can be given as a parameter), are then assigned - directly, in
    a list, in a dict, in a list of lists, or inside an N2 configuration held by the task - to objects that no
    earlier submit has reached, and the downstream tasks are submitted.  Now and then a task that was never
    submitted is given (the assignment must be refused)."""
    n = len(nodes)
    cur = json.loads(json.dumps(nodes))
    inits, tried, tainted, ops = {}, [], set(), []
    for k in range(nt - 1, -1, -1):
        if tried:
            holders = [h for h in range(n) if h not in tainted and (h == k or classes[h] == C_N2)]
            nsets = rng.choice([1, 1, 2, 3]) if k == 0 else rng.choice([0, 1, 1, 2])
            for _ in range(nsets):
                h = k if rng.random() < 0.45 else rng.choice(holders)
                fld, shape = rng.choice(sorted(TASK_SHAPES[classes[h]].items()))
                ids = [rng.choice(tried) for _ in range(1 if shape == "obj" else rng.choice([1, 1, 2, 3]))]
                fresh = [j for j in range(nt) if j not in tried and j != k]
                if fresh and rng.random() < 0.08:
                    ids[rng.randrange(len(ids))] = rng.choice(fresh)       # never submitted: must be refused
                value = wrap(rng, shape, ids)
                ops.append({"op": "set", "node": h, "field": fld, "value": value})
                if all(j in tried for j in ids):
                    cur[h]["fields"][fld] = value
        ops.append({"op": "submit", "root": k, "init": init[k]})
        inits[k] = init[k]
        tried.append(k)
        tainted |= set(reachable(cur, k, inits))
    return ops


def gen_graph(rng, idx):
    mode = rng.choices(["submit", "resubmit", "validate", "pipeline", "retry"], [36, 12, 12, 28, 12])[0]
    nroots = {"resubmit": 2, "pipeline": rng.choice([2, 2, 3])}.get(mode, 1)
    n = rng.randint(max(2, nroots), 9)
    classes = []
    for i in range(n):
        if i < nroots and mode != "validate":
            classes.append(C_TK)
        else:
            classes.append(rng.choices([C_N, C_N1, C_LW, C_N2], [30, 15, 15, 40] if mode == "pipeline" else [50, 20, 20, 10])[0])
    nodes = []
    for i, cc in enumerate(classes):
        f = {"a": v_int(idx * 16 + i if cc == C_TK else rng.randrange(5)), "m": v_int(rng.randrange(3))}
        if cc == C_N1:
            f["z"] = v_int(1)
            f["lr"] = {"k": "list", "l": []}
        nodes.append({"c": cc, "fields": f, "pre": []})
    init = {r: [] for r in range(nroots)}
    # edges: towards higher indices (a DAG) unless validate-only (any direction: cycles)
    for i, cc in enumerate(classes):
        cand = [j for j in range(n) if (j > i or (mode == "validate" and rng.random() < 0.4)) and j >= (0 if mode == "validate" else nroots)]
        confs = [j for j in cand if classes[j] in (C_N, C_N1, C_N2)]
        lws = [j for j in cand if classes[j] == C_LW]
        for fld, shape in SHAPES[cc].items():
            if confs and rng.random() < (0.45 if shape != "obj" else 0.35):
                k = 1 if shape == "obj" else rng.choice([1, 1, 2, 3])
                ids = [rng.choice(confs) for _ in range(k)]
                nodes[i]["fields"][fld] = wrap(rng, shape, ids)
        for j in lws:
            if rng.random() < 0.4 and cc != C_LW:
                if cc == C_TK and rng.random() < 0.5:
                    init[i].append(j)
                else:
                    nodes[i]["pre"].append(j)
    # remove one required value at one node (70 %)
    removed = None
    if rng.random() < 0.7 or mode == "retry":
        r0 = rng.randrange(nroots) if mode == "pipeline" else 0
        pool = reachable(nodes, r0, init.get(r0, [])) if (rng.random() < 0.85 or mode == "retry") else list(range(n))
        if mode == "resubmit" and rng.random() < 0.5:
            both = [i for i in pool if i in reachable(nodes, 1, init.get(1, []))]
            pool = both or pool
        i = rng.choice(pool)
        f = rng.choice(REQUIRED[classes[i]])
        removed_value = nodes[i]["fields"].pop(f, None)
        removed = [i, f]
    if mode == "submit":
        ops = [{"op": "submit", "root": 0, "init": init[0]}]
    elif mode == "resubmit":
        ops = [{"op": "submit", "root": 0, "init": init[0]}, {"op": "submit", "root": 1, "init": init[1]}]
    elif mode == "pipeline":
        ops = pipeline_ops(rng, nodes, classes, nroots, init)
    elif mode == "retry":
        # the submit is rejected (a required value is missing below the task); the script then supplies the value
        # (75 %; else assigns something else) and submits the same task again
        i, f = removed
        if rng.random() < 0.75:
            fix = {"op": "set", "node": i, "field": f,
                   "value": {"k": "list", "l": []} if f == "lr" else
                            v_int(idx * 16 + i) if (classes[i] == C_TK and f == "a") else   # keeps the jobs distinct
                            v_int(rng.randrange(1, 4))}
        else:
            j = rng.randrange(n)
            fix = {"op": "set", "node": j, "field": "m" if [j, "a"] == removed else "a",
                   "value": v_int(idx * 16 + 15 if classes[j] == C_TK else 7)}
        ops = [{"op": "submit", "root": 0, "init": init[0]}, fix, {"op": "submit", "root": 0, "init": init[0]}]
    else:
        roots = [rng.randrange(n) for _ in range(rng.choice([1, 2]))]
        ops = [{"op": "validate", "root": r, "init": []} for r in roots]
    case = {"mode": mode, "nodes": nodes, "ops": ops, "removed": removed}
    if mode != "validate":
        all_init = {r: list(v) for r, v in init.items()}
        # configurations that are saved and loaded back before being used (from_state_dict): sealed, never validated.
        # A region = a configuration and everything below it, referenced from outside through its root only
        if rng.random() < 0.3:
            region, roots = set(), []
            cands = [i for i in range(nroots, n) if classes[i] in (C_N, C_N1, C_N2)]
            rng.shuffle(cands)
            for L in cands[:3]:
                D = set(reachable(nodes, L, {}))
                if D & region or any(classes[i] == C_TK for i in D):
                    continue
                inner = D - {L}
                outside_refs = [j for i in range(n) if i not in D
                                for j in node_children(nodes, i, all_init.get(i, []), True)]
                if any(j in inner for j in outside_refs):
                    continue
                region |= D
                roots.append(L)
                if rng.random() < 0.6:
                    break
            if roots:
                case["loaded"] = {"roots": roots, "region": sorted(region)}
        # an upstream TASK loaded from a saved definition (load_objects gives it a job - it counts as submitted -
        # and seals it without validating it), given to the submitted task or to a configuration it holds
        if rng.random() < 0.25:
            tid = len(nodes)
            tnode = {"c": C_TK, "fields": {"a": v_int(idx * 16 + 14), "m": v_int(rng.randrange(3))}, "pre": []}
            nodes.append(tnode)
            members = [tid]
            if rng.random() < 0.5:
                nodes.append({"c": C_N, "fields": {"a": v_int(rng.randrange(5)), "m": v_int(rng.randrange(3))}, "pre": []})
                members.append(tid + 1)
                fld = rng.choice(["c", "cs", "dc"])
                tnode["fields"][fld] = wrap(rng, SHAPES[C_TK][fld], [tid + 1])
            if mode != "retry" and rng.random() < 0.6:
                if case["removed"] is not None and removed_value is not None:
                    nodes[case["removed"][0]]["fields"][case["removed"][1]] = removed_value
                i = rng.choice(members)
                f = rng.choice(REQUIRED[nodes[i]["c"]])
                nodes[i]["fields"].pop(f, None)
                case["removed"] = [i, f]
            region_now = set((case.get("loaded") or {}).get("region", []))
            holders = [0] + [i for i in range(nroots, n) if classes[i] == C_N2 and i not in region_now]
            h = 0 if rng.random() < 0.6 else rng.choice(holders)
            fld, shape = rng.choice(sorted(TASK_SHAPES[nodes[h]["c"]].items()))
            nodes[h]["fields"][fld] = wrap(rng, shape, [tid] * (1 if shape == "obj" else rng.choice([1, 2])))
            lo = case.setdefault("loaded", {"roots": [], "region": []})
            lo["roots"].append(tid)
            lo["region"] = sorted(set(lo["region"]) | set(members))
        # instance() - validate, seal, build - on the task or on a configuration, before the submits
        if rng.random() < 0.3:
            j = 0 if rng.random() < 0.5 else rng.randrange(n)
            case["ops"] = [{"op": "instance", "root": j}] + case["ops"]
            if j == 0 and init.get(0) and mode in ("submit", "resubmit") and rng.random() < 0.7:
                # the task is complete when it is instantiated (and sealed); what is missing is on an init task,
                # which only joins the graph at submit(init_tasks=...)
                if removed is not None and removed_value is not None:
                    nodes[removed[0]]["fields"][removed[1]] = removed_value
                i = rng.choice(init[0])
                f = rng.choice(REQUIRED[classes[i]])
                nodes[i]["fields"].pop(f, None)
                case["removed"] = [i, f]
    return case


def history(case, answers):
    """(k, op, answer, nodes, inits, sealed) per call, with the objects as they are at the time of the call - as
    far as the implementation's own answers tell: an assignment that did not raise replaces the field, a submit
    gives its root its init tasks (before validating; the answer says what it left), an accepted submit or
    instance() seals everything below; loaded configurations are sealed from the start"""
    nodes = case["nodes"]
    inits = {}
    sealed = set((case.get("loaded") or {}).get("region", []))
    for k, (op, a) in enumerate(zip(case["ops"], answers)):
        if op["op"] == "submit":
            inits = dict(inits)
            inits[op["root"]] = list(op.get("init", []))
        yield k, op, a, nodes, inits, frozenset(sealed)
        if op["op"] == "set" and not a["raised"]:
            nodes = json.loads(json.dumps(nodes))
            nodes[op["node"]]["fields"][op["field"]] = op["value"]
        if op["op"] == "submit" and "init" in a:
            inits = dict(inits)
            inits[op["root"]] = list(a["init"])
        if op["op"] in ("submit", "instance") and not a["raised"]:
            sealed |= set(reachable(nodes, op["root"], inits))


def task_refs(nodes, v):
    return [o for o in refs(v) if nodes[o]["c"] == C_TK]


def oracle_graph(c, case, answers):
    visited_before = set()
    tried = set()
    accepted, rejected = set(), set()     # tasks by the outcome of their submits so far
    accepted |= {i for i in (case.get("loaded") or {}).get("region", []) if case["nodes"][i]["c"] == C_TK}   # loaded: have a job
    job, init_now = {}, {}                # what the previous calls left on each object
    for k, op, a, nodes, inits, sealed in history(case, answers):
        subject = op["node"] if op["op"] == "set" else op["root"]
        data = dict(kind="graph", case=case, answers=answers, op=k)
        if op["op"] == "set":
            if not a["raised"]:
                for o in task_refs(nodes, op["value"]):
                    if o in rejected and o not in accepted:
                        c.violation("C15:rejected-submit-leaves-job", "a task whose submit was rejected (nothing was "
                                    "registered) is accepted where a submitted task is required", data)
                    elif o not in accepted:
                        c.violation("C15:unsubmitted-task-accepted", "a task that was never submitted is accepted "
                                    "where a submitted task is required", data)
            job[subject], init_now[subject] = a.get("job", False), a.get("init", [])
            continue
        reach = reachable(nodes, op["root"], inits)
        missing = [i for i in reach if lacks(nodes[i])]
        data["missing"] = missing
        if a["raised"] and (a["delta"] != 0 or a["registered"]):
            c.violation("C15:registered-despite-raise", "submit raised but a job was registered", data)
        if op["op"] == "submit" and a["raised"] and "job" in a:
            # a rejected submit leaves the task as it was: no job, the init tasks it had
            if (a["job"] and not job.get(subject, False)) or a["init"] != init_now.get(subject, []):
                c.violation("C15:rejected-submit-leaves-job", "submit raised and nothing was registered, but the task "
                            "keeps the job (or the init tasks) of the rejected submit: it now counts as a submitted "
                            "task and can never be submitted again", data)
            if not missing and subject in rejected and subject not in accepted:
                c.violation("C15:rejected-submit-leaves-job", "a task whose submit was rejected is refused again "
                            "after the missing value has been supplied (\"already submitted\")", data)
        if missing and not a["raised"]:
            direct = reachable(nodes, op["root"], inits, deep=False)
            outside = reachable(nodes, op["root"], inits, stop=tried)    # not on / below a task submitted earlier
            unsealed = reachable(nodes, op["root"], inits, stop=sealed, stop_root=True)
            if not any(i in outside for i in missing):
                key = "C15:missing-below-submitted-task"
                what = ("a required value is missing on (or below) a task that went through its own submit before "
                        "being given as a parameter: the task that holds it is accepted and its job registered")
            elif not any(i in unsealed for i in missing):
                key = "C15:missing-below-sealed-configuration"
                what = ("a required value is missing on (or only reachable through) a configuration that is already "
                        "sealed - loaded from a saved definition, or a task instantiated before submit(init_tasks=...) "
                        "- and the task is accepted: sealed does not mean validated")
            elif not any(i in direct for i in missing):
                key = "C15:missing-in-container"
                what = ("a required value is missing on a configuration held in a list or a dict: "
                        "submit accepts the task and registers the job")
            elif any(i in visited_before for i in missing):
                key = "C15:stale-validated-mark"
                what = ("a configuration that failed validation once is skipped by the next validation: "
                        "the second task is accepted and its job registered")
            else:
                key = "C15:missing-accepted"
                what = "a required value is missing in the parameter graph and the task is accepted"
            c.violation(key, what, data)
        if a["raised"]:
            visited_before |= set(reach)      # nodes an earlier, failed validation may have marked
        if op["op"] == "submit":
            tried.add(op["root"])
            (rejected if a["raised"] else accepted).add(op["root"])
            job[subject], init_now[subject] = a.get("job", False), a.get("init", [])


# ------------------------------------------------------------------ Gallina rendering
def gstr(s):
    if any(ord(ch) > 126 or ord(ch) < 32 or ch == '"' for ch in s):
        raise InternalError("string outside the rendered alphabet: %r" % s)
    return '"%s"%%string' % s


def g_value(v):
    k = v["k"]
    if k == "none":
        return "VNone"
    if k == "int":
        return f"VInt {gz(v['z'])}"
    if k == "bool":
        return f"VBool {gbool(v['b'])}"
    if k == "float":
        return f"VFloat (FInt {gz(v['z'])})" if "z" in v else f"VFloat (FFrac {gz(v['bits'])})"
    if k == "str":
        return f"VStr {gstr(v['s'])}"
    if k == "path":
        return f"VPath {gstr(v['s'])}"
    if k == "enum":
        return f"VEnum {gnat(v['e'])} {gnat(v['m'])}"
    if k == "list":
        return "VList " + glist("(" + g_value(x) + ")" for x in v["l"])
    if k == "dict":
        return "VDict " + glist(f"({g_value(a)}, {g_value(b)})" for a, b in v["ps"])
    if k == "obj":
        return f"VObj {gnat(v['o'])} {gnat(v['c'])} {gbool(v.get('sub', False))}"
    raise InternalError("value outside the model: %r" % (v,))


def g_type(t, ctor="T"):
    k = t["k"]
    simple = {"int": "Int", "float": "Float", "bool": "Bool", "str": "Str", "path": "Path"}
    if k in simple:
        return ctor + simple[k]
    if k == "enum":
        return f"({ctor}Enum {gnat(t['e'])})"
    if k == "list":
        return f"({ctor}List {g_type(t['t'], ctor)})"
    if k == "dict":
        return f"({ctor}Dict {g_type(t['kt'], ctor)} {g_type(t['vt'], ctor)})"
    if k == "obj":
        return f"({ctor}Obj {gnat(t['c'])})"
    if k == "opt" and ctor == "A":
        return f"(AOpt {g_type(t['t'], ctor)})"
    raise InternalError("type outside the model: %r" % (t,))


def g_classes(table):
    out = []
    for cdef in table:
        args = glist(f"{{| a_ty := {g_type(a['ty'])}; a_required := {gbool(a['required'])}; "
                     f"a_generated := {gbool(a['generated'])}; a_constant := {gbool(a['constant'])}; "
                     f"a_optional := {gbool(a['optional'])}; a_checker := None |}}"
                     for a in cdef["args"])
        out.append(f"{{| c_parents := {glist(gnat(p) for p in cdef['parents'])}; c_task := {gbool(cdef['task'])}; "
                   f"c_args := {args} |}}")
    return "Definition cl : classes := " + glist(out) + "."


def g_checker(ck):
    if ck["k"] == "nonempty":
        return "CNonEmpty"
    return "(CChoices " + glist("(" + g_value(x) + ")" for x in ck["choices"]) + ")"


def g_assign(case):
    a = case["ans"]
    present = lambda x: None if (not a["declared"] or x is None or x["k"] == "absent") else x
    par = lambda x: "(" + g_value(x) + ")"
    ans = (f"{{| aa_declared := {gbool(a['declared'])}; aa_required := {gbool(a.get('required', False))}; "
           f"aa_ty := {gopt(a.get('ty') if a.get('ty', {}).get('k') != 'other' else None, g_type)}; "
           f"aa_init_raised := {gbool(a.get('init_raised', False))}; aa_initial := {gopt(present(a.get('initial')), par)}; "
           f"aa_raised := {gbool(a.get('raised', False))}; aa_after := {gopt(present(a.get('after')), par)} |}}")
    v = a["input"] if a["declared"] else case["v"]
    return (f"{{| ac_annot := {g_type(case['annot'], 'A')}; ac_default := {gopt(case.get('default'), par)}; "
            f"ac_old := {gopt(case.get('old'), par)}; ac_sealed := {gbool(case.get('sealed', False))}; "
            f"ac_ctor := {gbool(case['via'] == 'ctor')}; ac_checker := {gopt(case.get('checker'), g_checker)}; "
            f"ac_v := {g_value(v)}; ac_ans := {ans} |}}")


def g_graph(case, table):
    names = {c: [a["name"] for a in table[c]["args"]] for c in GRAPH_CLASSES}

    def fill(x):
        """object references get their class; the "has a job" flag is the model's business (stamp)"""
        if x["k"] == "obj":
            return dict(x, c=case["nodes"][x["o"]]["c"], sub=False)
        if x["k"] == "list":
            return {"k": "list", "l": [fill(y) for y in x["l"]]}
        if x["k"] == "dict":
            return {"k": "dict", "ps": [[a, fill(b)] for a, b in x["ps"]]}
        return x

    hs = []
    region = set((case.get("loaded") or {}).get("region", []))     # loaded configurations are sealed
    for i, n in enumerate(case["nodes"]):
        fs = [f"({gnat(names[n['c']].index(name))}, {g_value(fill(v))})" for name, v in n["fields"].items()]
        hs.append(f"{{| n_cls := {gnat(n['c'])}; n_fields := {glist(fs)}; n_pre := {glist(gnat(j) for j in n.get('pre', []))}; "
                  f"n_init := []; n_sealed := {gbool(i in region)} |}}")

    def g_op(op):
        if op["op"] == "submit":
            return f"OSubmit {gnat(op['root'])} {glist(gnat(j) for j in op.get('init', []))}"
        if op["op"] == "validate":
            return f"OValidate {gnat(op['root'])}"
        if op["op"] == "instance":
            return f"OInstance {gnat(op['root'])}"
        cc = case["nodes"][op["node"]]["c"]
        return f"OSet {gnat(op['node'])} {gnat(names[cc].index(op['field']))} ({g_value(fill(op['value']))})"

    ops = glist(g_op(op) for op in case["ops"])
    ans = glist(f"{{| oa_raised := {gbool(a['raised'])}; oa_delta := {gnat(a['delta'])}; oa_job := {gbool(a.get('job', False))}; "
                f"oa_init := {glist(gnat(j) for j in a.get('init', []))}; oa_sealed := {gbool(a.get('sealed', False))} |}}"
                for a in case["ans"])
    jobs = glist(gnat(i) for i in sorted(region) if case["nodes"][i]["c"] == C_TK)    # a loaded task has a job
    return f"{{| gc_heap := {glist(hs)}; gc_jobs := {jobs}; gc_ops := {ops}; gc_ans := {ans} |}}"


# ------------------------------------------------------------------ case generation
def gen_assign(rng):
    ctx = Ctx(rng)
    depth = rng.choice([0, 0, 1, 1, 2, 2, 3, 3, 4])
    t = gen_type(rng, depth)
    annot = t
    stream = rng.choices(["conforming", "coercible", "offbyone", "nearmiss", "none", "sealed", "nested-optional"],
                         [20, 20, 32, 12, 6, 4, 6])[0]
    if stream == "nested-optional" and depth == 0:
        stream = "offbyone"
    if stream == "nested-optional":
        annot = nest_opt(rng, t)
    if rng.random() < 0.25:
        annot = {"k": "opt", "t": annot}
    case = dict(stream=stream, annot=annot, default=None, old=None, sealed=False,
                via="ctor" if rng.random() < 0.2 else "setattr", edit_depth=None)
    # a declared default (configuration-free types: a configuration default is cloned, see the notes), at any
    # depth, written as a value of the type, as a value that needs the documented coercions (x: Param[float] = 1,
    # Param[List[float]] = [1, 2], Param[Path] = "d"), or off by one constructor (the class must be unusable)
    if stream != "nested-optional" and not has_obj_type(t) and rng.random() < 0.3:
        kind = rng.choices(["conforming", "coercible", "offbyone"], [30, 55, 15])[0]
        if kind == "conforming":
            d = gen_conforming(ctx, t)
        elif kind == "coercible":
            d = gen_conforming(ctx, t, coerce=0.7)
        else:
            d, _ = gen_offbyone(ctx, t, with_objs=False)
        if d["k"] != "none":
            case["default"] = d
            case["default_kind"] = kind
    if case["via"] == "setattr" and rng.random() < 0.5 and stream != "nested-optional":
        case["old"] = gen_conforming(ctx, t)
    if stream == "conforming" or stream == "nested-optional":
        case["v"] = gen_conforming(ctx, t)
    elif stream == "coercible":
        case["v"] = gen_conforming(ctx, t, coerce=0.6)
    elif stream == "nearmiss":
        case["v"], case["edit_depth"] = gen_nearmiss(ctx, t)
    elif stream == "none":
        case["v"] = v_none()
    elif stream == "sealed":
        case["v"] = gen_conforming(ctx, t)
        case["sealed"] = True
        case["via"] = "setattr"
    else:
        case["v"], case["edit_depth"] = gen_offbyone(ctx, t)
    # a checker on the parameter (x: Annotated[T, Choices([...])] or a user-defined Checker): the type coerces, then
    # the checker sees the coerced value.  Choices built around what the candidate / the default become once
    # coerced (so that values that NEED a coercion are accepted), plus other values of the type
    if stream != "nested-optional" and not has_obj_type(t) and rng.random() < 0.22:
        if rng.random() < (0.5 if t["k"] in ("list", "dict", "str") else 0.1):
            case["checker"] = {"k": "nonempty"}
        else:
            choices = []
            ev = coerce_doc(case["v"], t) if case["v"]["k"] != "none" else None
            if ev is not None and rng.random() < 0.75:
                choices.append(case["v"] if rng.random() < 0.3 else ev)     # as written / as coerced: == either way
            ed = coerce_doc(case["default"], t) if case.get("default") is not None else None
            if ed is not None and rng.random() < 0.8:
                choices.append(ed)
            if case.get("old") is not None and rng.random() < 0.8:
                choices.append(case["old"])
            for _ in range(rng.choice([0, 1, 2])):
                choices.append(gen_conforming(ctx, t))
            rng.shuffle(choices)
            case["checker"] = {"k": "choices", "choices": choices}
    # x: Param[T] = field() with neither default nor default_factory
    if case.get("default") is None and stream != "nested-optional" and rng.random() < 0.03:
        case["bare_field"] = True
    return case


# ------------------------------------------------------------------ Union-typed parameters (directed, no Coq model)
UNIONS = [[{"k": "int"}, {"k": "str"}], [{"k": "enum", "e": 0}, {"k": "int"}], [{"k": "str"}, {"k": "float"}],
          [{"k": "path"}, {"k": "bool"}], [{"k": "enum", "e": 1}, {"k": "str"}, {"k": "int"}]]


def gen_special(rng):
    """x: Param[Union[...]] (= default) given a scalar of one of the member types, of another type, a list or a
    dict.  The type constructor is outside the modelled type expressions; the property is checked by the oracle only"""
    ctx = Ctx(rng)
    out = []
    for ts in UNIONS:
        values = [gen_conforming(ctx, t) for t in ts] + [rand_value(ctx, with_objs=False) for _ in range(4)]
        values += [{"k": "dict", "ps": []}, {"k": "dict", "ps": [[v_str("a"), v_int(1)]]}, {"k": "list", "l": [v_int(1)]}]
        for v in values:
            if v["k"] == "none":
                continue
            default = gen_conforming(ctx, ts[0]) if rng.random() < 0.3 else None
            out.append({"annot": {"k": "union", "ts": ts}, "v": v, "default": default})
    return out


def oracle_special(c, case, a):
    if not a["declared"]:
        return
    ts, v = case["annot"]["ts"], a["input"]
    data = dict(kind="special", case=case, answer=a)
    if a["raised"]:
        if not ast_eq(a["after"], a["before"]):
            c.violation("C15:raise-changed-value", "an assignment raised and the stored value changed", data)
        if any(conforms(v, t) for t in ts):
            c.violation("C15:union-member-rejected", "a value of one of the member types of a Union-typed parameter "
                        "is refused (a member type that refuses with an assertion stops the search)", data)
    else:
        s = a["after"]
        if not any(conforms(s, t) for t in ts):
            c.violation("C15:union-stores-none" if s["k"] == "none" else "C15:union-stored-nonconforming",
                        "a Union-typed parameter given a value of none of its member types neither raises nor stores "
                        "a value of the declared type (a dict is silently turned into None)", data)


def run_driver(c, assign, graphs, special=(), nproc=16):
    """split the cases over driver processes (each with its own experiment)"""
    chunks = []
    na = max(1, (len(assign) + nproc - 1) // nproc)
    ng = max(1, (len(graphs) + nproc - 1) // nproc)
    for i in range(nproc):
        a, g = assign[i * na:(i + 1) * na], graphs[i * ng:(i + 1) * ng]
        if a or g or not chunks:
            chunks.append((a, g))
    scratch = str(c.scratch())

    def one(ch):
        return run_impl("drive_c15.py", dict(assign=ch[0], graphs=ch[1], special=list(special) if ch is chunks[0] else []),
                        timeout=1500,
                        extra_env={"C15_SCRATCH": scratch, "XPM_WORKDIR": scratch})

    with ThreadPoolExecutor(max_workers=nproc) as ex:
        results = list(ex.map(one, chunks))
    table = results[0]["classes"] if results else None
    ra, rg = [], []
    for (a, g), r in zip(chunks, results):
        if r["classes"] != table:
            raise InternalError("class tables differ between driver processes")
        if len(r["assign"]) != len(a) or len(r["graphs"]) != len(g):
            raise InternalError("driver stopped early: " + str(r.get("experiment_exit")))
        ra += r["assign"]
        rg += r["graphs"]
    rs = results[0].get("special", []) if results else []
    if len(rs) != len(special):
        raise InternalError("driver stopped early (directed cases)")
    return table, ra, rg, rs


def check_table(table):
    got = [(x["name"], x["parents"], x["task"]) for x in table]
    if got != [tuple(x) for x in LIB]:
        raise InternalError("vpk_c15.lib differs from the table of check_c15: %r" % (got,))
    for cc, req in REQUIRED.items():
        real = [a["name"] for a in table[cc]["args"] if a["required"] and not a["generated"]]
        if sorted(real) != sorted(req):
            raise InternalError("required arguments of class %d: %r vs %r" % (cc, real, req))


def size_of(case):
    return len(json.dumps(case))


def run(c: Check):
    c.rule = ("assignment cases: a random type expression (nesting depth 0-4 over int/float/bool/str/path/enum/"
              "list/dict/configuration classes, Optional at top, a few nested Optional) declared as a real Param on a "
              "generated class, in 30 % of the configuration-free types with a declared default of any depth (written "
              "as a value of the type, as a value that needs the documented coercions, or off by one constructor), "
              "and a candidate value that conforms, needs the documented coercions, or differs by one constructor at "
              "a random position; the value a freshly built configuration holds is observed as well as the "
              "assignment; graph cases: a task over 1-8 configurations held directly, in "
              "lists, dicts, lists of lists, dicts of lists, lists of dicts, pre-tasks and init tasks, one required "
              "value removed at a random node in 70 %, real submit (or validate() for cyclic graphs, or two submits "
              "sharing nodes, or a retry history: rejected submit, the missing value supplied, second submit, or a pipeline history: 2-3 tasks, the upstream ones go through their own submit - "
              "accepted or rejected - and are then assigned, directly / in a list / dict / list of lists / inside a "
              "held configuration, to the downstream ones, which are submitted in turn); in 30 % of the acyclic histories "
              "one or more configurations (with everything below them) are saved and LOADED back - from_state_dict, "
              "a required field stripped from the saved definition when the case removes it - before they are used, "
              "and in 30 % instance() is called on the task or on a configuration before the submits (the missing "
              "value then preferably on an init task). 22 % of the configuration-free assignment cases carry a checker "
              "(Choices around the coerced candidate / default, or a user-defined one), 3 % are declared with a bare "
              "field(); Union-typed parameters are exercised by directed cases (oracle only). Non-trivial = assignment "
              "with a container or configuration type; graph with >= 3 reachable nodes; distinct by canonical case")
    c.build()
    c.props()
    n_assign, n_graph = (3000, 1200) if c.quick else (60000, 24000)
    assign, graphs, special = [], [], []
    if c.replay:
        rp = json.load(open(c.replay))["replay"]
        if rp.get("kind") == "assign":
            assign.append(rp["case"])
        elif rp.get("kind") == "graph":
            graphs.append(rp["case"])
        elif rp.get("kind") == "special":
            special.append(rp["case"])
        n_assign = n_graph = 0
    else:
        gold = ROOT / "golden" / "c15.json"
        if gold.exists():
            for g in json.load(open(gold)):
                (assign if g["kind"] == "assign" else graphs).append(g["case"])
    for _ in range(n_assign):
        assign.append(gen_assign(c.rng))
    base = len(graphs)
    for i in range(n_graph):
        graphs.append(gen_graph(c.rng, base + i + 1))
    import time
    t0 = time.time()
    if not c.replay:
        special = gen_special(c.rng)
    table, ra, rg, rs = run_driver(c, assign, graphs, special)
    check_table(table)
    c.extra["driver_wall_s"] = round(time.time() - t0, 1)

    viol_before = 0
    for case, a in zip(assign, ra):
        case["ans"] = a
        if "default_input" in a and case.get("default") is not None:
            case.setdefault("default_written", case["default"])
            case["default"] = a["default_input"]       # as Python built it (equal dict keys are merged by the literal)
        c.evaluations += 1
        c.count("assign:stream=" + case.get("stream", "golden"))
        c.count("assign:depth=%d" % type_depth(strip_opt(case["annot"])))
        c.count("assign:top=" + strip_opt(case["annot"])["k"])
        if case.get("edit_depth") is not None:
            c.count("assign:edit_depth=%d" % case["edit_depth"])
        if case.get("stream") == "offbyone" and a["declared"]:
            c.count("assign:offbyone=" + ("raised" if a["raised"] else "stored"))
        c.count("assign:outcome=" + ("undeclarable" if not a["declared"] else "construction-raised" if a.get("init_raised")
                                     else ("raised:" + a.get("exc", "?") if a["raised"] else "stored")))
        if case.get("checker") is not None and a["declared"]:
            exp_ = coerce_doc(a["input"], strip_opt(case["annot"])) if a["input"]["k"] != "none" else None
            c.count("assign:checker=" + case["checker"]["k"] + ":" +
                    ("not-of-the-type" if exp_ is None else
                     ("accepted" if check_py(case["checker"], exp_) else "refused") +
                     ("-after-coercion" if not ast_eq(exp_, a["input"]) else "")))
        if case.get("bare_field"):
            c.count("assign:bare-field")
        if case.get("default") is not None:
            t0_ = strip_opt(case["annot"])
            exp = coerce_doc(case["default"], t0_)
            c.count("assign:default=" + case.get("default_kind", "golden") + ":" +
                    ("undeclarable" if not a["declared"] else
                     "held-as-written" if exp is not None and ast_eq(exp, case["default"]) else
                     "held-coerced" if exp is not None else "held-other"))
            c.count("assign:default_depth=%d" % type_depth(t0_))
        if type_depth(strip_opt(case["annot"])) >= 1 or strip_opt(case["annot"])["k"] == "obj":
            c.nontrivial.add(json.dumps([case["annot"], case["v"], case.get("old"), case.get("sealed")], sort_keys=True))
    for case, a in zip(graphs, rg):
        case["ans"] = a
        c.evaluations += 1
        c.count("graph:mode=" + case.get("mode", "golden"))
        c.count("graph:nodes=%d" % len(case["nodes"]))
        c.count("graph:removed=" + ("none" if not case.get("removed") else str(case["removed"][1])))
        for op, x in zip(case["ops"], a):
            c.count("graph:" + op["op"] + ("=raised:" + x.get("exc", "?") if x["raised"] else "=accepted"))
        # the last submit / validate of the history, on the objects as they are then
        k, op, _, nodes, inits, sealed = [h for h in history(case, a) if h[1]["op"] != "set"][-1]
        r = reachable(nodes, op["root"], inits)
        miss = [i for i in range(len(nodes)) if lacks(nodes[i])]
        direct = reachable(nodes, op["root"], inits, deep=False)
        tried = {o["root"] for o in case["ops"][:k] if o["op"] == "submit"}
        outside = reachable(nodes, op["root"], inits, stop=tried)
        c.count("graph:missing=" + ("nowhere" if not miss else "unreachable" if not any(i in r for i in miss)
                                    else "only-below-a-task-submitted-before" if not any(i in outside for i in miss)
                                    else "held-directly" if any(i in direct for i in miss) else "only-through-list-or-dict"))
        if case.get("mode") == "pipeline":
            c.count("graph:pipeline:tasks-held=%d" % len([i for i in r if i in tried]))
        unsealed = reachable(nodes, op["root"], inits, stop=sealed, stop_root=True)
        if miss and any(i in r for i in miss) and not any(i in unsealed for i in miss):
            c.count("graph:missing-only-on-or-below-sealed=" + ("root-sealed" if op["root"] in sealed else "loaded-or-instantiated"))
        if case.get("loaded"):
            c.count("graph:loaded-region-size=%d" % len(case["loaded"]["region"]))
        if len(r) >= 3:
            c.nontrivial.add(json.dumps([case["nodes"], case["ops"]], sort_keys=True))
    # the oracle sees the cases smallest first, so that the replay kept for a key is the smallest failing input
    for case in sorted(assign, key=size_of):
        oracle_assign(c, case, case["ans"])
    for case in sorted(graphs, key=size_of):
        oracle_graph(c, case, case["ans"])
    for case, a in zip(special, rs):
        c.evaluations += 1
        c.count("union:" + ("undeclarable" if not a["declared"] else "raised" if a["raised"] else "stored"))
        oracle_special(c, case, a)
    c.samples = ([dict(kind="assign", annot=x["annot"], v=x["v"], answer=x["ans"]) for x in assign[:2]] +
                 [dict(kind="graph", nodes=x["nodes"], ops=x["ops"], answer=x["ans"]) for x in graphs[:1]])
    header = ("From Coq Require Import ZArith List Bool String.\n"
              "From XV Require Import model.Types corr.TypesCorr.\n"
              "Import ListNotations.\nOpen Scope Z_scope.\n" + g_classes(table) + "\n")
    bad_a = c.corr_shards("assign", header, assign, g_assign, "check_assign cl", shard=400)
    bad_g = c.corr_shards("graph", header, graphs, lambda g: g_graph(g, table), "check_graph cl", shard=300)
    c.extra["coq_corr_wall_s"] = round(time.time() - t0 - c.extra["driver_wall_s"], 1)
    c.extra["disagreeing_cases"] = ([dict(kind="assign", case={k: v for k, v in assign[i].items()}) for i in bad_a[:4]] +
                                    [dict(kind="graph", case={k: v for k, v in graphs[i].items()}) for i in bad_g[:4]])
    c.level_assumptions = [
        "integers that reach a float position are exactly representable (|z| <= 2^53); beyond that float(z) rounds or "
        "raises OverflowError, which the model does not describe",
        "pathlib normalisation is modelled only for '' -> '.'; the generated strings are in pathlib normal form",
        "__validate__ hooks and Argument.checker are outside the model (the generated classes have none)",
        "what follows validation inside submit (seal, identifier, dependencies) is assumed not to raise for the "
        "acyclic graphs generated; cyclic graphs are only given to validate() because submit raises RecursionError on them",
        "sealing: an accepted submit and instance() seal every configuration the validation walk went through, loaded "
        "configurations are sealed from the start (observed: the sealed flag of the object of each call, and later "
        "assignments being refused); what the sealer generates (paths) is outside the model",
        "Union-typed parameters are outside the modelled type expressions: the directed cases are judged by the "
        "oracle only (no correspondence)",
        "the order of the steps of submit (job created, validation, registration) is the model's; the harness observes "
        "the scheduler registry, the job flag and the init tasks after every call",
        "declared defaults are generated for configuration-free types only (a configuration default is cloned by "
        "TypeConfig.__init__, a submitted task default becomes an unsubmitted one)",
    ]


if __name__ == "__main__":
    main_wrapper("C15", run)
