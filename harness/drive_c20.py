"""Implementation driver for C20: runs the real experimaestro on generated cases.

JSON on stdin: {"phase": "A" | "B" | "I", ...}; one JSON document on the last stdout line.

 phase A (VPK_C20_DEPRECATED=0): the Old* classes are ordinary classes with their former
          identifier; real submits create the job directories "recorded under a former identifier".
 phase B (VPK_C20_DEPRECATED=1): the Old* classes are @deprecate'd; manual partial repairs, then
          sequences of real fix_deprecated calls (or the real CLI command), a snapshot of jobs/ after
          each, then re-submits of the graphs written with the replacement classes.
 phase I: identifiers of graphs with deprecated classes vs. the same graphs with their replacements.
 phase C: the class table of this process (type identifier and declared arguments of every class of vpk_c20).
"""
import hashlib
import json
import logging
import os
import pathlib
import shutil
import sys
from pathlib import Path

logging.disable(logging.CRITICAL)

from experimaestro import Config, experiment, setmeta  # noqa: E402
from experimaestro.scheduler.workspace import RunMode  # noqa: E402
from vpk_c20 import defs  # noqa: E402


# ------------------------------------------------------------------ graphs
def build(spec, subst=False, labels=None, nodes=None):
    """spec: int | str | None | list | {"dict": {...}} | {"c": cls, "a": {...}, "label"?: l, "meta"?: bool} | {"ref": l}
    "meta": the configuration is flagged with setmeta(config, flag) - True: ignored wherever it is a member,
    False: counted in the identifier even when given through a Meta[...] parameter"""
    labels = {} if labels is None else labels
    if isinstance(spec, list):
        return [build(s, subst, labels, nodes) for s in spec]
    if isinstance(spec, dict):
        if "ref" in spec:
            return labels[spec["ref"]]
        if "dict" in spec:
            return {k: build(v, subst, labels, nodes) for k, v in spec["dict"].items()}
        name = spec["c"]
        if subst:
            name = defs.OLD2NEW.get(name, name)
        # children first: same order for the old and the new graph
        kw = {k: build(v, subst, labels, nodes) for k, v in spec["a"].items()}
        obj = (defs.CLASSES.get(name) or defs.PROBES[name])(**kw)
        if spec.get("meta") is not None:
            setmeta(obj, spec["meta"])
        if nodes is not None:
            nodes.append(obj)
        if "label" in spec:
            labels[spec["label"]] = obj
        return obj
    return spec


def ident(obj):
    return obj.__xpm__.identifier.all.hex()


def typeid(obj):
    return str(obj.__xpmtype__.identifier)


# ------------------------------------------------------------------ reflection (what the model of the loader is given)
def ev(v, ref):
    if v is None:
        return {"t": "none"}
    if isinstance(v, bool):
        return {"t": "bool", "v": v}
    if isinstance(v, int):
        return {"t": "int", "v": v}
    if isinstance(v, str):
        return {"t": "str", "b": list(v.encode("utf-8"))}
    if isinstance(v, list):
        return {"t": "list", "v": [ev(x, ref) for x in v]}
    if isinstance(v, dict):
        return {"t": "dict", "v": [[list(k.encode("utf-8")), ev(x, ref)] for k, x in v.items()]}
    if isinstance(v, Config):
        return {"t": "ref", "n": ref(v)}
    return {"t": "unknown", "py": type(v).__name__}


def export_graph(root):
    """the graph as the real objects hold it: nodes in discovery order (root = 0), classes by python name"""
    objs, index = [root], {id(root): 0}

    def ref(o):
        if id(o) not in index:
            index[id(o)] = len(objs)
            objs.append(o)
        return index[id(o)]

    nodes, i = [], 0
    while i < len(objs):
        o = objs[i]
        x = o.__xpm__
        nodes.append(dict(py=o.__xpmtype__.basetype.__qualname__,
                          fields=[[list(k.encode("utf-8")), ev(v, ref)] for k, v in x.values.items()],
                          meta=x._meta, task=None if x.task is None else ref(x.task),
                          pre=[ref(p) for p in x.pre_tasks], init=[ref(p) for p in x.init_tasks]))
        i += 1
    return nodes, objs


def canon_defs(objects, objs):
    """the definitions of a params.json over the indices of the exported graph"""
    idx = {id(o): i for i, o in enumerate(objs)}

    def cv(v):
        if isinstance(v, list):
            return {"t": "list", "v": [cv(x) for x in v]}
        if isinstance(v, dict):
            if "type" not in v:
                return {"t": "dict", "v": [[list(k.encode("utf-8")), cv(x)] for k, x in v.items()]}
            if v["type"] == "python":
                return {"t": "ref", "n": idx.get(v["value"], -1)}
            return {"t": "unknown", "py": v["type"]}
        if v is None:
            return {"t": "none"}
        if isinstance(v, bool):
            return {"t": "bool", "v": v}
        if isinstance(v, int):
            return {"t": "int", "v": v}
        if isinstance(v, str):
            return {"t": "str", "b": list(v.encode("utf-8"))}
        return {"t": "unknown", "py": type(v).__name__}

    return [dict(id=idx.get(d["id"], -1), py=d["type"], module=d["module"],
                 fields=[[list(k.encode("utf-8")), cv(v)] for k, v in d["fields"].items()],
                 pre=[idx.get(p, -1) for p in d.get("pre-tasks", [])],
                 init=[idx.get(p, -1) for p in d.get("init-tasks", [])],
                 meta=d.get("meta", None), task=(idx.get(d["task"], -1) if "task" in d else None))
            for d in objects]


def classes_now():
    """the classes as they are in this process (with VPK_C20_DEPRECATED=1 a deprecated class carries the type
    identifier of its replacement): type identifier and declared arguments, by python name"""
    out = []
    for name, cls in defs.CLASSES.items():
        xt = cls.__getxpmtype__()
        out.append(dict(py=name, tid=list(xt.identifier.name.encode("utf-8")),
                        deprecated=bool(xt.deprecated), parent=cls.__bases__[0].__name__,
                        args=[dict(name=list(a.name.encode("utf-8")), ignored=bool(a.ignored),
                                   gen=a.generator is not None, const=bool(a.constant), required=bool(a.required),
                                   default=None if a.default is None else ev(a.default, lambda o: -1))
                              for a in xt.arguments.values()]))
    return out


# ------------------------------------------------------------------ phase A
def set_launcher_env(xp):
    xp.workspace.launcher.setenv("PYTHONPATH", os.environ["PYTHONPATH"])
    xp.workspace.launcher.setenv("VPK_C20_DEPRECATED", os.environ.get("VPK_C20_DEPRECATED", "1"))


def phase_a(payload):
    assert not defs.DEPRECATED
    root = Path(payload["root"])
    out = []
    for case in payload["cases"]:
        wd = root / case["name"]
        jobs, objs = [], []
        with experiment(wd, "gen", port=-1) as xp:
            set_launcher_env(xp)
            for j in case["jobs"]:
                obj = build(j["spec"])
                objs.append(obj)
                mode = RunMode.NORMAL if j["mode"] == "run" else RunMode.GENERATE_ONLY
                obj.submit(run_mode=mode)
                job = obj.__xpm__.job
                if j["mode"] == "run":
                    job.wait()
                    # C10 defect #6 (not this property's): <name>.pid survives a successful run; a later submit
                    # then waits for whatever process has that pid by now.  Emulate the repaired behaviour.
                    job.pidpath.unlink(missing_ok=True)
                jobs.append(job)
        res = []
        for ix, (j, job, obj) in enumerate(zip(case["jobs"], jobs, objs)):
            path = job.path
            (path / "payload.txt").write_text(f"{case['name']}:job{ix}")
            if j["mode"] == "gen" and j["done"]:
                job.donepath.write_text("")
            r = dict(type=path.parent.name, id=path.name, name=job.name,
                     done=job.donepath.exists(), has_params=(path / "params.json").is_file())
            # the submitted graph as the objects hold it, and what was written to params.json (over the same indices)
            if r["has_params"]:
                nodes, allobjs = export_graph(obj)
                r["graph"] = nodes
                r["defs"] = canon_defs(json.loads((path / "params.json").read_text())["objects"], allobjs)
            res.append(r)
        out.append(res)
    return out


# ------------------------------------------------------------------ phase B
def json_ok(path):
    """the record of the job is readable: params.json is a complete JSON document"""
    try:
        json.loads(path.read_text())
        return True
    except Exception:  # noqa
        return False


def snapshot(wd):
    jobs = wd / "jobs"
    tree = []
    if not jobs.is_dir():
        return tree
    for t in sorted(jobs.iterdir()):
        if not t.is_dir() or t.is_symlink():
            continue
        for e in sorted(t.iterdir()):
            k = [t.name, e.name]
            if e.is_symlink():
                target = Path(os.readlink(e))
                if not target.is_absolute():
                    target = e.parent / target
                try:
                    rel = target.relative_to(jobs).parts
                except ValueError:
                    rel = ("<outside>", str(target))
                tree.append(dict(k=k, link=list(rel)))
            elif e.is_dir():
                p = e / "payload.txt"
                tree.append(dict(k=k, mark=p.read_text() if p.is_file() else None,
                                 params=(e / "params.json").is_file(), params_ok=json_ok(e / "params.json"),
                                 done=sorted(f.name[:-5] for f in e.iterdir()
                                             if f.name.endswith(".done") and f.exists())))
    return tree


def index_snapshot(wd):
    """the experiment indices: xp/<name>/jobs[.bak]/<type>/<id>, links created by the scheduler towards the job
    directories (read by `orphans`, by the experiment listing): where each entry points and which data it leads to"""
    out = []
    jobs = wd / "jobs"
    for folder in sorted((wd / "xp").glob("*/jobs*")):
        if not folder.is_dir() or folder.name not in ("jobs", "jobs.bak"):
            continue
        for e in sorted(folder.glob("*/*")):
            if not e.is_symlink():
                continue
            target = Path(os.readlink(e))
            try:
                rel = list((target if target.is_absolute() else e.parent / target).relative_to(jobs).parts)
            except ValueError:
                rel = ["<outside>", str(target)]
            mk = e / "payload.txt"
            out.append(dict(xp=folder.parent.name, folder=folder.name, k=[e.parent.name, e.name], target=rel,
                            mark=mk.read_text() if mk.is_file() else None))
    return out


def orphans_listed(wd):
    """what `experimaestro orphans <workdir>` (listing only, nothing is removed) reports as not belonging to any experiment"""
    from click.testing import CliRunner
    from experimaestro.cli import cli
    r = CliRunner().invoke(cli, ["orphans", str(wd)])
    logging.disable(logging.CRITICAL)
    if r.exception is not None and not isinstance(r.exception, SystemExit):
        return dict(error=repr(r.exception)[:200])
    return dict(listed=sorted(l.strip() for l in r.output.splitlines() if "/" in l and not l.startswith("[")))


def fresh_id(s):
    return hashlib.sha256(("fresh:" + s).encode()).hexdigest()


def ref_path(jobs, ref, old, new):
    if "old" in ref:
        o = old[ref["old"]]
        return jobs / o["type"] / o["id"]
    if "new" in ref:
        n = new[ref["new"]]
        return jobs / n["type"] / n["id"]
    return jobs / ref.get("type", "vpk_c20.defs.holder") / fresh_id(ref["fresh"])


def manual(wd, op, old, new, log):
    """partial repairs a user (or an earlier tool) may have left in the workspace"""
    jobs = wd / "jobs"
    kind = op[0]
    applied = False
    if kind == "link":
        at, to = ref_path(jobs, op[1], old, new), ref_path(jobs, op[2], old, new)
        if not os.path.lexists(at) and at != to:
            at.parent.mkdir(exist_ok=True)
            at.symlink_to(to)
            applied = True
    elif kind == "mkdir":
        at = ref_path(jobs, op[1], old, new)
        if not os.path.lexists(at):
            at.mkdir(parents=True)
            (at / "payload.txt").write_text(f"manual-dir:{op[2]}")
            applied = True
    elif kind == "copy":
        at, src = ref_path(jobs, op[1], old, new), ref_path(jobs, {"old": op[2]}, old, new)
        if not os.path.lexists(at) and src.is_dir() and not src.is_symlink():
            at.parent.mkdir(exist_ok=True)
            shutil.copytree(src, at, symlinks=True)
            (at / "payload.txt").write_text(f"manual-copy:{op[3]}")
            applied = True
    elif kind == "corrupt":
        p = ref_path(jobs, {"old": op[1]}, old, new) / "params.json"
        if p.is_file():
            params = json.loads(p.read_text())
            for o in params["objects"]:
                if "module" in o:
                    o["module"] = "vpk_c20.no_such_module"
                if "file" in o:                 # a class defined in a plain file is loaded from that file
                    o["file"] = o["file"] + ".deleted"
            p.write_text(json.dumps(params))
            applied = True
    elif kind == "rmparams":
        p = ref_path(jobs, {"old": op[1]}, old, new) / "params.json"
        if p.is_file():
            p.unlink()
            applied = True
    elif kind == "mvnew":
        src, at = ref_path(jobs, {"old": op[1]}, old, new), ref_path(jobs, {"new": op[1]}, old, new)
        if src.is_dir() and not src.is_symlink() and not os.path.lexists(at) and src != at:
            at.parent.mkdir(exist_ok=True)
            src.rename(at)
            applied = True
    else:
        raise ValueError(kind)
    log.append(applied)


class GlobTap:
    """records, lazily, what each Path.glob() loop yields (the order is the file system's)"""

    def __init__(self, jobs):
        self.jobs = jobs
        self.loops = []
        self.examined = []

    def __enter__(self):
        self.orig = pathlib.Path.glob
        tap = self

        def glob(path, pattern, **kw):
            if Path(path).absolute() != tap.jobs:          # only the loops over <workdir>/jobs are of interest
                yield from tap.orig(path, pattern, **kw)
                return
            loop = []
            tap.loops.append(loop)
            for p in tap.orig(path, pattern, **kw):
                try:
                    rel = p.absolute().relative_to(tap.jobs).parts
                    if len(rel) == 3:
                        loop.append([rel[0], rel[1]])
                except ValueError:
                    pass
                yield p

        pathlib.Path.glob = glob
        # the order in which the main loop really examines the directories (it may sort what glob yields): every
        # examined directory is loaded through tools.jobs.load_job
        import experimaestro.tools.jobs as tj
        self.tj, self.orig_load = tj, tj.load_job

        def load_job(job_path, *a, **kw):
            try:
                rel = Path(job_path).absolute().relative_to(tap.jobs).parts
                if len(rel) == 3:
                    tap.examined.append([rel[0], rel[1]])
            except ValueError:
                pass
            return tap.orig_load(job_path, *a, **kw)

        tj.load_job = load_job
        return self

    def __exit__(self, *a):
        pathlib.Path.glob = self.orig
        self.tj.load_job = self.orig_load


class CrashTap:
    """an interruption of the repair command at its n-th modification of the workspace (unlink, rename, replace, symlink,
    creation of a directory, json.dump of a parameter file; n = 0: the first one): the atomic ones are made and the command
    is stopped right after (OSError) - a kill -, json.dump writes half of the document and raises OSError(ENOSPC) - a full
    device.  A chain of such calls walks through the interruption points one after the other.
    n = None: nothing fails, the modifications are only counted."""

    METHODS = ("unlink", "rename", "replace", "symlink_to", "mkdir")

    def __init__(self, wd, n):
        self.wd, self.n = str(wd.absolute()), n
        self.count, self.crashed, self.at = 0, False, None

    def hit(self, what):
        ix = self.count
        self.count += 1
        if self.n is not None and ix == self.n:
            self.crashed, self.at = True, what
            return True
        return False

    def __enter__(self):
        import errno
        tap = self
        self.orig = {m: getattr(pathlib.Path, m) for m in self.METHODS}
        self.orig_dump = json.dump

        def wrap(name, orig):
            def f(path, *a, **kw):
                inside = str(Path(path).absolute()).startswith(tap.wd)
                if inside and not (name == "mkdir" and Path(path).is_dir()) and tap.hit(name):
                    orig(path, *a, **kw)        # the modification is made, the command stops right after it
                    raise OSError(errno.ENOSPC, f"injected interruption after {name}", str(path))
                return orig(path, *a, **kw)
            return f

        for m, orig in self.orig.items():
            setattr(pathlib.Path, m, wrap(m, orig))

        def dump(obj, fp, *a, **kw):
            name = getattr(fp, "name", "")
            if isinstance(name, str) and os.path.abspath(name).startswith(tap.wd) and tap.hit("dump"):
                text = json.dumps(obj, *a, **kw)
                fp.write(text[:len(text) // 2])
                fp.flush()
                raise OSError(errno.ENOSPC, "injected failure in json.dump (half of the document written)", name)
            return tap.orig_dump(obj, fp, *a, **kw)

        json.dump = dump
        return self

    def __exit__(self, *a):
        for m, orig in self.orig.items():
            setattr(pathlib.Path, m, orig)
        json.dump = self.orig_dump


def do_fix(wd, op):
    """op: [cli-]fix | fixclean | list | listclean, optionally suffixed -rel: the workspace is then designated by a
    path relative to the current directory, as a user typing `experimaestro deprecated list --fix myworkdir` does"""
    from experimaestro.tools.jobs import fix_deprecated
    crash_at = None
    if "^" in op:                       # <op>^<n>: the n-th modification of the workspace fails (see CrashTap)
        op0, _, n = op.partition("^")
        crash_at = int(n)
    else:
        op0 = op
    base = op0[:-4] if op0.endswith("-rel") else op0
    fix = base in ("fix", "fixclean", "cli-fix", "cli-fixclean")
    cleanup = base in ("fixclean", "listclean", "cli-fixclean", "cli-listclean")
    cwd = os.getcwd()
    target = wd
    if op0.endswith("-rel"):
        os.chdir(wd.parent)
        target = Path(wd.name)
    try:
        with GlobTap(wd / "jobs") as tap, CrashTap(wd, crash_at) as crash:
            if base.startswith("cli-"):
                from click.testing import CliRunner
                from experimaestro.cli import cli
                args = ["deprecated", "list"] + (["--fix"] if fix else []) + (["--cleanup"] if cleanup else []) + [str(target)]
                r = CliRunner().invoke(cli, args)
                err = None if r.exception is None or isinstance(r.exception, SystemExit) and r.exit_code == 0 else repr(r.exception)
            else:
                err = None
                try:
                    fix_deprecated(target, fix, cleanup)
                except Exception as e:  # noqa
                    err = repr(e)
    finally:
        os.chdir(cwd)
    logging.disable(logging.CRITICAL)
    return dict(op=op, fix=fix, cleanup=cleanup, loops=tap.loops, examined=tap.examined, error=err,
                crashed=crash.crashed, crash_at=crash.at, modifications=crash.count)


def recompute(params_path):
    from experimaestro.tools.jobs import load_job
    if params_path.parent.is_symlink() or not params_path.is_file():
        return dict(state="absent")
    try:
        params, job = load_job(params_path)
    except Exception as e:  # noqa
        return dict(state="raised", error=repr(e)[:200])
    finally:
        logging.disable(logging.CRITICAL)
    if job is None:
        return dict(state="failed")
    return dict(state="ok", type=str(job.__xpmtype__.identifier), id=job.__xpm__.identifier.all.hex())


def phase_b(payload):
    assert defs.DEPRECATED
    root = Path(payload["root"])
    out = []
    for case in payload["cases"]:
        wd = root / case["name"]
        jobs = wd / "jobs"
        old = case["old"]
        # the identity each graph has when written with the replacement classes (no submit needed)
        new = []
        for j in case["jobs"]:
            o = build(j["spec"], subst=True)
            new.append(dict(type=typeid(o), id=ident(o), name=typeid(o).rsplit(".", 1)[-1]))
        mlog = []
        for m in case["manual"]:
            manual(wd, m, old, new, mlog)
        res = dict(new=new, manual_applied=mlog, before=snapshot(wd), ops=[])
        # what the repair command recomputes from each params.json (its own loader, the classes as they are now)
        res["recomputed"] = [recompute(jobs / o["type"] / o["id"] / "params.json") for o in old]
        res["index_before"] = index_snapshot(wd)
        for op in case["ops"]:
            r = do_fix(wd, op)
            r["after"] = snapshot(wd)
            r["index"] = index_snapshot(wd)
            res["ops"].append(r)
        if res["index_before"]:
            res["orphans"] = orphans_listed(wd)
        # re-submits of the replacement graphs
        resub = []
        with experiment(wd, "resubmit", port=-1) as xp:
            set_launcher_env(xp)
            for ix, j in enumerate(case["jobs"]):
                o = build(j["spec"], subst=True)
                o.submit(run_mode=RunMode.DRY_RUN)
                job = o.__xpm__.job
                p = job.path
                r = dict(path=[p.parent.name, p.name], exists=p.exists(), done_visible=job.donepath.exists())
                if p.exists():
                    try:
                        r["resolved"] = list(p.resolve().relative_to(jobs.resolve()).parts)
                    except ValueError:
                        r["resolved"] = None
                    mk = p / "payload.txt"
                    r["mark"] = mk.read_text() if mk.is_file() else None
                dangling = p.is_symlink() and not p.exists()    # a real submit on a dangling job path would hang the scheduler
                if j["mode"] == "run" and case.get("real_resubmit", True) and not dangling:
                    ran = p / "ran.txt"
                    before = ran.read_text().count("ran") if ran.is_file() else 0
                    o2 = build(j["spec"], subst=True)
                    o2.submit()
                    state = o2.__xpm__.job.wait()
                    ran = o2.__xpm__.job.path / "ran.txt"
                    r["real"] = dict(state=state.name, ran_before=before,
                                     ran_after=ran.read_text().count("ran") if ran.is_file() else 0)
                resub.append(r)
        res["resubmit"] = resub
        res["final"] = snapshot(wd)
        out.append(res)
    return out


# ------------------------------------------------------------------ phase I
def phase_i(payload):
    out = []
    for spec in payload["graphs"]:
        n_old, n_new = [], []
        g_old = build(spec, False, None, n_old)
        g_new = build(spec, True, None, n_new)
        out.append(dict(old=[ident(o) for o in n_old], new=[ident(o) for o in n_new],
                        old_type=[typeid(o) for o in n_old], new_type=[typeid(o) for o in n_new],
                        old_cls=[type(o).__name__.split(".")[0] for o in n_old]))
        del g_old, g_new
    return out


def main():
    payload = json.load(sys.stdin)
    res = dict(A=phase_a, B=phase_b, I=phase_i, C=lambda p: classes_now())[payload["phase"]](payload)
    sys.stdout.flush()
    print()
    print(json.dumps(res))


if __name__ == "__main__":
    main()
