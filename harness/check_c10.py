"""C10 - job directory markers stay truthful whenever the job process dies.

Crash sweep on the real task runner: a real generated job script is started under
vpk_c10.crashrun, which makes the process die (SIGKILL / SIGTERM / SIGINT to itself) at the n-th
executed line of experimaestro/run.py or of the task body; after every death the directory is
inspected and the job is launched again.  Every history is (a) judged by the property restated over
the observations (oracle, independent of the model) and (b) replayed on coq/model/Runner.v inside
coqc (corr/RunnerCorr.v, check_case)."""
import json
import sys

from vcommon import COQ, GEN, REPO, ROOT, Check, InternalError, main_wrapper, run_impl, gz, gnat, glist, gopt, gbool

sys.path.insert(0, str(ROOT / "harness"))

MODES = ["ok", "raise", "exit3", "exit0", "base"]
# bodies that fork once: <outcome of the body>+<how the child leaves> (quit = os._exit, exit0 / exit3 = sys.exit, raise)
FORKS = ["ok+quit", "ok+exit0", "ok+exit3", "ok+raise", "raise+quit", "raise+exit0", "ok+return"]
CEXIT = dict(quit="CQuit", exit0="(CExit 0)", exit3="(CExit 3)", **{"raise": "CRaise", "return": "CReturn"})
FILE_EFFECTS = {"TouchDone", "WriteFailed", "RmPid", "RmFailed", "Lock", "Unlock"}


def child_seen(l):
    """what is compared with the model for a forked child: the three steps of the at-fork hook, then what it does to the
    files of the job directory (a child that returns through the runner restores its own handlers once more: private)"""
    ch = l.get("child", [])
    return ch[:3] + [e for e in ch[3:] if e in FILE_EFFECTS]

SUCCESS = {"ok", "exit0"}


# names of the workspace directory: plain, and with characters that a shell would quote (the job directory, its lock
# file and the script path are written into the generated Python script)
WS_SPECIAL = ["my ws", "it's", 'q"uo$te (&)']


def pmode(m):
    return m.split("+")[0]


def g_fork(m):
    return f"(Some {CEXIT[m.split('+')[1]]})" if "+" in m else "None"


SIGNALS = ["KILL", "TERM", "INT"]
OUTCOME = dict(ok="OOk", **{"raise": "ORaise"}, exit3="(OExit 3)", exit0="(OExit 0)", base="OBase")
EVS = {"Fork", "RegAtexit", "UnregAtexit", "SetTerm", "SetInt", "RestoreTerm", "RestoreInt", "Lock", "RmFailed", "BodyBegin",
       "BodyEnd", "TouchDone", "WriteFailed", "RmPid", "Unlock"}
PREFIXES = {"fresh": [], "done": ["ok"], "stale-failed": ["raise"]}


# ------------------------------------------------------------------ rendering to Gallina
def g_ev(name):
    return "E" + name if name in EVS else "EOther"


def g_obs(o):
    return (f"{{| o_done := {gbool(o['done'])}; o_failed := {gopt(o['failed'], gz)}; o_pid := {gbool(o['pid'])}; "
            f"o_lockfree := {gbool(o['lockfree'])}; o_runs := {gnat(o['B'])}; o_completed := {gnat(o['E'])} |}}")


def g_waiter(w):
    if w is None:
        return "None"
    if not w["fired"]:   # the second process did not wait for the lock: nothing the model can do (it blocks there)
        w = dict(w, sig="KILL", ctx="prop", pre=["<did not wait for the run lock>"])
    return (f"(Some {{| w_out := {OUTCOME[pmode(w['mode'])]}; w_death := (S{w['sig'].capitalize()}, C{w['ctx'].capitalize()}); "
            f"w_pre := {glist(g_ev(e) for e in w['pre'])}; w_post := {glist(g_ev(e) for e in w['post'])}; "
            f"w_obs := {g_obs(w['obs'])} |}})")


def g_launch(l):
    death = "None"
    if l["fired"]:
        death = f"(Some (S{l['sig'].capitalize()}, C{l['ctx'].capitalize()}))"
    return (f"{{| l_out := {OUTCOME[pmode(l['mode'])]}; l_death := {death}; l_pre := {glist(g_ev(e) for e in l['pre'])}; "
            f"l_post := {glist(g_ev(e) for e in l['post'])}; l_obs := {g_obs(l['obs'])}; "
            f"l_waiter := {g_waiter(l.get('waiter'))}; l_again := {gbool(bool(l.get('killed_again')))}; "
            f"l_fork := {g_fork(l['mode'])}; l_child := {glist(g_ev(e) for e in child_seen(l))} |}}")


def g_case(case):
    return glist(g_launch(l) for l in case["ans"])


# ------------------------------------------------------------------ the property over observations
EMPTY = dict(done=False, failed=None, pid=False, lockfree=True, B=0, E=0, X=0)


def oracle_history(launches, ws=None):
    """Yields (key, what, index) for every clause of the property that a launch of the history breaks."""
    before = EMPTY
    tainted = False
    for i, l in enumerate(launches):
        a = l["obs"]
        # a process forked by the body is not the job: it must leave the markers and the pid file alone
        wrote = sorted(set(l.get("child", [])) & {"TouchDone", "WriteFailed", "RmPid", "RmFailed", "Lock"})
        if wrote:
            tainted = True
            yield ("C10:marker-written-by-forked-child", "a process forked by the task body (it left through %s) did %s in the job "
                   "directory while the job process was still in its body" % (
                       {"exit0": "sys.exit(0)", "exit3": "sys.exit(3)", "raise": "an exception", "quit": "os._exit",
                        "return": "returning from the body"}.get(
                           l["mode"].split("+")[-1], "?"), ", ".join(wrote)), i)
        # a workspace path with a space, a quote... : the runner must get the path itself
        if ws in WS_SPECIAL and not l["fired"] and not l.get("waiter") and "Lock" not in l["pre"] and not before["done"]:
            tainted = True
            yield ("C10:workspace-path-with-shell-special-character", "workspace directory %r: the job process ended by itself "
                   "(exit status %s) without taking the run lock or running the body; markers: done=%s failed=%s, pid file left: %s" % (
                       ws, l["rc"], a["done"], a["failed"], a["pid"]), i)
        mid = l.get("mid")
        if mid and not wrote and (mid["done"] or mid["failed"] or not mid["pid"]):
            tainted = True
            yield ("C10:marker-written-by-forked-child", "right after the child forked by the body was gone, the job process being "
                   "in the middle of its body, the directory showed done=%s failed=%s pid=%s" % (mid["done"], mid["failed"], mid["pid"]), i)
        if tainted:   # (what the markers say from here on has been reported under that key)
            before = a
            continue
        # a launch that found the success marker does not run the body: whatever happens to it is not a failure of the job
        if before["done"] and before["failed"] is None and a["failed"] is not None and not l.get("waiter"):
            yield ("C10:failure-marker-written-by-relaunch-of-finished-job", "the launch of a job whose success marker existed "
                   "(no failure marker) %s and wrote a failure marker next to it" % (
                       f"received SIG{l['sig']} at {l['at']}" if l["fired"] else "ended by itself"), i)
        # success marker only if the body ran to completion
        if a["done"] and a["E"] < 1:
            yield ("C10:done-without-completed-body", "success marker present although the body never completed", i)
        elif a["done"] and not before["done"] and a["E"] != before["E"] + 1:
            yield ("C10:done-without-completed-body", "success marker written by a launch whose body did not complete", i)
        # the run lock dies with the process
        if not a["lockfree"]:
            yield ("C10:lock-held-after-death", "the run lock cannot be taken although the job process is gone", i)
        # the body runs exactly when there is no success marker
        ran = a["B"] - before["B"]
        if before["done"] and ran != 0:
            yield ("C10:body-rerun-despite-done", "a launch executed the body although the success marker existed", i)
        if not before["done"] and not l["fired"] and ran != 1:
            yield ("C10:body-not-run-without-done", "an undisturbed launch without success marker ran the body %d times" % ran, i)
        if ran not in (0, 1):
            yield ("C10:body-run-twice", "one launch entered the body %d times" % ran, i)
        # termination signal while the body runs
        if l["fired"] and l["sig"] in ("TERM", "INT") and "BodyBegin" in l["pre"] and "BodyEnd" not in l["pre"]:
            if a["failed"] is None and not l.get("killed_again"):  # (a SIGKILL inside the handler: no claim)
                yield ("C10:signal-in-body:no-failure-marker", f"SIG{l['sig']} during the body left no failure marker", i)
            if a["done"]:
                yield ("C10:signal-in-body:success-marker", f"SIG{l['sig']} during the body left a success marker", i)
        # two job processes for one job: the one that never had the run lock changes nothing
        w = l.get("waiter")
        if w:
            b, m = w["before"], w["obs"]
            how = ((f"a second job process that received SIG{w['sig']} "
                   + ("while blocked in lock.acquire" if w.get("ext") is not None else f"at its executed line {w['n']} ({w['at']})")
                   if w["fired"] else "a second job process that ended by itself instead of waiting for the run lock")
                   + ", the first process being in its body with the run lock")
            if "Lock" in w["pre"] + w["post"]:
                yield ("C10:run-lock-taken-twice", "a second job process took the run lock while the first held it", i)
            if m["failed"] != b["failed"]:
                yield ("C10:failure-marker-written-by-lock-waiter", how + ", wrote the failure marker", i)
            elif not l["fired"] and pmode(l["mode"]) in SUCCESS and a["done"] and a["failed"] is not None:
                yield ("C10:failure-marker-written-by-lock-waiter", "both markers at the end of a double launch whose only run of the body succeeded", i)
            if b["pid"] and not m["pid"]:
                yield ("C10:pid-file-removed-by-lock-waiter", how + ", removed the pid file", i)
            if m["lockfree"]:
                yield ("C10:lock-lost-while-holder-in-body", how + ": afterwards a probe could take the run lock", i)
            if (m["B"], m["E"], m["X"]) != (b["B"], b["E"], b["X"]):
                yield ("C10:body-run-by-lock-waiter", how + ", entered the body", i)
            if m["done"] != b["done"]:
                yield ("C10:done-without-completed-body", how + ", changed the success marker", i)
        # a job that ended on its own leaves no pid file
        if not l["fired"] and a["pid"]:
            cls = ("done-preexisting" if before["done"] else l["mode"]) + (":notification-raises" if l.get("eoj") == "garbage" else "")
            yield (f"C10:pid-left:{cls}", "the job ended on its own and left its pid file behind "
                   f"({'success marker already there' if before['done'] else 'body outcome ' + l['mode']})", i)
        before = a


# ------------------------------------------------------------------ generation
def relaunches(rng, quick, short=False):
    """1-3 further launches of the same script; all but the last may die too."""
    k = 1 if short else rng.choice([1, 1, 1, 2] if quick else [1, 1, 2, 3])
    out = []
    for j in range(k):
        l = dict(mode=rng.choice(MODES + ["ok", "ok"] + ([rng.choice(FORKS)] if rng.random() < 0.5 else [])))
        if rng.random() < 0.12:
            l["eoj"] = rng.choice(["garbage", "garbage", "refused"])   # the end-of-job notification raises / is refused
        if j < k - 1 and rng.random() < 0.6:
            l.update(sig=rng.choice(SIGNALS), n=rng.randrange(1, 92))
        out.append(l)
    return out


def fork_cases(c, refs):
    """Bodies that fork: death points from the first body line on - before the fork, after it (the job process must
    still have its handlers and its exit callback), after the body."""
    out = []
    for r in refs:
        if "+" not in r["mode"]:
            continue
        a = r["ans"][-1]
        lines = a["lines"]
        body = [n for n, t in enumerate(lines, 1) if t.startswith("task:")]
        if "Fork" not in a["pre"] or not body:
            continue   # (the reference run itself is judged by the oracle)
        fork_n = a["pre_n"][a["pre"].index("Fork")]
        after = [n for n in body if n > fork_n] or body[-1:]
        before = [n for n in body if n <= fork_n]
        tail = list(range(body[-1] + 1, len(lines) + 1)) or body[-1:]
        if not c.quick:
            step = 1 if r["mode"] in ("ok+quit", "ok+exit0") else 2
            pts = [(n, sig) for n in range(body[0], len(lines) + 1, step) for sig in SIGNALS]
        elif r["mode"] == "ok+quit":
            # after the fork every body line with both termination signals; before it one signal per line
            pts = [(n, sig) for n in after for sig in ("TERM", "INT")] + [(c.rng.choice(after), "KILL")]
            pts += [(n, ("TERM", "INT")[j % 2]) for j, n in enumerate(before) if j % 2 == 0]
            pts += [(n, SIGNALS[(n // 4) % 3]) for n in tail if n % 4 == 1]
        else:
            pts = [(after[0], "KILL"), (c.rng.choice(after), c.rng.choice(["TERM", "INT"])),
                   (c.rng.choice(before), c.rng.choice(SIGNALS)), (c.rng.choice(tail), c.rng.choice(SIGNALS))]
        for n, sig in pts:
            out.append(dict(kind="fork", prefix=r["prefix"], mode=r["mode"],
                            launches=[dict(mode=m) for m in PREFIXES[r["prefix"]]] + [dict(mode=r["mode"], sig=sig, n=n)]
                            + relaunches(c.rng, True, short=c.quick)))
    return out


def eoj_cases(c, refs):
    """The end-of-job notification (report_eoj, the last step of cleanup) raises - an entry of the job's .notifications
    folder that cannot be read - or is refused: jobs that end by themselves with every outcome, and deaths from the
    first body line on (handler, except clauses, exit callback all go through cleanup)."""
    out = []
    for r in refs:
        if r["prefix"] == "done" or (r["prefix"] == "stale-failed" and r["mode"] != "ok") or r["mode"] in FORKS[2:]:
            continue
        if c.quick and (r["mode"] in ("exit0", "base", "ok+exit0") or r["prefix"] != "fresh"):
            continue
        pre = [dict(mode=m) for m in PREFIXES[r["prefix"]]]
        for how in (["garbage"] if c.quick and r["mode"] not in ("ok", "raise") else ["garbage", "refused"]):
            out.append(dict(kind="eoj", prefix=r["prefix"], mode=r["mode"], launches=pre + [dict(mode=r["mode"], eoj=how)] + relaunches(c.rng, True, short=c.quick)))
        lines = r["ans"][-1]["lines"]
        body = [n for n, t in enumerate(lines, 1) if t.startswith("task:")]
        if not body or "+" in r["mode"]:
            continue
        ns = range(body[0], len(lines) + 1)
        pts = c.rng.sample(ns, min(len(ns), 3 if r["mode"] in ("ok", "raise") else 0)) if c.quick else ns[c.rng.randrange(2)::2]
        for n in pts:
            for sig in ([c.rng.choice(SIGNALS)] if c.quick else ["TERM", "INT"]):
                out.append(dict(kind="eoj", prefix=r["prefix"], mode=r["mode"],
                                launches=pre + [dict(mode=r["mode"], sig=sig, n=n, eoj="garbage")] + relaunches(c.rng, True, short=c.quick)))
    return out


def twice_cases(c, refs):
    """A second death of the same process: SIGTERM / SIGINT at the n-th executed line, then SIGKILL when j observable
    effects have followed it (inside handle_error / cleanup, the except clause or the exit callback)."""
    out = []
    ref = {(r["prefix"], r["mode"]): r for r in refs}
    for prefix, mode in [("fresh", "ok"), ("fresh", "raise"), ("stale-failed", "ok")] + ([] if c.quick else [("fresh", "exit3"), ("done", "ok")]):
        r = ref[(prefix, mode)]["ans"][-1]
        nlines = len(r["lines"])
        if not r["lock_n"] or not r["pre_n"] or r["lock_n"] + 9 > nlines:
            continue
        first = r["pre_n"][0]     # from the registration of the exit callback on, a signal sets something off
        if c.quick:
            # mostly where the handling of the signal has several observable effects: once the lock is held
            ns = sorted(c.rng.sample(range(r["lock_n"] + 1, nlines + 1), 6 if (prefix, mode) == ("fresh", "ok") else 3)
                        + [c.rng.randrange(first, r["lock_n"] + 1)])
            plan = [(n, c.rng.choice(["TERM", "INT"]), j) for n in ns for j in c.rng.sample(range(4), 2)]
        else:
            ns = range(first + c.rng.randrange(3), nlines + 1, 3)
            plan = [(n, sig, j) for n in ns for sig in ("TERM", "INT") for j in range(5)]
        for n, sig, j in plan:
            out.append(dict(kind="twice", prefix=prefix, mode=mode,
                            launches=[dict(mode=m) for m in PREFIXES[prefix]] + [dict(mode=mode, sig=sig, n=n, kill_after=j)]
                            + relaunches(c.rng, True, short=c.quick)))
    return out


def triple_cases(c, refs):
    """Three overlapping launches: A in its body, B waiting for the run lock, A ends through cleanup without success
    (failing body, or TERM/INT in the body), B runs, C is launched while B is alive in its body."""
    r = next(x for x in refs if (x["prefix"], x["mode"]) == ("fresh", "ok"))["ans"][-1]
    if not r["lock_n"] or not r["body_n"]:
        return []
    plan = [("raise", None), ("ok", "TERM"), ("exit3", None), ("ok", "INT")]
    if not c.quick:
        plan = plan * 3 + [("base", None), ("raise", "TERM"), ("ok", "KILL"), ("ok+quit", "TERM")]
    out = []
    for amode, sig in plan:
        a = dict(mode=amode, triple=dict(b=c.rng.choice(["ok", "ok", "raise"]), c=c.rng.choice(["ok", "raise"]), after_line=r["lock_n"]))
        if sig:
            a.update(sig=sig, n=c.rng.randrange(r["body_n"] + 1, r["body_n"] + 8))
        out.append(dict(kind="triple", prefix="fresh", mode=amode, launches=[a]))
    return out


def oracle_triple(l):
    w = l.get("c_while_b_in_body")
    if l.get("b_waited") is False:
        yield ("C10:body-entered-while-another-process-holds-the-run-lock", "a second launch took the run lock while the first was in its body")
    if w and w["b_alive"] and (w["lock"] or w["body"]):
        yield ("C10:body-entered-while-another-process-holds-the-run-lock",
               "three overlapping launches: A (in its body) ended through cleanup without success while B waited for the run lock; "
               "B got it and was in its body when C was launched: C %s while B was alive" % (
                   "entered the body" if w["body"] else "took the run lock"))
    o = l.get("obs")
    if o and o["done"] and o["E"] < 1:
        yield ("C10:done-without-completed-body", "three overlapping launches left a success marker without a completed body")


def double_cases(c, refs):
    """Two job processes for one job: H (outcome hmode) is held in its body; W gets a signal at its n-th executed
    line (1 .. the line that calls lock.acquire) or from outside while it is blocked in lock.acquire (after a
    generated delay); H then goes on and, in some cases, dies as well; 1-2 relaunches follow."""
    out = []
    ref = {(r["prefix"], r["mode"]): r for r in refs}
    combos = [("fresh", "ok"), ("fresh", "raise"), ("stale-failed", "ok")]
    if not c.quick:
        combos += [("fresh", "exit3"), ("stale-failed", "raise"), ("fresh", "base")]
    for prefix, hmode in combos:
        r = ref[(prefix, hmode)]["ans"][-1]
        lock_n, body_n, nlines = r["lock_n"], r["body_n"], len(r["lines"])
        if not lock_n or not body_n or body_n >= nlines:
            continue   # (a tree whose runner takes no lock / runs no body here: the sweep and the references report it)
        # lines executed when the exit callback / the two handlers were installed (whatever precedes the lock)
        steps = r["pre_n"][:r["pre"].index("Lock")] or [lock_n]
        # classes of points: before the first private step, after each of them, the call of lock.acquire
        classes = {steps[0], lock_n} | {n + 1 for n in steps}
        full = (prefix, hmode) == ("fresh", "ok")
        if not c.quick:
            points = set(range(1, lock_n + 1)) if full else classes | set(range(1 + c.rng.randrange(2), lock_n + 1, 2))
            plan = [(n, sig) for n in sorted(points) for sig in SIGNALS]
            plan += [(("ext", d), sig) for d in (c.rng.randrange(0, 30), c.rng.randrange(30, 250)) for sig in SIGNALS]
        elif full:
            points = classes | set(range(1 + c.rng.randrange(3), lock_n + 1, 3))
            plan = [(n, sig) for n in sorted(points) for sig in ("TERM", "INT")]
            plan += [(c.rng.choice(sorted(points)), "KILL"), (lock_n, "KILL")]
            plan += [(("ext", c.rng.randrange(0, 150)), sig) for sig in ("TERM", "INT")]
        else:
            plan = [(steps[-1] + 1, "INT"), (lock_n, "TERM"), (c.rng.randrange(1, lock_n + 1), c.rng.choice(SIGNALS)),
                    (("ext", c.rng.randrange(0, 150)), c.rng.choice(["TERM", "INT"]))]
        for pt, sig in plan:
            w = dict(mode=c.rng.choice(["ok", "raise"]), sig=sig)
            if isinstance(pt, tuple):
                w.update(ext=pt[1], after_line=lock_n)
            else:
                w.update(n=pt)
            h = dict(mode=hmode, waiter=w)
            if c.rng.random() < (0.25 if c.quick else 0.4):
                # both die: H gets its own signal once it has been let go
                h.update(sig=c.rng.choice(SIGNALS), n=c.rng.randrange(body_n + 1, nlines + 1))
            out.append(dict(kind="double", prefix=prefix, mode=hmode,
                            launches=[dict(mode=m) for m in PREFIXES[prefix]] + [h] + relaunches(c.rng, True, short=c.quick)))
    return out


def run(c: Check):
    c.rule = ("every (initial directory: fresh / success marker present / stale failure marker) x body outcome "
              "(return, exception, sys.exit(3), sys.exit(0), other BaseException) x signal (KILL, TERM, INT) x "
              "n-th executed line of run.py or of the task body (lines before the body only for the outcome `return`, the other outcomes from the first body line on; "
              "quick: every 6th line (7th on the two other directories) plus all body points; thorough: every line; on a directory with a stale failure "
              "marker 2 resp. 3 of the outcomes), followed by 1-3 relaunches with random outcomes and deaths; "
              "DOUBLE LAUNCHES: a second job process for the same directory is started while the first is held in its body "
              "(latch), its scheduler rewrites the pid file, and it receives KILL/TERM/INT at its n-th executed line, n = 1 .. "
              "the line calling lock.acquire (quick: the 5 classes before/after each private step and at the call, plus every "
              "3rd line; thorough: every line), or from outside while blocked in lock.acquire after a generated delay; the "
              "directory is inspected, then the first process is let go and in 25-40 % of the cases gets its own signal "
              "(both die); SECOND DEATHS: TERM/INT at a line, then SIGKILL when j = 0..4 observable effects of its handling "
              "are done; FORKING BODIES: the body forks once (os.fork; the child leaves by os._exit, sys.exit(0), sys.exit(3) or an "
              "exception, the body then returns or raises), death points from the first body line on - quick: for the os._exit "
              "child every body line after the fork x TERM/INT, every 2nd before it, every 4th line after the body; 4 points for "
              "each other (outcome, child) pair; thorough: every line x 3 signals; WORKSPACE PATHS: one history in four runs in a workspace directory named with a space, with a single quote, or with a double quote, a dollar, parentheses and an ampersand; FAILING NOTIFICATIONS: an unreadable entry in "
              "the job's .notifications folder makes report_eoj (last step of cleanup) raise, or the server refuses: own exits "
              "with every outcome (forking ones too) and deaths from the first body line on; non-trivial = the signal was delivered, distinct by (kind, initial directory, outcome, signal, "
              "line index / point, second signal)")
    if "model/Runner.v" in (COQ / "_CoqProject").read_text():
        c.build()
    else:  # development only: the files are compiled by hand until they are listed in _CoqProject
        c.gate()
    c.props()

    # source fact: the try statement of TaskRunner.run that decides what a raised SystemExit does
    try:
        from vpk_c10.crashrun import try_ranges
        rg = try_ranges(str(REPO / "src" / "experimaestro" / "run.py"))
        c.obligations.append(dict(name="srcfact:TaskRunner.run-try-catching-SystemExit", kind="srcfact", ok=True,
                                  detail="body lines %s" % rg))
    except Exception as e:  # fail closed
        c.obligations.append(dict(name="srcfact:TaskRunner.run-try-catching-SystemExit", kind="srcfact", ok=False,
                                  detail=repr(e)))

    scratch = c.scratch()
    cases = []
    rp = json.load(open(c.replay))["replay"] if c.replay else None
    if rp and rp.get("slow_launcher"):
        pass
    elif rp and "launches" in rp:
        cases.append(dict(kind="triple" if rp["launches"][0].get("triple") else "replay", prefix="fresh", mode=rp["launches"][0]["mode"],
                          launches=rp["launches"], ws=rp.get("ws")))
    else:  # (a replay file without a history names broken obligations: run the whole tier again)
        # reference executions: how many lines each (initial directory, outcome) executes, and which
        refs = []
        for pname, prefix in PREFIXES.items():
            for mode in ((MODES + (FORKS if pname == "fresh" else [])) if pname != "done" else ["ok"]):
                refs.append(dict(kind="ref", prefix=pname, mode=mode,
                                 launches=[dict(mode=m) for m in prefix] + [dict(mode=mode, ref=True)]))
        ans = run_impl("drive_c10.py", dict(scratch=str(scratch / "ref"), cases=refs), timeout=300)
        for r, a in zip(refs, ans):
            r["ans"] = a["launches"]
            r["lines"] = a["launches"][-1]["lines"]
        cases.extend(refs)
        # pinned histories; symbolic points are resolved with the reference run of a fresh directory
        r0 = next(r for r in refs if (r["prefix"], r["mode"]) == ("fresh", "ok"))["ans"][-1]
        pn = (r0["pre_n"] + [1, 1, 1])[:3]
        sym = {"acquire": r0["lock_n"] or 1, "after-atexit": pn[0] + 1, "after-handlers": pn[2] + 1,
               "in-body": (r0["body_n"] or 0) + 1}

        def at_effect(prefix, mode, eff, delta):
            a = next(r for r in refs if (r["prefix"], r["mode"]) == (prefix, mode))["ans"][-1]
            return max(1, a["pre_n"][a["pre"].index(eff)] + delta) if eff in a["pre"] else 1

        sym["before-done-marker@stale-failed"] = at_effect("stale-failed", "ok", "TouchDone", 0)
        sym["in-exit-cleanup@done"] = at_effect("done", "ok", "RmPid", 1)
        sym["after-cleaned@raise"] = at_effect("fresh", "raise", "RmPid", -3)   # the line that calls rmfile(pidfile)
        sym["after-lock"] = (r0["lock_n"] or 0) + 2
        sym["after-fork"] = at_effect("fresh", "ok+quit", "Fork", 1)

        def resolve(l):
            l = dict(l)
            for k in ("n", "after_line"):
                if isinstance(l.get(k), str):
                    l[k] = sym[l[k]]
            if l.get("waiter"):
                l["waiter"] = resolve(l["waiter"])
            return l

        for g in json.load(open(ROOT / "golden" / "c10.json")):
            cases.append(dict(kind="golden", launches=[resolve(l) for l in g["launches"]], ws=g.get("ws")))
        cases.extend(fork_cases(c, refs))
        cases.extend(eoj_cases(c, refs))
        for r in refs:
            if "+" in r["mode"]:
                continue
            if r["prefix"] == "stale-failed" and r["mode"] not in (("ok", "raise") if c.quick else ("ok", "raise", "exit3")):
                continue  # a stale failure marker only adds RmFailed: fewer outcomes there
            lines = r["lines"]
            ns = set(range(1, len(lines) + 1))
            if r["mode"] != "ok":  # before the body starts all outcomes execute the same lines in the same state
                first_body = min([n for n, t in enumerate(lines, 1) if t.startswith("task:")] or [len(lines) + 1])
                ns = {n for n in ns if n >= first_body}
            if c.quick:
                step = 6 if r["prefix"] == "fresh" else 7
                off = c.rng.randrange(step)
                ns = {n for n in ns if n % step == off}
                if r["prefix"] == "fresh" and r["mode"] in ("ok", "raise"):
                    ns |= {n for n, t in enumerate(lines, 1) if t.startswith("task:")}
            for n in sorted(ns):
                for sig in SIGNALS:
                    if c.quick and n % step != off and sig == "KILL":
                        continue  # the extra body points are there for the termination signals
                    if c.quick and r["prefix"] != "fresh" and sig != SIGNALS[(n // 4) % 3]:
                        continue  # quick tier: one signal per line on the two other initial directories
                    cases.append(dict(kind="sweep", prefix=r["prefix"], mode=r["mode"],
                                      launches=[dict(mode=m) for m in PREFIXES[r["prefix"]]]
                                      + [dict(mode=r["mode"], sig=sig, n=n)] + relaunches(c.rng, c.quick)))
        cases.extend(double_cases(c, refs))
        cases.extend(twice_cases(c, refs))
        cases.extend(triple_cases(c, refs))
        # one history in four lives in a workspace whose name needs quoting
        for x in cases:
            if x["kind"] not in ("ref", "golden") and c.rng.random() < 0.25:
                x["ws"] = c.rng.choice(WS_SPECIAL)
    # launcher side, at the same time: a real experiment whose launcher answers late
    import threading
    late = []
    if rp and rp.get("slow_launcher"):
        late = [dict(rp["slow_launcher"])]
    elif not rp:
        late = [dict(delay=round(c.rng.uniform(1.5, 2.5), 2), modes=["ok", "raise", "exit3", "ok+quit"])]
        if not c.quick:
            late += [dict(delay=round(c.rng.uniform(0.5, 4.0), 2), modes=c.rng.sample(MODES + FORKS, 4)) for _ in range(3)]

    def run_late():
        for j, sc in enumerate(late):
            sc["ans"] = run_impl("drive_c10_sched.py", dict(scratch=str(scratch / f"late{j}"), delay=sc["delay"], modes=sc["modes"]), timeout=300)
    th = threading.Thread(target=run_late)
    th.start()
    todo = [x for x in cases if "ans" not in x]
    ans = run_impl("drive_c10.py", dict(scratch=str(scratch / "sweep"), cases=todo), timeout=1500 if c.quick else 7000) if todo else []
    th.join()
    for x, a in zip(todo, ans):
        x["ans"] = a["launches"]

    # a machine under heavy load can make a job process miss a time limit of the driver: such histories are run once
    # more, alone, before anything is concluded from them
    def shaky(x):
        if x["kind"] == "triple":
            return bool(x["ans"][0].get("problems") or x["ans"][0].get("hung") or x["ans"][0].get("b_no_body"))
        return any(l.get("hung") or ((l.get("waiter") or {}).get("never_died")) or
                   (l.get("waiter") and not l["waiter"]["holder_alive"]) for l in x["ans"])
    again = [x for x in cases if shaky(x)]
    if again:
        c.extra["histories_run_again_after_a_time_limit"] = len(again)
        ans = run_impl("drive_c10.py", dict(scratch=str(scratch / "again"), workers=4, cases=again), timeout=1500)
        for x, a in zip(again, ans):
            x["ans"] = a["launches"]

    # ---- oracle + evidence
    best = {}
    kill_lines = set()
    triples = [x for x in cases if x["kind"] == "triple"]
    cases = [x for x in cases if x["kind"] != "triple"]
    for x in triples:
        l = x["ans"][0]
        c.evaluations += 3
        if l.get("problems") or l.get("hung") or l.get("b_no_body"):
            raise InternalError("three overlapping launches not as planned: %s %s" % (l.get("problems"), json.dumps(x["launches"])))
        c.count("three-overlapping-launches:A=%s%s" % (l["mode"], ("+" + l["a"]["sig"]) if l["a"]["fired"] else ""))
        c.nontrivial.add(("triple", l["mode"], l["a"]["sig"] if l["a"]["fired"] else None, l["b"]["mode"], l.get("c", {}).get("mode")))
        for key, what in oracle_triple(l):
            if key not in best:
                best[key] = (what, dict(x, ans=[dict(l, pre=[], post=[], fired=False, sig=None, at=None, ctx=None, rc=None)]), 0)
                best[key][1]["triple_observed"] = {k: l.get(k) for k in ("b_waited", "c_while_b_in_body", "obs")}
    for x in cases:
        c.evaluations += len(x["ans"])
        for l in x["ans"]:
            if l.get("hung"):
                raise InternalError("a job process did not end within the time limit: %s" % json.dumps(x["launches"]))
            c.count("outcome:" + l["mode"])
            c.count("death:" + (f"{l['sig']}:{l['ctx']}" if l["fired"] else "none"))
            if l.get("eoj"):
                c.count("end-of-job-notification:%s:%s" % (l["eoj"], f"death-{l['sig']}" if l["fired"] else "own-exit-" + pmode(l["mode"])))
            if l.get("killed_again"):
                c.count("second-death:SIGKILL-after-%d-effects-of-the-handling-of-%s" % (len(l["post"]), l["sig"]))
                c.nontrivial.add(("twice", x.get("prefix"), l["mode"], l["sig"], l["n"], len(l["post"])))
            if l["fired"]:
                kill_lines.add(l["at"])
                c.count("effects-before-death=%d" % len(l["pre"]))
            w = l.get("waiter")
            if w:
                if "Lock" in w["pre"] + w["post"] or (not w["fired"] and not w["never_died"]):
                    # the second process got the lock although the first holds it, or ended by itself instead of
                    # waiting for the lock: the oracle looks at what it did, the model (it blocks) will not agree
                    c.count("lock-waiter:did-not-wait")
                    continue
                if w["never_died"] or not w["holder_alive"] or not w["fired"]:
                    raise InternalError("double launch not as planned (second process %s, first process %s): %s" % (
                        "did not die" if w["never_died"] or not w["fired"] else "died", "alive" if w["holder_alive"] else "gone",
                        json.dumps(x["launches"])))
                where = "blocked-in-acquire" if w.get("ext") is not None else (
                    "in-try-up-to-the-acquire-call" if w["pre"] == ["RegAtexit", "SetTerm", "SetInt"] and w["ctx"] == "try"
                    else "after-%d-private-steps" % len(w["pre"]))
                c.count(f"lock-waiter:{w['sig']}:{where}")
                c.count("double-launch:" + ("both-die" if l["fired"] else "holder-ends-by-itself:" + l["mode"]))
                c.nontrivial.add(("double", x.get("prefix"), l["mode"], w["sig"], w.get("n") or "ext", l["sig"] if l["fired"] else None))
        c.count("launches-per-history=%d" % len(x["ans"]))
        c.count("workspace-directory:" + ("plain" if x.get("ws") not in WS_SPECIAL else repr(x["ws"])))
        if x["kind"] in ("sweep", "fork", "eoj"):
            sw = x["ans"][len(PREFIXES[x["prefix"]])]
            c.count("initial:" + x["prefix"])
            if sw["fired"]:
                c.nontrivial.add((x["prefix"], x["mode"], sw["sig"], sw["n"]))
            if x["kind"] == "fork" and sw["fired"]:
                c.count("forking-body:%s:%s-%s" % (x["mode"], sw["sig"], "after-the-fork" if "Fork" in sw["pre"] else "before-the-fork"))
        for key, what, i in oracle_history(x["ans"], x.get("ws")):
            if key not in best or i < best[key][2]:
                best[key] = (what, x, i)
    for sc in late:
        if "ans" not in sc:
            raise InternalError("the experiment with the slow launcher gave no answer")
        for jb in sc["ans"]:
            c.evaluations += 1
            c.count("slow-launcher:%s" % jb["mode"])
            c.nontrivial.add(("slow-launcher", jb["mode"], sc["delay"]))
            data = dict(slow_launcher=dict(delay=sc["delay"], modes=sc["modes"]), observed=sc["ans"])
            if jb["B"] != 1:
                raise InternalError("slow launcher scenario: the body of %s ran %d times: %s" % (jb["mode"], jb["B"], sc["ans"]))
            if jb["pid"]:
                c.violation("C10:pid-left:%s:slow-launcher" % jb["mode"], "a job run by a real experiment whose launcher returned the process "
                            "%.1f s after starting it ended on its own (done=%s failed=%s) and its pid file is still there" % (
                                sc["delay"], jb["done"], jb["failed"]), data)
            if jb["done"] != (pmode(jb["mode"]) in SUCCESS) or (jb["done"] and jb["failed"]):
                c.violation("C10:markers-wrong:slow-launcher", "markers of a job run through a slow launcher: %s" % jb, data)
    for key, (what, x, i) in sorted(best.items()):
        c.violation(key, what, dict(launches=x["launches"][:i + 1], ws=x.get("ws"), failing_launch=i,
                                    observed=[seen(l) for l in x["ans"][:i + 1]]))
    c.samples = ([dict(launches=x["launches"], observed=[seen(l) for l in x["ans"]]) for x in cases if x["kind"] == "sweep"][:3]
                 + [dict(launches=x["launches"], observed=[seen(l) for l in x["ans"]]) for x in cases if x["kind"] == "double"][:3])
    run_lines = sorted({int(t.split(":")[1]) for t in kill_lines if t.startswith("run:")})
    ref_lines = {t for x in cases if x["kind"] == "ref" for t in x["lines"]}
    c.extra["executed_lines_never_a_death_point"] = sorted(ref_lines - kill_lines)
    c.extra["death_points"] = dict(run_py_lines=run_lines, task_body_lines=sorted(
        {int(t.split(":")[1]) for t in kill_lines if t.startswith("task:")}))

    # ---- correspondence inside Coq
    header = ("From Coq Require Import ZArith List Bool.\nFrom XV Require Import model.Runner corr.RunnerCorr.\n"
              "Import ListNotations.\nOpen Scope Z_scope.\n")
    # which state of the code is under test?  A directed probe (the reference run whose forked child leaves with
    # sys.exit(0)): without fixes/C10-3.diff the child creates the success marker (the oracle reports that under its
    # own key); the correspondence then uses the literal model of that code
    probe = [x for x in cases if x["kind"] in ("ref", "golden", "replay") for l in x["ans"] if l["mode"].endswith("+exit0")
             and "TouchDone" in l.get("child", [])]
    checker = "check_case_forkunsafe" if probe else "check_case"
    c.extra["model_used_for_the_correspondence"] = (
        "Guarded, fsafe = false (a forked child goes through the except clauses of TaskRunner.run: code before fixes/C10-3.diff)"
        if probe else "Guarded, fsafe = true (all repairs)")
    bad = c.corr_shards("corr", header, cases, g_case, checker, shard=150)
    if bad:
        sub = [cases[i] for i in bad]
        bad1 = set(c_diag(c, header, sub, "check_case_fixed"))
        bad2 = set(c_diag(c, header, sub, "check_case_prefix"))
        c.extra["disagreeing_cases"] = [dict(launches=cases[i]["launches"], observed=cases[i]["ans"],
                                             agrees_with_model_of_the_code_before_fix_C10_2=(j not in bad1),
                                             agrees_with_model_of_the_pinned_commit=(j not in bad2))
                                        for j, i in enumerate(bad)][:5]
        c.extra["disagreeing_total"] = len(bad)
        c.extra["disagreeing_but_explained_by_literal_model_before_fix_C10_2"] = len(bad) - len(bad1)
        c.extra["disagreeing_but_explained_by_literal_prefix_model"] = len(bad) - len(bad2)
    c.level_assumptions = [
        "partial: 'the run lock dies with the process' is the operating system's behaviour (fcntl locks); the model "
        "states it in `die`, the sweep probes it after every death, it is not proved",
        "deaths are injected at line boundaries of run.py and of the task body (a signal inside a C call or between "
        "the creation and the writing of the failure marker is not injected); per process one signal, optionally followed "
        "by one SIGKILL at an observable-effect boundary of its handling (a second TERM/INT during the handler is neither "
        "modelled nor injected)",
        "two processes for one job: the second process's life lies entirely inside the first one's body (held by a latch); "
        "it never survives the first (that is the sequential history); its handler steps are not interleaved with steps "
        "of the first",
        "forking bodies: one fork per body; the child's whole life is one moment of the body (the parent waits for it inside an "
        "untraced helper: no death point between fork() and the child's end, no signal is sent to the child)",
        "pid reuse is outside the model (the pid file is present/absent, not a process identity): nothing is claimed about "
        "a left-over pid file naming a recycled pid",
        "the pid file is written by the launching side before the runner's first effect (the driver writes it right "
        "after spawning, as CommandLineJob.aio_run does; the wrapper waits for it)",
    ]


def seen(l):
    d = dict(mode=l["mode"], sig=l["sig"] if l["fired"] else None, at=l["at"], ctx=l["ctx"], effects_before=l["pre"],
             effects_after=l["post"], exit_status=l["rc"], directory=l["obs"])
    if l.get("triple"):
        d["three_overlapping_launches"] = {k: l.get(k) for k in ("b_waited", "c_while_b_in_body")}
        for x in "abc":
            if isinstance(l.get(x), dict):
                d["process_" + x] = dict(mode=l[x]["mode"], effects_before=l[x]["pre"], effects_after=l[x]["post"], exit_status=l[x]["rc"])
    if l.get("killed_again"):
        d["then_SIGKILL_before"] = l["at2"]
    if l.get("child"):
        d["effects_inside_the_forked_child"] = l["child"]
    w = l.get("waiter")
    if w:
        d["second_process"] = dict(sig=w["sig"], at=w["at"], ctx=w["ctx"], sent_from_outside_while_blocked=w.get("ext") is not None,
                                   effects_before=w["pre"], effects_after=w["post"], exit_status=w["rc"],
                                   directory_when_it_started=w["before"], directory_when_it_was_gone=w["obs"])
    return d


def c_diag(c, header, sub, checker):
    """Which of the disagreeing cases does a literal model of an earlier state of the code explain? (diagnosis, not an obligation)"""
    body = [header, "Definition cases := [", ";\n".join(g_case(x) for x in sub), "].",
            "Fixpoint badidx {A} (f : A -> bool) (l : list A) (i : nat) : list nat :=\n"
            "  match l with [] => [] | x :: l' => if f x then badidx f l' (S i) else i :: badidx f l' (S i) end.",
            f"Definition answer : list nat := badidx {checker} cases 0%nat.", "Eval vm_compute in answer."]
    rc, out, err = c.coq_eval("diag_" + checker, "\n".join(body), 600)
    if rc != 0:
        return list(range(len(sub)))
    from vcommon import parse_natlist
    return parse_natlist(out)


if __name__ == "__main__":
    main_wrapper("C10", run)
