from typing import List, Dict
from experimaestro import Config, Param, setmeta
class L(Config):
    x: Param[int]
class B(Config):
    ll: Param[List[List[L]]] = [[]]
    dl: Param[Dict[str, List[L]]] = {"a": []}
def fid(c): return c.__xpm__.full_identifier.all.hex()[:16]
m = setmeta(L(x=1), True)
print("ll  [[m]] vs [[]]  :", fid(B(ll=[[m]])), fid(B(ll=[[]])), fid(B()))
print("dl {a:[m]} vs {a:[]}:", fid(B(dl={"a": [m]})), fid(B(dl={"a": []})), fid(B()))
# one level (list of L)
class C(Config):
    l: Param[List[L]] = []
print("l [m] vs [] :", fid(C(l=[m])), fid(C(l=[])), fid(C()))
