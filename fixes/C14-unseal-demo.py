from experimaestro import Config, Param
from experimaestro.core.objects import ConfigWalkContext
class L(Config):
    x: Param[int]
c = L(x=1)
c.__xpm__.seal(ConfigWalkContext()); i1 = c.__xpm__.full_identifier.all.hex()
c.__xpm__.__unseal__(); c.x = 2
c.__xpm__.seal(ConfigWalkContext()); i2 = c.__xpm__.full_identifier.all.hex()
fresh = L(x=2).__xpm__.full_identifier.all.hex()
print(i1 == i2, i2 == fresh)
assert i2 == fresh
