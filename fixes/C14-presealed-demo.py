import sys, tempfile, logging
sys.path.insert(0, "/verif/harness")
from pathlib import Path
from experimaestro import Config, Task, Param, LightweightTask, experiment
from experimaestro.core.objects import ConfigWalkContext
from experimaestro.scheduler.workspace import RunMode

class I(LightweightTask):
    x: Param[int]
    def execute(self): pass

class T(Task):
    a: Param[int]
    def execute(self): pass

def go(request_first):
    with tempfile.TemporaryDirectory() as d:
        with experiment(d, "x", run_mode=RunMode.DRY_RUN) as xp:
            t = T(a=1)
            t.__xpm__.seal(ConfigWalkContext())
            if request_first:
                t.__xpm__.full_identifier
            t.submit(init_tasks=[I(x=3)])
            return t.__xpm__.job.path.name, t.__xpm__.init_tasks[0].__xpm__._sealed
print(go(False)); print(go(True))
