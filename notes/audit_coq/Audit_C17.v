(* AUDIT (group B) - C17.  Extra non-vacuity witnesses and strength probes.  No axioms. *)
From Coq Require Import List NArith ZArith Bool Arith.
From XV Require Import model.Walk model.GenPath proofs.Walk_lemmas proofs.GenPath_lemmas props.C17.
Import ListNotations.
Local Open Scope N_scope.

Definition u_a : str := [97].    Definition u_b : str := [98].   Definition u_c : str := [99].
Definition u_p : str := [112].   Definition u_q : str := [113].
Definition und (c : nat) fs pr := {| cls := c; fields := fs; pre := pr; init := []; task := None; sealed := false |}.
Definition u_jd : ppath := {| p_root := 1; p_parts := [[74; 79; 66]] |}.     (* /JOB *)

(* --- 1. strength: "distinct" is path INEQUALITY only; one generated path can be a proper prefix of
   another, i.e. a generated FILE sits where the FOLDER of a sub-configuration is generated.
     class 0 (task):  a: Param[C1];  p = pathgenerator("out")
     class 1:         b: Param[C2];  p = pathgenerator("b")
     class 2:                        p = pathgenerator("c")
   All hypotheses of C17_distinct_wf hold (plain file names, well-formed names).                      *)
Definition u_gens : list (list (str * str)) := [[(u_p, k_out)]; [(u_p, u_b)]; [(u_p, u_c)]].
Definition u_heap : heap := [ und 0 [(u_a, VRef 1)] []; und 1 [(u_b, VRef 2)] []; und 2 [] [] ].

Example u_hyps : names_wf u_heap /\ task_targets_cut u_heap /\ files_ok u_gens.
Proof.
  split; [apply names_wfb_sound; vm_compute; reflexivity|].
  split; [apply task_targets_cutb_sound; vm_compute; reflexivity|].
  apply files_plainb_sound. vm_compute. reflexivity.
Qed.

Example u_generated :
  option_map (map (fun e => (g_node e, p_parts (g_path e)))) (generated esc_fix seal_edges u_heap u_gens 0 u_jd)
  = Some [ (2%nat, [[74; 79; 66]; k_out; u_a; u_b; u_c]);      (* /JOB/out/a/b/c  *)
           (1%nat, [[74; 79; 66]; k_out; u_a; u_b]);           (* /JOB/out/a/b    <- a file where 2's folder is *)
           (0%nat, [[74; 79; 66]; k_out]) ].                   (* /JOB/out        <- a file where every folder is *)
Proof. vm_compute. reflexivity. Qed.

Definition proper_prefix (p q : ppath) : Prop :=
  p_root p = p_root q /\ exists x rest, p_parts q = p_parts p ++ x :: rest.

Theorem u_distinct_but_nested : exists h gens root jd l e1 e2,
  names_wf h /\ task_targets_cut h /\ files_ok gens /\
  generated esc_fix seal_edges h gens root jd = Some l /\ In e1 l /\ In e2 l /\
  g_node e1 <> g_node e2 /\ g_path e1 <> g_path e2 /\ proper_prefix (g_path e1) (g_path e2).
Proof.
  destruct u_hyps as [A [B C]].
  exists u_heap, u_gens, 0%nat, u_jd. eexists.
  exists {| g_node := 1; g_arg := u_p; g_file := u_b; g_path := {| p_root := 1; p_parts := [[74; 79; 66]; k_out; u_a; u_b] |} |}.
  exists {| g_node := 2; g_arg := u_p; g_file := u_c; g_path := {| p_root := 1; p_parts := [[74; 79; 66]; k_out; u_a; u_b; u_c] |} |}.
  split; [exact A|]. split; [exact B|]. split; [exact C|].
  split; [vm_compute; reflexivity|].
  split; [right; left; reflexivity|]. split; [left; reflexivity|].
  split; [discriminate|]. split; [discriminate|].
  split; [reflexivity|]. exists u_c, []. reflexivity.
Qed.

(* --- 2. strength: "submitting the same configuration again yields the same paths".  The model is a
   function of the heap, so C17_reproducible (independence of the fuel) is nearly free; what could break
   reproducibility is anything the IDENTIFIER ignores but the walk sees.  Dict insertion order was repaired
   (C17_dict_order_irrelevant); the order of PRE-TASKS is ignored by the full identifier (it sorts the
   pre-task identifiers, model/Hash.v full_of) but not by the Sealer (__pre_tasks__/<index>).  The notes
   say so in prose; there is no theorem.  Here it is on the model: same nodes, same classes, the two
   pre-tasks attached in the other order -> the two lightweight tasks swap their generated paths.         *)
Definition u_gens2 : list (list (str * str)) := [[]; [(u_p, u_q)]].
Definition u_pre12 : heap := [ und 0 [] [1%nat; 2%nat]; und 1 [] []; und 1 [] [] ].
Definition u_pre21 : heap := [ und 0 [] [2%nat; 1%nat]; und 1 [] []; und 1 [] [] ].

Theorem u_pretask_order_changes_paths :
  generated esc_fix seal_edges u_pre12 u_gens2 0 u_jd <> generated esc_fix seal_edges u_pre21 u_gens2 0 u_jd /\
  (exists l1 l2 e1 e2, generated esc_fix seal_edges u_pre12 u_gens2 0 u_jd = Some l1 /\
                        generated esc_fix seal_edges u_pre21 u_gens2 0 u_jd = Some l2 /\
                        In e1 l1 /\ In e2 l2 /\ g_node e1 = 1%nat /\ g_node e2 = 2%nat /\ g_path e1 = g_path e2).
Proof.
  split; [vm_compute; discriminate|].
  eexists. eexists.
  exists {| g_node := 1; g_arg := u_p; g_file := u_q;
            g_path := {| p_root := 1; p_parts := [[74; 79; 66]; k_out; k_pre; [48]; u_q] |} |}.
  exists {| g_node := 2; g_arg := u_p; g_file := u_q;
            g_path := {| p_root := 1; p_parts := [[74; 79; 66]; k_out; k_pre; [48]; u_q] |} |}.
  split; [vm_compute; reflexivity|]. split; [vm_compute; reflexivity|].
  split; [left; reflexivity|]. split; [left; reflexivity|]. repeat split.
Qed.

(* --- 3. strength: a configuration sealed by an EARLIER submit is cut: this submit generates nothing for
   it, so its paths stay inside the OTHER job's directory.  "Every path generated when a task is submitted
   resolves inside that task's job directory" is true of what THIS submit generates; the task still reads
   parameters pointing into another job (documented in the notes, invisible in the theorem).             *)
Example u_sealed_child_gets_nothing :
  generated esc_fix seal_edges
    [ und 0 [(u_a, VRef 1)] [];
      {| cls := 1; fields := []; pre := []; init := []; task := None; sealed := true |} ]
    u_gens 0 u_jd
  = Some [ {| g_node := 0; g_arg := u_p; g_file := k_out; g_path := {| p_root := 1; p_parts := [[74; 79; 66]; k_out] |} |} ].
Proof. vm_compute. reflexivity. Qed.

(* --- 4. strength: the hypothesis "file names are plain" is on the file-name table only; a generator
   given a path with a directory part ("sub/x.txt", allowed by PathGenerator: Path(self.path)) is outside
   every theorem, and two such names can collide with nested positions: object 0 file "out/a/q" and
   object 1 (at out/a) file "q".                                                                      *)
Example u_nonplain_file_collides :
  option_map (map (fun e => (g_node e, g_path e)))
    (generated esc_fix seal_edges [ und 0 [(u_a, VRef 1)] []; und 1 [] [] ]
       [[(u_p, k_out ++ [47] ++ u_a ++ [47] ++ u_q)]; [(u_p, u_q)]] 0 u_jd)
  = Some [ (1%nat, {| p_root := 1; p_parts := [[74; 79; 66]; k_out; u_a; u_q] |});
           (0%nat, {| p_root := 1; p_parts := [[74; 79; 66]; k_out; u_a; u_q] |}) ].
Proof. vm_compute. reflexivity. Qed.
