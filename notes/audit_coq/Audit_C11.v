(* Audit_C11.v - audit examples for props/C11.v (non-vacuity, strength probes).
   New file; nothing here is used by the development.  No axioms. *)
From Coq Require Import List Bool Arith ZArith Lia.
From XV Require Import model.JobDir proofs.JobDir_lemmas.
Import ListNotations.

Definition grun_or (deps : nat -> list nat) (ms : list gmove) (g : gstate) : gstate :=
  match grun deps ms g with Some g' => g' | None => g end.

Definition tr_proc_finish (p : nat) : list label := [LEnd p true; LTouch p true; LRmPid p; LPUnlock p].
Definition tr_sched_pretest : list label := [LSubmit 0; LTest1 0; LPid 0; LTest2 0].

(* ------------------------------------------------------------------ crash WHILE a job runs, then ADOPTION *)
(* chain of two jobs.  Run 1: job 0 is launched, its pid file written, its process is inside the body;
   job 1 waits for its dependency; the scheduler dies.  Run 2: finds the pid file, the process is
   alive: SAdopt.  The scheduler dies AGAIN while it waits for the adopted process.  Run 3: adopts
   again, the process ends, marker found: DONE.  Then job 1 is launched; the scheduler dies while job
   1's process is in the body; run 4 adopts it (job 0 is found DONE by its marker). *)
Definition mv_pre : list gmove :=
  on 0 (tr_sched_launch 0) ++ on 0 (tr_proc_begin 0) ++ on 1 tr_sched_pretest.
Definition mv_adopt1 : list gmove :=
  [GDie 0] ++ on 0 [LSubmit 0; LTest1 0; LPid 0] ++ on 1 tr_sched_pretest.
Definition mv_adopt2 : list gmove :=
  [GDie 0] ++ on 1 tr_sched_pretest ++ on 0 [LSubmit 0; LTest1 0; LPid 0].
Definition mv_job0_ends : list gmove :=
  on 0 (tr_proc_finish 0) ++ on 0 [LAdoptEnd 0; LTest2 0].
Definition mv_job1 : list gmove :=
  on 1 ([LReady 0; LSLock 0; LTrunc 0; LWrite 0; LSpawn 0; LCreatePid 0; LWritePid 0; LSUnlock 0] ++ tr_proc_begin 0) ++
  [GDie 0] ++
  on 0 tr_sched_pretest ++ on 1 [LSubmit 0; LTest1 0; LPid 0] ++
  on 1 (tr_proc_finish 0) ++ on 1 [LAdoptEnd 0; LTest2 0].
Definition mv_all : list gmove := mv_pre ++ mv_adopt1 ++ mv_adopt2 ++ mv_job0_ends ++ mv_job1.

Definition g_mid1 : gstate := grun_or deps_chain2 (mv_pre ++ mv_adopt1) gfresh0.
Definition g_mid2 : gstate := grun_or deps_chain2 (mv_pre ++ mv_adopt1 ++ mv_adopt2) gfresh0.
Definition g_end : gstate := grun_or deps_chain2 mv_all gfresh0.

(* never read a gstate back from the VM (its normal form under the binder of `jd` explodes with every
   GDie): only first-order observations are computed *)
Definition gok (deps : nat -> list nat) (ms : list gmove) (g : gstate) : bool :=
  match grun deps ms g with Some _ => true | None => false end.
Lemma grun_some : forall deps ms g, gok deps ms g = true -> grun deps ms g = Some (grun_or deps ms g).
Proof. intros deps ms g H. unfold gok, grun_or in *. destruct (grun deps ms g); [reflexivity|discriminate]. Qed.

Lemma g_end_run : grun deps_chain2 mv_all gfresh0 = Some g_end.
Proof. apply grun_some. vm_compute. reflexivity. Qed.

(* the intermediate states are the interesting ones: scheduler in SAdopt, process in the body *)
Example audit_adoption_states :
  scheds (jd g_mid1 0) 0 = SAdopt 0 /\ procs (jd g_mid1 0) 0 = PBody /\ pidf (jd g_mid1 0) = PFSome 0 /\
  scheds (jd g_mid1 1) 0 = SReady /\
  scheds (jd g_mid2 0) 0 = SAdopt 0 /\ procs (jd g_mid2 0) 0 = PBody /\ launches (jd g_mid2 0) = 1.
Proof. vm_compute. repeat split. Qed.

Example audit_final_after_adoption :
  greachable1 deps_chain2 g_end /\ gfinal 2 g_end /\ no_abort g_end /\
  launches (jd g_end 0) = 1 /\ launches (jd g_end 1) = 1 /\
  body_runs (jd g_end 0) = 1 /\ body_runs (jd g_end 1) = 1 /\
  results 2 g_end = [(Some VDone, true); (Some VDone, true)] /\
  pidf (jd g_end 0) = PFNone /\ pidf (jd g_end 1) = PFNone /\ lock (jd g_end 0) = None /\ lock (jd g_end 1) = None.
Proof.
  split; [|split; [|split]].
  - exists gfresh0. split; [apply gfresh0_fresh|]. eapply grun_sound1; [|apply g_end_run]. vm_compute. reflexivity.
  - intros j Hj. destruct j as [|[|j]]; [eexists; vm_compute; reflexivity|eexists; vm_compute; reflexivity|lia].
  - intros j. destruct j as [|[|j]]; vm_compute; reflexivity.
  - vm_compute. repeat split.
Qed.

(* the theorems instantiated on it *)
Example audit_final_all_done_inst : forall j, j < 2 ->
  scheds (jd g_end j) 0 = SFinal VDone /\ done (jd g_end j) = true /\ body_runs (jd g_end j) = 1.
Proof.
  destruct audit_final_after_adoption as (Hr & Hf & Hn & _).
  exact (final_all_done deps_chain2 2 g_end Hr Hf Hn).
Qed.

(* ------------------------------------------------------------------ "adopted rather than relaunched" *)
(* No theorem of props/C11.v states this clause.  It is the internal invariant J2 of the single-slot
   system; exported form: while the pid file names a live process, the scheduler is nowhere on the
   launch path (between a negative aio_process() and Popen). *)
Lemma audit_adopted_not_relaunched : forall deps g, greachable1 deps g ->
  forall j p, pidf (jd g j) = PFSome p -> alive (procs (jd g j) p) = true ->
  sprelaunch (scheds (jd g j) 0) = false.
Proof.
  intros deps g Hr j p Hp Ha.
  destruct (greachable1_Inv1 deps g Hr j) as (_ & _ & H2 & _).
  destruct (sprelaunch (scheds (jd g j) 0)) eqn:E; [|reflexivity].
  rewrite (H2 E p Hp) in Ha. discriminate.
Qed.

(* ... but only when the pid file had been written.  Killed between Popen and the write of the pid
   file, the running job IS launched a second time (the second process waits for the lock and then
   skips the body): the development's own final_nonvacuous_chain2 has launches = 2.  Here: the orphan
   is inside its body, no pid file; the next run does not see it and goes down the launch path (it
   will Popen as soon as the lock is free): *)
Definition mv_orphan : list gmove :=
  on 0 [LSubmit 0; LTest1 0; LPid 0; LTest2 0; LReady 0; LSLock 0; LTrunc 0; LWrite 0; LSpawn 0] ++ [GDie 0] ++
  on 0 [LExec 0] ++ on 0 [LSubmit 0; LTest1 0; LPid 0; LTest2 0; LReady 0; LSLock 0; LTrunc 0; LWrite 0] ++
  on 0 [LCrash 0] ++ on 0 [LPLock 0; LPTest 0; LRmFailed 0; LBegin 0].
Definition mv_third : list gmove := on 0 [LSubmit 0; LTest1 0; LPid 0; LTest2 0; LReady 0].
Example audit_orphan_not_adopted :
  let g := grun_or deps_one mv_orphan gfresh0 in
  let g' := grun_or deps_one (mv_orphan ++ mv_third) gfresh0 in
  greachable1 deps_one g /\ procs (jd g 0) 0 = PBody /\ pidf (jd g 0) = PFNone /\
  (* a third run does not see the running job: it goes to the launch path *)
  greachable1 deps_one g' /\ scheds (jd g' 0) 0 = SLock /\ sprelaunch (scheds (jd g' 0) 0) = true /\
  procs (jd g' 0) 0 = PBody /\ launches (jd g' 0) = 1.
Proof.
  cbv zeta. split; [|split; [|split; [|split]]].
  - exists gfresh0. split; [apply gfresh0_fresh|].
    eapply grun_sound1 with (ms := mv_orphan); [vm_compute; reflexivity|apply grun_some; vm_compute; reflexivity].
  - vm_compute; reflexivity.
  - vm_compute; reflexivity.
  - exists gfresh0. split; [apply gfresh0_fresh|].
    eapply grun_sound1 with (ms := mv_orphan ++ mv_third); [vm_compute; reflexivity|apply grun_some; vm_compute; reflexivity].
  - vm_compute. repeat split.
Qed.

(* ------------------------------------------------------------------ STRENGTH probes *)
(* 1. jobs_survive is a statement about a record update: LCrash writes only `scheds` and `lock`.
      Survival of the job processes is built into the transition, i.e. assumed. *)
Lemma audit_crash_is_record_update : forall s st st', lstep (LCrash s) st = Some st' ->
  st' = set_sched (set_lock st (release (ASched s) (lock st))) s SDead.
Proof.
  intros s st st' H. unfold lstep, lstep_with in H.
  destruct (scheds st s); try discriminate; inversion H; reflexivity.
Qed.

(* 2. `aborts` counts EVERY kill of a job process, also of one that never touched anything (it had
      not even read the script).  So `no_abort` excludes runs in which any job process was killed, and
      the bound of C11_exactly_once_le is loose: here aborts = 1, body_runs = 1, the bound says <= 2.
      A scheduler death or an aborted start (LAbort, token not available) does not count. *)
Definition tr_loose : list label :=
  tr_sched_launch 0 ++ [LKill 0; LWaitEnd 0] ++ tr_sched_launch 0 ++ [LCrash 0] ++ tr_proc_begin 1 ++
  tr_proc_finish 1 ++ [LSubmit 0; LTest1 0; LPid 0; LTest2 0].
Example audit_aborts_counts_harmless_kill :
  exists st, run_labels tr_loose fresh = Some st /\ Forall lbl_single tr_loose /\
    aborts st = 1 /\ body_runs st = 1 /\ done st = true /\ scheds st 0 = SFinal VDone.
Proof. eexists. split; [vm_compute; reflexivity|]. split; [repeat constructor|]. vm_compute. repeat split. Qed.

Example audit_crash_and_labort_do_not_count :
  exists st, run_labels ([LSubmit 0; LTest1 0; LPid 0; LTest2 0; LReady 0; LSLock 0; LAbort 0; LReady 0; LSLock 0; LAbort 0;
                          LReady 0; LSLock 0; LCrash 0; LSubmit 0; LCrash 0]) fresh = Some st /\ aborts st = 0 /\ lock st = None.
Proof. eexists. split; [vm_compute; reflexivity|]. split; reflexivity. Qed.

(* 3. no_deadlock is absence of dead ends only: the retry loop of an aborted start consists of
      "progress" labels and never ends (a token that never becomes available).  The job lock is taken
      and released for ever; no body begins. *)
Fixpoint retry (n : nat) : list label :=
  match n with 0 => [] | S n' => [LReady 0; LSLock 0; LAbort 0] ++ retry n' end.
Lemma run_labels_app : forall a b st, run_labels (a ++ b) st =
  match run_labels a st with Some st1 => run_labels b st1 | None => None end.
Proof. induction a as [|l a IH]; intros b st; simpl; [reflexivity|]. destruct (lstep l st); [apply IH|reflexivity]. Qed.
Lemma retry_round : forall st, scheds st 0 = SReady -> lock st = None ->
  exists st', run_labels [LReady 0; LSLock 0; LAbort 0] st = Some st' /\ scheds st' 0 = SReady /\ lock st' = None /\
              body_runs st' = body_runs st /\ launches st' = launches st.
Proof.
  intros st Hs Hl. eexists. split.
  - unfold run_labels, lstep, lstep_with. rewrite Hs. simp. rewrite upd_same. rewrite Hl. simp. rewrite upd_same. reflexivity.
  - simp. rewrite upd_same. simpl. repeat split.
Qed.
Lemma retry_all : forall m st, scheds st 0 = SReady -> lock st = None ->
  exists st', run_labels (retry m) st = Some st' /\ scheds st' 0 = SReady /\ lock st' = None /\
              body_runs st' = body_runs st /\ launches st' = launches st.
Proof.
  induction m as [|m IH]; intros st Hs Hl.
  - exists st. simpl. auto.
  - destruct (retry_round st Hs Hl) as (st1 & R & A & B & C & D).
    destruct (IH st1 A B) as (st2 & R2 & A2 & B2 & C2 & D2).
    exists st2. change (retry (S m)) with ([LReady 0; LSLock 0; LAbort 0] ++ retry m).
    rewrite run_labels_app, R. repeat split; congruence.
Qed.
Lemma retry_progress : forall n, forallb progress_label (retry n) = true.
Proof. induction n; simpl; auto. Qed.
Lemma audit_livelock_of_progress_labels : forall n,
  forallb progress_label (retry n) = true /\
  exists st, run_labels (tr_sched_pretest ++ retry n) fresh = Some st /\
             scheds st 0 = SReady /\ body_runs st = 0 /\ launches st = 0 /\ lock st = None.
Proof.
  intros n. split; [apply retry_progress|].
  destruct (run_labels tr_sched_pretest fresh) as [s0|] eqn:E0; [|vm_compute in E0; discriminate].
  assert (Hs : scheds s0 0 = SReady) by (vm_compute in E0; inversion E0; reflexivity).
  assert (Hl : lock s0 = None) by (vm_compute in E0; inversion E0; reflexivity).
  assert (Hb : body_runs s0 = 0) by (vm_compute in E0; inversion E0; reflexivity).
  assert (Hla : launches s0 = 0) by (vm_compute in E0; inversion E0; reflexivity).
  destruct (retry_all n s0 Hs Hl) as (st' & R & A & B & C & D).
  exists st'. rewrite run_labels_app, E0. repeat split; congruence.
Qed.

(* 4. tokens: nothing in JobDir.v is a token.  The only trace of them is LAbort. *)

Print Assumptions audit_final_after_adoption.
Print Assumptions audit_final_all_done_inst.
Print Assumptions audit_adopted_not_relaunched.
Print Assumptions audit_orphan_not_adopted.
Print Assumptions audit_crash_is_record_update.
Print Assumptions audit_aborts_counts_harmless_kill.
Print Assumptions audit_livelock_of_progress_labels.
