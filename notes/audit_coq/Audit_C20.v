(* AUDIT (group B) - C20.  Extra non-vacuity witnesses and strength probes.  No axioms. *)
From Coq Require Import ZArith NArith List Bool Permutation.
From XV Require Import model.Deprecate proofs.Deprecate_lemmas.
From XV Require Import core.Value model.Hash model.Edits proofs.Hash_lemmas proofs.Neutral_lemmas.
From XV Require Import props.C20.
Import ListNotations.

(* ================= identifier half ================================================================
   props/C20.v has NO example for C20_deprecated_same_identifier / C20_class_tables_same_identifier.   *)
Section Ident.
Local Open Scope N_scope.
Definition Hid (b : bytes) : bytes := b.      (* a "hash" that lets us read what is hashed *)
Definition arg (nm : bytes) :=
  {| a_name := nm; a_ignored := false; a_gen := false; a_const := false; a_required := true; a_default := None |}.
Definition i_a : bytes := [97].  Definition i_b : bytes := [98].
Definition t_new : bytes := [110; 101; 119].  Definition t_old : bytes := [111; 108; 100].  Definition t_top : bytes := [116].

(* 0: New(a, b)   1: Old(New), deprecated: carries New's type identifier (arguments listed in another order)
   2: Old as it would be if deprecate() did NOT swap the identifier     3: Top(a: a value holding configs) *)
Definition cs_dep : classes :=
  [ {| c_tid := t_new; c_args := [arg i_a; arg i_b] |};
    {| c_tid := t_new; c_args := [arg i_b; arg i_a] |};
    {| c_tid := t_old; c_args := [arg i_b; arg i_a] |};
    {| c_tid := t_top; c_args := [arg i_a] |} ].
Definition ind c fs := {| n_cls := c; n_fields := fs; n_meta := None; n_task := None; n_pre := []; n_init := [] |}.
(* Top(a = [ {"b": X} ]) with X of class c: the deprecated class sits two containers below the root *)
Definition hp (c : nat) : heap := [ ind 3 [(i_a, VList [VDict [(i_b, VRef 1)]])]; ind c [(i_a, VInt 1); (i_b, VStr [120])] ].

Example i_hyp_sat : same_sig_class (nth 1 cs_dep (nth 0 cs_dep (Build_class [] []))) (nth 0 cs_dep (Build_class [] [])).
Proof.
  split; [reflexivity|]. split; [apply perm_swap|].
  simpl. repeat constructor; simpl; intuition discriminate.
Qed.

(* the theorem used: the root's identifier is the same whether the nested node is Old or New, and it is
   a genuine identifier (Ok, not the error that an exhausted fuel or a missing class would give)       *)
Example i_deprecated_same_identifier :
  raw_ident Hid cs_dep (hp 1) (fun _ => None) 20 0 = raw_ident Hid cs_dep (hp 0) (fun _ => None) 20 0 /\
  exists d, raw_ident Hid cs_dep (hp 1) (fun _ => None) 20 0 = Ok (d, false).
Proof.
  split.
  - change (hp 0) with (upd_nth (hp 1) 1 (with_cls (ind 1 [(i_a, VInt 1); (i_b, VStr [120])]) 0)).
    eapply C20_deprecated_same_identifier; try reflexivity. exact i_hyp_sat.
  - eexists. vm_compute. reflexivity.
Qed.

(* STRENGTH: the whole content of "a deprecated class yields the identifier of its replacement" sits in the
   HYPOTHESIS c_tid c = c_tid c' (same_sig_class).  There is no model of ObjectType.deprecate(); that it
   swaps the type identifier is only observed by the implementation-side oracle.  If it did not (mutation
   M5 of the notes), the model happily gives another identifier - the theorem just does not apply:      *)
Example i_without_swap_identifier_differs :
  raw_ident Hid cs_dep (hp 2) (fun _ => None) 20 0 <> raw_ident Hid cs_dep (hp 0) (fun _ => None) 20 0.
Proof. vm_compute. discriminate. Qed.

(* STRENGTH: both theorems are about raw_ident (no pre-tasks / init tasks); the job directory is named after
   the FULL identifier.  It follows (full_pure is a function of raw_pure of the node, of its pre-tasks and
   init tasks, and with_cls does not change the graph), but it is not stated.  Checked here on the example: *)
Example i_full_identifier_too :
  full_pure Hid cs_dep (hp 1) 20 0 = full_pure Hid cs_dep (hp 0) 20 0.
Proof. vm_compute. reflexivity. Qed.

(* STRENGTH: a deprecated class that declares an extra parameter of its own is outside the hypothesis
   (Permutation of the argument lists); the property text does not exclude it, the theorem does.          *)
End Ident.

(* ================= workspace half ================================================================= *)
Section Ws.
Local Open Scope Z_scope.

(* (a) two directories stored under two FORMER identifiers of the same configuration (class renamed twice:
   Older -> Old -> New, one job run under each name; or simply the same job run before and after an
   argument got a default).  Both recompute to the same new path n.  Only the one the file system lists
   first becomes reachable; the other is left unreachable under n and no theorem says anything about it:
   C20_fix_reaches excludes it by its "claimed by no other directory" hypothesis, C20_fix_link_total only
   promises that n EXISTS.  The property text says "every job directory stored under a former identifier".
   Which of the two results a re-submit finds depends on the glob order.                                *)
Definition c_k1 : key := mkkey 1 1 11.
Definition c_k2 : key := mkkey 1 1 12.
Definition c_n  : key := mkkey 1 1 20.
Definition c_d1 : data := mkdata 101 true (Some c_n) [1].
Definition c_d2 : data := mkdata 102 true (Some c_n) [1].
Definition c_w : ws := [(c_k1, Dir c_d1); (c_k2, Dir c_d2)].

Example c_two_claimants :
  wf c_w /\ active c_w c_k1 c_d1 c_n /\ active c_w c_k2 c_d2 c_n /\
  option_map (fun r => (fst r, d_mark (snd r))) (resolve (fix_ws true false [] [c_k1; c_k2] c_w) c_n) = Some (c_k1, 101) /\
  option_map (fun r => (fst r, d_mark (snd r))) (resolve (fix_ws true false [] [c_k2; c_k1] c_w) c_n) = Some (c_k2, 102) /\
  exists_ (fix_ws true false [] [c_k1; c_k2] c_w) c_n = true.
Proof.
  split; [repeat constructor; simpl; intuition discriminate|].
  split; [repeat split; simpl; discriminate|].
  split; [repeat split; simpl; discriminate|].
  repeat split.
Qed.

(* with --cleanup the first one is MOVED onto n and the second stays where it is, for ever (n is now a
   directory with different data: "warning only"); a later call changes nothing                        *)
Example c_two_claimants_cleanup :
  let w' := fix_ws true true [c_k1; c_k2] [c_k1; c_k2] c_w in
  lookup c_n w' = Some (Dir c_d1) /\ lookup c_k1 w' = None /\ lookup c_k2 w' = Some (Dir c_d2) /\
  fix_ws true true [c_n; c_k2] [c_n; c_k2] w' = w'.
Proof. repeat split. Qed.

(* (b) C20_fix_reaches with a new path that is a DANGLING link to somewhere else is not covered by its
   hypothesis (lookup n w = None \/ Some (Link k)); the code handles it (unlink, then link) - computed: *)
Definition g_k : key := mkkey 2 2 31.
Definition g_n : key := mkkey 2 3 32.
Definition g_w : ws := [(g_k, Dir (mkdata 7 true (Some g_n) [2])); (g_n, Link (mkkey 8 8 8))].
Example g_dangling_replaced :
  found (fix_ws true false [] [g_k] g_w) g_n = true /\ lookup g_n (fix_ws true false [] [g_k] g_w) = Some (Link g_k).
Proof. split; reflexivity. Qed.

(* (c) the recomputed identity d_recomp is an INPUT: every workspace theorem holds whatever it is, e.g. when
   two unrelated jobs are (wrongly) given each other's path.  Nothing in Coq links d_recomp to the identifier
   half above; the link is the correspondence run.                                                       *)
Example c_arbitrary_recomp :
  let w := [(c_k1, Dir (mkdata 1 true (Some c_k2) [1]))] in
  lookup c_k2 (fix_ws true true [c_k1] [c_k1] w) = Some (Dir (mkdata 1 true (Some c_k2) [1])).
Proof. reflexivity. Qed.

(* (d) `found` looks at the marker inside jobs/ only.  After --cleanup the directory has MOVED: every link
   that pointed at the old path from outside jobs/ (xp/<name>/jobs/<task>/<old id>, created by the scheduler,
   C16) dangles.  For `orphans` (C19) the moved directory is then referenced by no index: `orphans --clean`
   deletes the very data the repair promised to keep.  Not expressible here (the workspace has no xp/ part);
   on the C19 model, with the index still holding the old key:                                          *)
End Ws.

From XV Require Import model.Filter model.Clean proofs.Clean_lemmas.
Example d_cleanup_then_orphans_clean_deletes :
  (* before the move: job (t1, h1) is indexed -> kept *)
  orphans_clean {| w_jobs := [mkjob t1 h1 true false false false []];
                   w_xps := [ {| x_name := xa; x_jobs := [(t1, h1)]; x_bak := None |} ] |} true false = [] /\
  (* after `deprecated list --fix --cleanup` moved it to (t2, h2): the index entry dangles -> removed *)
  orphans_clean {| w_jobs := [mkjob t2 h2 true false false false []];
                   w_xps := [ {| x_name := xa; x_jobs := [(t1, h1)]; x_bak := None |} ] |} true false = [(t2, h2)].
Proof. split; reflexivity. Qed.
