(* AUDIT (group B) - C15.  Extra non-vacuity witnesses and strength probes.  No axioms. *)
From Coq Require Import ZArith List Bool String.
From XV Require Import model.Types proofs.Types_lemmas props.C15.
Import ListNotations.
Local Open Scope Z_scope.

Definition rq t := {| a_ty := t; a_required := true; a_generated := false; a_constant := false |}.
Definition opt t := {| a_ty := t; a_required := false; a_generated := false; a_constant := false |}.

(* 0: N   nxt: Param[Dict[str, List[N]]] (optional), a: Param[int] (required)
   1: LW  z: Param[int] (required)                      (a lightweight task)
   2: TK(Task)  c: Param[N]                                                       *)
Definition au_cl : classes :=
  [ {| c_parents := []; c_task := false; c_args := [opt (TDict TStr (TList (TObj 0))); rq TInt] |};
    {| c_parents := []; c_task := false; c_args := [rq TInt] |};
    {| c_parents := []; c_task := true;  c_args := [rq (TObj 0)] |} ].

Definition nd c fs pr ini := {| n_cls := c; n_fields := fs; n_pre := pr; n_init := ini; n_sealed := false |}.

(* task 0 -> node 1 -> {"k": [node 2]} -> node 2 -> {"k": [node 1]} (a cycle through dict values and lists);
   node 2 has pre-task 3, the task has init task 4; the required z of init task 4 is missing           *)
Definition au_heap (z4 : list (nat * value)) : heap :=
  [ nd 2 [(0%nat, VObj 1 0 false)] [] [4%nat];
    nd 0 [(0%nat, VDict [(VStr "k", VList [VObj 2 0 false])]); (1%nat, VInt 1)] [] [];
    nd 0 [(0%nat, VDict [(VStr "k", VList [VObj 1 0 false])]); (1%nat, VInt 2)] [3%nat] [];
    nd 1 [(0%nat, VInt 7)] [] [];
    nd 1 z4 [] [] ].

(* --- 1. C15_missing_rejected / C15_complete_accepted on a cyclic graph with dict/list nesting,
        a pre-task and an init task (the existing examples are acyclic, depth 2, no tasks) --------- *)
Example au_missing_rejected :
  reach objs au_cl (au_heap []) 0%nat 4%nat /\ lacks_required au_cl (au_heap []) 4%nat /\
  submit au_cl (au_heap []) [9%nat] 0%nat = ([9%nat], Rejected).
Proof.
  assert (R : reach objs au_cl (au_heap []) 0%nat 4%nat).
  { eapply reach_step; [apply reach_refl|]. eexists. split; [reflexivity|]. right. right. simpl. auto. }
  assert (L : lacks_required au_cl (au_heap []) 4%nat).
  { exists (nd 1 [] [] []), 0%nat, (rq TInt). repeat split; auto. }
  split; [exact R|]. split; [exact L|]. exact (C15_missing_rejected _ _ _ _ _ R L).
Qed.

(* the same graph completed is accepted (by computation, and the cycle does not exhaust the fuel) *)
Example au_complete_accepted :
  submit au_cl (au_heap [(0%nat, VInt 3)]) [9%nat] 0%nat = ([9%nat; 0%nat], Accepted).
Proof. vm_compute. reflexivity. Qed.

(* a value missing deep in the cycle (node 2 reached only through dict -> list) is found too *)
Example au_missing_in_cycle :
  submit au_cl
    [ nd 2 [(0%nat, VObj 1 0 false)] [] [];
      nd 0 [(0%nat, VDict [(VStr "k", VList [VObj 2 0 false])]); (1%nat, VInt 1)] [] [];
      nd 0 [(0%nat, VDict [(VStr "k", VList [VObj 1 0 false])])] [] [] ] [] 0%nat = ([], Rejected).
Proof. vm_compute. reflexivity. Qed.

(* --- 2. strength probes ---------------------------------------------------------------------- *)

(* (a) The property reads "stores a value of the declared type (after the documented coercions ...) or
   raises".  The theorems give: Ok v' -> has_type v' (sound), has_type v -> Ok v, coerced -> Ok.  NONE says
   that what is stored is the given value up to the documented coercions, and that is false in the model
   (as in the code): BoolType accepts anything, FloatType turns a bool into a float, PathType accepts the
   {"$type": "path"} dict.  An "off by one constructor" candidate is therefore not always rejected.       *)
Theorem au_stored_is_not_always_a_documented_coercion :
  exists cl t v v', validate cl t v = Ok v' /\ ~ coerced cl t v v'.
Proof.
  exists [], TBool, (VList [VStr "x"]), (VBool true). split; [reflexivity|].
  simpl. intros [H _]. exact H.
Qed.

Example au_bool_to_float : validate [] TFloat (VBool true) = Ok (VFloat (FInt 1)) /\
  ~ coerced [] TFloat (VBool true) (VFloat (FInt 1)).
Proof.
  split; [reflexivity|]. simpl. intros [[H _]|[z [H _]]]; [exact H|discriminate H].
Qed.

Example au_dict_of_bool_accepts_garbage :
  validate [] (TList (TDict TStr TBool)) (VList [VDict [(VStr "k", VDict [(VInt 1, VNone)])]])
  = Ok (VList [VDict [(VStr "k", VBool true)]]).
Proof. reflexivity. Qed.

(* (b) `submit` of the model returns the registry only: a rejected submit cannot change anything else BY
   TYPE.  In the code (core/objects.py l.1020-1030) `self.init_tasks = init_tasks` and
   `self.job = self.xpmtype.task(...)` are executed BEFORE validate_and_seal, so after a rejected submit the
   task object "has a job": it then passes ObjectType.validate's "must be submitted" test (the flag `sub`
   of VObj) although it was never registered, and it can never be submitted again ("already submitted").
   Observed on the real code (script in notes/AUDIT_B.md).  In the model the two situations are one value: *)
Example au_sub_flag_is_not_registration :
  validate au_cl (TObj 2) (VObj 0 2 true) = Ok (VObj 0 2 true) /\
  submit au_cl (au_heap []) [] 0%nat = ([], Rejected).
Proof. split; [reflexivity|vm_compute; reflexivity]. Qed.

(* (c) Optional is only modelled at the top of an annotation; a nested Optional has no runtime type at all
   (declare = None), so "for every type built from ... optionals" is covered at depth 0 only.            *)
Example au_nested_optional_undeclarable :
  declare (AList (AOpt AInt)) false = None /\
  declare (AOpt (AList AInt)) false = Some (opt (TList TInt)).
Proof. split; reflexivity. Qed.

(* (d) C15_readback / arg_has_type: None "reads back equal" only for a non-required parameter; a parameter
   with a default is non-required, so an explicit None silently replaces the default.                    *)
Example au_none_replaces_default :
  declare AInt true = Some (opt TInt) /\
  cfg_set [ {| c_parents := []; c_task := false; c_args := [opt TInt] |} ] (nd 0 [(0%nat, VInt 5)] [] []) 0 VNone
  = (nd 0 [(0%nat, VNone)] [] [], Stored).
Proof. split; reflexivity. Qed.
