(* AUDIT (group B) - C19.  Extra non-vacuity witnesses and strength probes.  No axioms. *)
From Coq Require Import NArith List Bool.
From XV Require Import model.Filter model.Clean proofs.Filter_lemmas proofs.Clean_lemmas props.C19.
Import ListNotations.
Local Open Scope N_scope.

Definition s_done : str := [68; 79; 78; 69].          (* "DONE" *)
Definition s_x : str := [120].   Definition s_y : str := [121].
Definition s_a : str := [97].    Definition s_b : str := [98].    Definition s_zz : str := [122; 122].

(* --- 1. strength: the "documented meaning" of a mixed and/or chain IS the left fold of the evaluator.
   `meaning` (model/Filter.v) folds /\ and \/ left to right "without precedence"; nothing in the
   project's documentation says so (cli/jobs.py docstring shows an all-`and` example only).  With the
   usual reading (`and` binds tighter) the filter   @state = "DONE" or x = "a" and x = "zz"   is true of
   a DONE job; the compiled filter - and `meaning` - say false.  C19_eval_meaning cannot see this: the
   specification was written after the implementation for the only case where they could differ.       *)
Definition pa := AEq VState (OConst s_done).
Definition pb := AEq (VTag s_x) (OConst s_a).
Definition pc := AEq (VTag s_x) (OConst s_zz).
Definition p_env : env := {| e_tags := [(s_x, s_a)]; e_state := Some Done; e_name := [116] |}.

Theorem au_mixed_chain_is_left_fold :
  let x := {| x_first := pa; x_rest := [(BOr, pb); (BAnd, pc)] |} in
  eval x p_env = false /\ ~ meaning x p_env /\
  (* the conventional reading  a or (b and c) *)
  (meaning_atom pa p_env \/ (meaning_atom pb p_env /\ meaning_atom pc p_env)).
Proof.
  split; [reflexivity|]. split.
  - intro H. apply C19_eval_meaning in H. discriminate H.
  - left. reflexivity.
Qed.

(* the single-operator theorems (C19_chain_and / C19_chain_or) do not help for mixed chains: there is
   a bracketing of the same three tests, read with the usual precedence, that disagrees                *)
Example au_two_readings_differ :
  (eval_atom pa p_env || (eval_atom pb p_env && eval_atom pc p_env)) = true /\
  ((eval_atom pa p_env || eval_atom pb p_env) && eval_atom pc p_env) = false.
Proof. split; reflexivity. Qed.

(* --- 2. strength: `=` between two look-ups that are both missing is TRUE (None == None), in the code and
   in `meaning_atom`.  `jobs clean --filter 'x = y' --perform` on a workspace where no job carries either
   tag removes every finished job.  Again spec = implementation by construction.                        *)
Definition j_plain t h d f p a : job :=
  {| j_task := t; j_hash := h; j_done := d; j_failed := f; j_pid := p; j_alive := a; j_tags := [] |}.
Definition w_notags : ws :=
  {| w_jobs := [ j_plain t1 h1 true false false false; j_plain t2 h2 false true false false;
                 j_plain t1 h3 false false true true ];
     w_xps := [] |}.
Example au_missing_equals_missing :
  clean w_notags {| o_experiment := []; o_filter := Some (single (AEq (VTag s_x) (OVar (VTag s_y)))); o_perform := true |}
  = [(t1, h1); (t2, h2)].
Proof. vm_compute. reflexivity. Qed.

(* --- 3. non-vacuity: C19_clean_exact_job / C19_never_running used as theorems on a workspace with an
   experiment restriction, a regular-expression filter on @name and a relaunched (live) job ----------- *)
Definition re_m_any : pattern := {| p_re := RCat (RChr 109) (RStar RAny); p_eol := true |}.   (* "m.*$" *)
Definition o_re : opts := {| o_experiment := xa; o_filter := Some (single (ARegex VName re_m_any)); o_perform := true |}.

Example au_clean_regex : clean ws_ex o_re = [(t1, h1)].
Proof. vm_compute. reflexivity. Qed.

Example au_never_running_used : forall j, In j (w_jobs ws_ex) -> In (job_key j) (clean ws_ex o_re) -> running j = false.
Proof. intros j Hj Hc. exact (C19_never_running ws_ex o_re j ws_ex_nodup Hj Hc). Qed.

Example au_live_job_is_selected_but_kept :
  let j := mkjob t1 h3 false true true true [(sx, sa)] in
  In j (w_jobs ws_ex) /\ selected ws_ex o_re j = true /\ running j = true /\ ~ In (job_key j) (clean ws_ex o_re).
Proof.
  split; [right; right; left; reflexivity|]. split; [reflexivity|]. split; [reflexivity|].
  vm_compute. intros [H|[]]. discriminate H.
Qed.

(* --- 4. strength: `running` is "live process AND no .done marker".  A job whose process is still alive
   but which has already written <script>.done (the runner writes the marker before it exits; a job that
   was re-submitted while done) IS removed; C19_never_running holds because of the definition.          *)
Example au_done_but_alive_is_removed :
  let j := mkjob t1 h1 true false true true [] in
  clean {| w_jobs := [j]; w_xps := [] |} {| o_experiment := []; o_filter := None; o_perform := true |} = [(t1, h1)]
  /\ running j = false /\ j_alive j = true.
Proof. repeat split. Qed.

(* --- 5. strength: `orphans --clean` looks at no job state at all.  A job that is RUNNING and is referenced
   by no index - e.g. submitted microseconds ago, link not yet made by the scheduler coroutine (C16), or
   the experiment was killed during __exit__ (Audit_C16.au_killed_in_exit_forgets_everything) - is removed.
   This is what the property says ("exactly the job directories referenced by no index"); the protection
   "never a running job" is stated for `jobs clean` only.                                               *)
Example au_orphans_removes_running :
  let j := mkjob t1 h3 false false true true [] in
  running j = true /\ orphans_clean {| w_jobs := [j]; w_xps := [ {| x_name := xa; x_jobs := []; x_bak := None |} ] |} true false = [(t1, h3)].
Proof. split; reflexivity. Qed.

(* --- 6. strength: an index entry is "referenced" by NAME; `stored` means "a job directory with that name
   exists".  The backup index protects a job only without --ignore-old (C19_orphans_exact has the flag):  *)
Example au_ignore_old_drops_backup_protection :
  let w := {| w_jobs := [mkjob t1 h1 true false false false []];
              w_xps := [ {| x_name := xa; x_jobs := []; x_bak := Some [(t1, h1)] |} ] |} in
  orphans_clean w true false = [] /\ orphans_clean w true true = [(t1, h1)].
Proof. split; reflexivity. Qed.

(* --- 7. regular expressions: the language theorem is about the modelled SUBSET (literal, ., concatenation,
   alternation, star, optional trailing $); a pattern outside it has no model at all.  Within the subset
   `~` is a PREFIX match: "m" matches "m.t" and "mm".                                                   *)
Example au_regex_prefix_match :
  re_match {| p_re := RChr 109; p_eol := false |} t1 = true /\ re_match {| p_re := RChr 109; p_eol := true |} t1 = false.
Proof. split; reflexivity. Qed.
