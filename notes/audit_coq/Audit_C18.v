(* AUDIT (group B) - C18.  Extra non-vacuity witnesses and strength probes.  No axioms. *)
From Coq Require Import ZArith List Bool Lia.
From XV Require Import model.Launcher proofs.Launcher_lemmas props.C18.
Import ListNotations.
Local Open Scope Z_scope.

Definition gpu m := {| g_mem := m; g_min := 0 |}.
Definition hostg (l : list Z) : host :=
  {| h_cuda := map gpu l; h_cpu := {| c_mem := 100; c_cores := 8 |}; h_prio := 5; h_maxdur := 0; h_mingpu := 0 |}.
Definition reqg (l : list Z) : req := {| r_gpus := l; r_cpu := dcpu; r_dur := 0 |}.

(* --- 1. what the property says about GPUs, stated without reference to list positions:
   "the host offers at least the requested number of GPUs, each with at least the requested memory" =
   the requested GPUs can be assigned to DISTINCT GPUs of the host that are large enough.              *)
Definition offers (r : req) (h : host) : Prop :=
  exists f : nat -> nat,
    (forall i j, (i < length (r_gpus r))%nat -> (j < length (r_gpus r))%nat -> f i = f j -> i = j) /\
    (forall i m, nth_error (r_gpus r) i = Some m ->
       exists g, nth_error (h_cuda h) (f i) = Some g /\ m <= g_mem g /\ g_min g <= m).

(* `satisfies` (Launcher_lemmas) is the positional transcription of zip(host.cuda, self.cuda_gpus);
   it implies `offers` (take f = identity), so C18_match_sound does give the property's "only if" ...    *)
Lemma satisfies_offers : forall r h, satisfies r h -> offers r h.
Proof.
  intros r h (_ & Hz & _). exists (fun i => i). split; [auto|]. exact Hz.
Qed.

Theorem au_match_sound_natural : forall r h s, match_simple r h = Some s -> offers r h.
Proof. intros r h s H. apply satisfies_offers. exact (C18_match_sound r h s H). Qed.

(* ... but the "iff" of C18_match_iff (manifest: "Some exactly on the hosts that satisfy the request, sound
   and complete") is completeness w.r.t. the POSITIONAL reading only.  A host with GPUs 8, 24, 24 offers
   two GPUs of 20 and is refused, because zip pairs the requests with the first two host entries.  The
   code never sorts host.cuda (HostSpecification is an attrs class: __post_init__ is never called - checked
   on the real code), so the answer even depends on the order in which the host lists its GPUs.           *)
Theorem au_match_incomplete_natural : exists r h,
  offers r h /\ c_mem (r_cpu r) <= c_mem (h_cpu h) /\ c_cores (r_cpu r) <= c_cores (h_cpu h) /\
  match_simple r h = None.
Proof.
  exists (reqg [20; 20]), (hostg [8; 24; 24]). split; [|split; [|split]]; try (cbn; lia); [|reflexivity].
  exists S. split; [intros; lia|].
  intros [|[|i]] m H; simpl in H; [| |destruct i; discriminate]; inversion H; subst;
    (eexists; split; [reflexivity|cbn; lia]).
Qed.

Example au_match_depends_on_gpu_order :
  match_simple (reqg [20; 20]) (hostg [24; 24; 8]) = Some 5 /\
  match_simple (reqg [20; 20]) (hostg [8; 24; 24]) = None.
Proof. split; reflexivity. Qed.

(* --- 2. non-vacuity of the union and `*` theorems (none in Launcher_lemmas) ----------------------- *)
Example au_union : exists k s, union_match [reqg [30]; reqg [20; 20]; reqg []] (hostg [24; 24; 8]) = Some (k, s) /\ k = 1%nat.
Proof. eexists. eexists. split; [vm_compute; reflexivity|reflexivity]. Qed.

Example au_union_sound_used : forall k s,
  union_match [reqg [30]; reqg [20; 20]; reqg []] (hostg [24; 24; 8]) = Some (k, s) ->
  exists r, nth_error [reqg [30]; reqg [20; 20]; reqg []] k = Some r /\ offers r (hostg [24; 24; 8]).
Proof.
  intros k s H. destruct (C18_union_sound _ _ _ _ H) as [r [Hr [Hs _]]].
  exists r. split; [exact Hr|apply satisfies_offers; exact Hs].
Qed.

Definition au_st : store := {| s_cpus := [{| c_mem := 5; c_cores := 2 |}]; s_lists := [[7; 3]] |}.
Definition au_o : robj := {| o_cpu := 0; o_list := 0; o_dur := 9 |}.
Example au_mul : valid au_st au_o /\
  view (fst (mul_op au_st au_o 3)) au_o = view au_st au_o /\
  r_gpus (view (fst (mul_op au_st au_o 3)) (snd (mul_op au_st au_o 3))) = [3; 3; 3; 7; 7; 7].
Proof. split; [split; cbn; lia|]. split; vm_compute; reflexivity. Qed.

(* --- 3. strength probes on the combinators ------------------------------------------------------ *)
(* (a) `* 0` and `* (-2)` do not mean "no GPU": they return one copy (range(count-1) is empty).  The
   "documented combination" of C18_mul_pure is mul_req, which has this behaviour by definition.        *)
Example au_mul_zero : r_gpus (mul_req (reqg [4]) 0) = [4] /\ r_gpus (mul_req (reqg [4]) (-2)) = [4].
Proof. split; reflexivity. Qed.

(* (b) `a * 1` IS a (no copy): the result aliases the operand.  C18_mul_pure is about the operand's view
   after the call, which is trivially unchanged; a later in-place `_add` on the result would change `a`. *)
Example au_mul_one_aliases : snd (mul_op au_st au_o 1) = au_o /\ fst (mul_op au_st au_o 1) = au_st.
Proof. split; reflexivity. Qed.

(* (c) the store model has cells for the CPU spec and the GPU list only; list elements are integers.
   In the code the elements are CudaSpecification OBJECTS, and `_add` / `__mul__` extend the copy with
   the operand's very objects (checked on the real code: `(a & b).cuda_gpus` contains `b.cuda_gpus[0]`
   itself, `a * 3` contains `a.cuda_gpus[0]` twice).  Nothing mutates a CudaSpecification today, so purity
   holds, but the model could not exhibit a violation coming from that sharing.                        *)

(* --- 4. uncovered clause: "a textual specification means the same as the equivalent programmatic one
   ... any whitespace".  sem_expr / sem_spec / sem_term are defined in model/Launcher.v and used by the
   correspondence run, but NO theorem of props/C18.v mentions them; the only facts available are
   definitional unfoldings such as:                                                                   *)
Remark au_sem_is_definitional : forall its c,
  sem_term (TCuda its (Some c)) = mul_req (sem_term (TCuda its None)) c.
Proof. reflexivity. Qed.
(* also: `cuda()` / `cpu()` do not parse in the real grammar (arpeggio NoMatch - checked), while the model's
   sem_term (TCuda [] None) / (TCpu []) answer a request: the model is more forgiving there.            *)
Example au_empty_specs_have_a_meaning :
  sem_term (TCuda [] None) = reqg [0] /\ r_cpu (sem_term (TCpu [])) = {| c_mem := 0; c_cores := 1 |}.
Proof. split; reflexivity. Qed.
