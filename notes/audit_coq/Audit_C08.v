(* Audit of C08 (read-only critique): non-vacuity / strength examples.
   Nothing here is used by the development; no axioms.                                   *)
From Coq Require Import ZArith List Bool Arith Lia.
From XV Require Import model.TokenFS proofs.TokenFS_lemmas.
Import ListNotations.
Open Scope Z_scope.

(* ---------------------------------------------------------------------------------------
   A1. heterogeneous requests, two processes: total 3, job 0 (proc 0) asks 2, job 1 (proc 1)
       asks 1, job 2 (proc 0) asks 2.  Jobs 0 and 1 are Running at once (held_sum = 3 = total)
       and the start of job 2 is refused with LockError.                                   *)
Definition CA := mkC 3 [0; 1; 0]%nat [2; 1; 2].
Definition trA := [Start 0; Start 1; Acquire 0 0; WriteF 0; Launch 0;
                   Acquire 1 1; WriteF 1; Launch 1]%nat.
Definition sA := final VL CA trA.

Lemma CA_nonneg : forall j, 0 <= c_cnt CA j.
Proof. intros j. destruct j as [|[|[|[|j]]]]; simpl; lia. Qed.

Definition running_req (C : cfg) (s : state) : Z :=
  sumf (c_n C) (fun j => match j_ph (s_jobs s j) with Running => c_cnt C j | _ => 0 end).

Definition is_lockerror (o : option (state * result)) : bool :=
  match o with Some (_, RLockError) => true | _ => false end.

Example audit_hetero_two_procs :
  reachable VL CA sA /\
  j_ph (s_jobs sA 0) = Running /\ j_ph (s_jobs sA 1) = Running /\ j_ph (s_jobs sA 2) = Idle /\
  c_owner CA 0%nat <> c_owner CA 1%nat /\
  held_sum CA sA = 3 /\ written_sum CA sA = 3 /\ running_req CA sA = 3 /\
  (* the stale in-memory value of process 0: it still believes 1 is free *)
  p_avail (s_procs sA 0) = 1 /\ p_avail (s_procs sA 1) = 0 /\
  (* third job (request 2 <= total 3) is refused *)
  is_lockerror (step VL CA sA (Acquire 0 2)) = true.
Proof.
  split; [apply final_reachable; vm_compute; reflexivity|].
  repeat split; try (vm_compute; reflexivity). vm_compute. discriminate.
Qed.

(* the theorem instantiated on that state: the bound is tight (3 <= 3), not 0 <= 3 *)
Example audit_running_sum_tight : running_req CA sA <= c_total CA /\ running_req CA sA = c_total CA.
Proof.
  split.
  - apply (running_sum VL CA sA CA_nonneg); [simpl; lia|].
    apply final_reachable; vm_compute; reflexivity.
  - vm_compute; reflexivity.
Qed.

(* same on the repaired code *)
Example audit_hetero_VF :
  reachable VF CA (final VF CA trA) /\ held_sum CA (final VF CA trA) = 3 /\
  is_lockerror (step VF CA (final VF CA trA) (Acquire 0 2)) = true.
Proof.
  split; [apply final_reachable; vm_compute; reflexivity|]. split; vm_compute; reflexivity.
Qed.

(* ---------------------------------------------------------------------------------------
   A2. c_n only truncates the sums, it does not hide holdings: nothing beyond c_n is ever on
       disk or Running (follows from the existing invariant; stated here because the C08
       theorems do not say it).                                                            *)
Lemma audit_out_of_range_absent : forall V C s k,
  reachable V C s -> (c_n C <= k)%nat -> s_disk s k = Absent.
Proof.
  intros V C s k R Hk. destruct (s_disk s k) eqn:D; auto; exfalso;
    assert (X : s_disk s k <> Absent) by congruence;
    destruct (a_disk _ _ (reach_invA V C s R) k X) as [Lt _]; lia.
Qed.

Lemma audit_running_in_range : forall V C s k,
  reachable V C s -> j_ph (s_jobs s k) = Holding \/ j_ph (s_jobs s k) = Running -> (k < c_n C)%nat.
Proof.
  intros V C s k R H. assert (D := running_has_file V C s k R H).
  destruct (Nat.lt_ge_cases k (c_n C)); auto.
  rewrite (audit_out_of_range_absent V C s k R H0) in D. discriminate.
Qed.

(* ---------------------------------------------------------------------------------------
   A3. watcher_not_early: the guard has teeth.  Scheduler 0 killed while job 0 runs, process
       1 has a watcher for file 0: Fire is DISABLED while the job runs, ENABLED (and deletes
       a present file) once the job was killed leaving a stale pid file.                   *)
Example audit_fire_disabled_while_running :
  In 0%nat (p_wat (s_procs (final VF C1 tr5) 1)) /\
  j_ph (s_jobs (final VF C1 tr5) 0) = Running /\
  step VF C1 (final VF C1 tr5) (Fire 1 0) = None.
Proof. repeat split; vm_compute; auto. Qed.

Example audit_fire_enabled_after_end :
  exists s', step VF C1 (final VF C1 tr7) (Fire 1 0) = Some (s', ROk) /\
             s_disk (final VF C1 tr7) 0 = Written 1 /\ s_disk s' 0 = Absent.
Proof. eexists. split; [vm_compute; reflexivity|]. split; vm_compute; reflexivity. Qed.

(* A3'. the first two conjuncts of C08_watcher_not_early do not need reachability at all:
        they are the enabling guard of Fire read back.                                     *)
Lemma audit_watcher_guard_is_tautology : forall V C s p n s' r,
  step V C s (Fire p n) = Some (s', r) ->
  j_lock (s_jobs s n) = false /\ (j_pid (s_jobs s n) = false \/ j_ph (s_jobs s n) <> Running).
Proof.
  intros V C s p n s' r H. simpl in H.
  destruct (p_alive (s_procs s p) && mem n (p_wat (s_procs s p))); simpl in H; try discriminate.
  destruct (watcher_can_finish (s_jobs s n)) eqn:W; try discriminate.
  unfold watcher_can_finish in W. apply andb_true_iff in W. destruct W as [W1 W2].
  split; [destruct (j_lock (s_jobs s n)); simpl in W1; congruence|].
  destruct (j_pid (s_jobs s n)); auto. right. simpl in W2.
  destruct (j_ph (s_jobs s n)); simpl in W2; congruence.
Qed.

(* ---------------------------------------------------------------------------------------
   A4. the model cannot express a scheduler dying between open() and write() of its token
       file (properties.jsonl C09: "crashes between taking a token and recording it"):
       Kill of the creating process is not a step.                                         *)
Example audit_no_kill_in_create_window :
  let s := final VF CA [Start 0; Acquire 0 0]%nat in
  s_disk s 0 = Empty /\ s_lock s = Some 0%nat /\ step VF CA s (Kill 0) = None.
Proof. repeat split; vm_compute; reflexivity. Qed.

(* ... and a job never runs twice: no step of step1 produces Idle except Release from Holding,
   so Done is final (by inspection of TokenFS.v l.162-327).  A watcher thread that outlives the
   run it was started for can therefore never meet a later run of the same name: here the job
   has finished and was released, process 1 still has its watcher pending, and the job cannot be
   acquired again.                                                                          *)
Definition trD := [Start 0; Start 1; Acquire 0 0; WriteF 0; Deliver 1 1; Launch 0; JobEnds 0 0; Release 0 0]%nat.
Example audit_no_rerun :
  let s := final VF C1 trD in
  j_ph (s_jobs s 0) = Done /\ In 0%nat (p_wat (s_procs s 1)) /\ j_ok (s_jobs s 0) = true /\ step VF C1 s (Acquire 0 0) = None.
Proof. repeat split; vm_compute; auto. Qed.

(* ---------------------------------------------------------------------------------------
   A5. process-level token, heterogeneous: total 3, requests 2, 1, 2; third refused.        *)
Definition qcnt := fun j : nat => nth j [2; 1; 2] 1.
Definition qt1 := mkP 1 (upd (fun _ => false) 0%nat true).
Definition qt2 := mkP 0 (upd (upd (fun _ => false) 0%nat true) 1%nat true).
Example audit_inproc_hetero :
  preachable 3 3 qcnt qt2 /\ pheld_sum 3 qcnt qt2 = 3 /\ pt_avail qt2 = 0 /\ pstep 3 qcnt qt2 (PAcquire 2) = Some (qt2, RLockError).
Proof.
  split; [|repeat split; reflexivity].
  apply (PR_step 3 3 qcnt qt1 (PAcquire 1) qt2 ROk); [|reflexivity].
  apply (PR_step 3 3 qcnt (pinit 3) (PAcquire 0) qt1 ROk); [apply PR_init|reflexivity].
Qed.

Print Assumptions audit_hetero_two_procs.
Print Assumptions audit_running_sum_tight.
Print Assumptions audit_running_in_range.
Print Assumptions audit_watcher_guard_is_tautology.
Print Assumptions audit_no_kill_in_create_window.
Print Assumptions audit_no_rerun.
Print Assumptions audit_inproc_hetero.
