(* Audit of C07 (group A): non-vacuity examples, strength probes, and the closed form of the
   containment statement that props/C07.v leaves to the reader (audit_results_closed below).
   Nothing here is used by the property theorems.  No axioms.                                  *)
From Coq Require Import ZArith List Bool Arith Lia.
From XV Require Import model.Sched proofs.Sched_lemmas proofs.Sched_inv proofs.Sched_thm proofs.Sched_live.
Import ListNotations.
Open Scope Z_scope.

(* written against the scheduler model WITH adoption (HEAD 8520ec3: j_adopt, adopted W j) *)
Definition mkjob (d : list dep) (c : Z) (m : bool) (i : nat) : jobspec := Build_jobspec d c m i None.

(* 0 fails; 1 <- 0; 2 <- 1 (transitive dependent); 3 <- 0 with a pre-existing success marker;
   4 <- 3 (behind the marker: must still run) ; 5 independent *)
Definition W_chain : workload :=
  {| w_jobs := [ mkjob [] 1 false 0; mkjob [DJob 0] 0 false 1; mkjob [DJob 1] 0 false 2;
                 mkjob [DJob 0] 0 true 3; mkjob [DJob 3] 0 false 4; mkjob [] 0 false 5 ]; w_tokens := [] |}.
Definition X_chain := [XSubmit 0; XSubmit 1; XSubmit 2; XSubmit 3; XSubmit 4; XSubmit 5;
                       XDeliver 0; XDeliver 0; XDeliver 0; XDeliver 0; XDeliver 1; XDeliver 2; XDeliver 3;
                       XDeliver 4; XDeliver 4; XDeliver 4; XDeliver 4;
                       XDeliver 5; XDeliver 5; XDeliver 5; XDeliver 5; XWait]%nat.
Definition L_chain := expand W_chain all_fixed (init W_chain) X_chain.
Definition sC := final W_chain all_fixed L_chain.

Lemma posreq_W_chain : posreq W_chain.
Proof.
  intros j t c H. do 6 (destruct j as [|j]; [simpl in H; repeat (destruct H as [H|H]; [discriminate|]); contradiction|]).
  unfold deps, spec in H. simpl in H. destruct j; simpl in H; contradiction.
Qed.

Example ex_chain_end :
  wf W_chain = true /\ reachable W_chain sC /\ queue sC = [] /\ has_pending sC W_chain = false /\
  pc (jobs sC 0) = PReturned ERROR /\ launches (jobs sC 0) = 1%nat /\ fdep (jobs sC 0) = false /\
  pc (jobs sC 1) = PReturned ERROR /\ launches (jobs sC 1) = 0%nat /\ fdep (jobs sC 1) = true /\
  pc (jobs sC 2) = PReturned ERROR /\ launches (jobs sC 2) = 0%nat /\ fdep (jobs sC 2) = true /\
  pc (jobs sC 3) = PReturned DONE /\ launches (jobs sC 3) = 0%nat /\
  pc (jobs sC 4) = PReturned DONE /\ launches (jobs sC 4) = 1%nat /\
  pc (jobs sC 5) = PReturned DONE /\ launches (jobs sC 5) = 1%nat /\
  wst sC = WRaised /\ failed sC = [0; 1; 2]%nat.
Proof.
  split; [reflexivity|]. split; [apply reachable_final; vm_compute; reflexivity|].
  repeat split; vm_compute; reflexivity.
Qed.

(* fanc through fa_step (the existing example only uses fa_direct): 2 has the failed ancestor 0
   through 1, which has no marker *)
Example ex_fanc_transitive : fanc W_chain sC 2 /\ j_marker (spec W_chain 2) = false.
Proof.
  split; [|reflexivity].
  apply fa_step with (m := 1%nat); [vm_compute; auto|reflexivity|reflexivity|].
  apply fa_direct with (k := 0%nat); [vm_compute; auto|vm_compute; reflexivity].
Qed.

(* the reading of "unless it had already succeeded in an earlier run": a marker cuts the chain.
   4 is NOT an instance of the theorem through 3 (fa_step needs marker 3 = false), and indeed runs. *)
Example ex_marker_cuts : ~ fanc W_chain sC 4.
Proof.
  intros F. inversion F as [j k D E|j m D M AD F']; subst.
  - vm_compute in D. destruct D as [D|[]]. inversion D; subst. vm_compute in E. discriminate.
  - vm_compute in D. destruct D as [D|[]]. inversion D; subst. vm_compute in M. discriminate.
Qed.

(* independent_unaffected on a job WITH job dependencies (4 <- 3) *)
Example ex_independent_use : launches (jobs sC 4) = 1%nat /\ DONE = code_state (j_code (spec W_chain 4)).
Proof.
  destruct ex_chain_end as (WF & R & _ & _ & _ & _ & _ & _ & _ & _ & _ & _ & _ & P3 & _ & P4 & _).
  apply (independent_unaffected W_chain sC 4 DONE WF R P4 eq_refl eq_refl).
  intros k D. vm_compute in D. destruct D as [D|[]]. inversion D; subst.
  split; [exact (proj1 (final_truthful W_chain sC 3 DONE WF R P3))|reflexivity].
Qed.

(* ------------------------------------------------------------------ closed form *)
(* props/C07.v states containment relative to the CURRENT states of the direct dependencies
   (`fanc W s j`, `forall k, In (DJob k) (deps W j) -> st (jobs s k) = DONE`) and only for jobs that
   have returned.  The sentence of the property ("every job that transitively depends on it ...
   ends in error, every job that does not depend on it still runs to completion") is about the end
   of the run and about the workload.  It follows from C06_no_hang + the C07 theorems; here it is,
   as one statement whose hypotheses mention only the workload and quiescence:

   okjob W j : j ends DONE  - its marker pre-exists, or its exit code is 0 and every job it depends
               on ends DONE;
   kojob W j : j ends ERROR - no marker and (its exit code is not 0, or some job it depends on ends
               ERROR).                                                                          *)
Inductive okjob (W : workload) : nat -> Prop :=
  | ok_marker : forall j, j_marker (spec W j) = true -> okjob W j
  | ok_run : forall j, j_code (spec W j) = 0 -> (forall k, In (DJob k) (deps W j) -> okjob W k) -> okjob W j.
Inductive kojob (W : workload) : nat -> Prop :=
  | ko_own : forall j, j_marker (spec W j) = false -> j_code (spec W j) <> 0 -> kojob W j
  | ko_dep : forall j k, j_marker (spec W j) = false -> In (DJob k) (deps W j) -> kojob W k -> kojob W j.
(* cancelled: some dependency ends ERROR *)
Definition cancelled (W : workload) (j : nat) : Prop :=
  j_marker (spec W j) = false /\ exists k, In (DJob k) (deps W j) /\ kojob W k.

Section Closed.
  Variables (W : workload) (s : state).
  Hypothesis WF : wf W = true.
  Hypothesis PQ : posreq W.
  Hypothesis R : reachable W s.
  Hypothesis Q : queue s = [].
  Hypothesis HP : has_pending s W = false.
  (* no process of an earlier run is still running at submission (see ex_adopted_error_then_done below
     for what happens otherwise) *)
  Hypothesis NA : forall j, adopted W j = None.

  Let NH := proj1 (no_hang WF PQ R Q HP).
  Let I := reachable_inv W s WF R.

  Lemma ok_done : forall j, okjob W j -> spawned (pc (jobs s j)) = true -> pc (jobs s j) = PReturned DONE.
  Proof.
    induction 1 as [j M|j C D IH]; intros S; destruct (NH j S) as (r & P);
      pose proof (final_truthful W s j r WF R P) as FT; rewrite (NA j) in FT; destruct FT as (_ & (_ & B) & _).
    - rewrite (B (or_introl M)) in P. exact P.
    - destruct (j_marker (spec W j)) eqn:M.
      + rewrite (B (or_introl eq_refl)) in P. exact P.
      + assert (DD : forall k, In (DJob k) (deps W j) -> st (jobs s k) = DONE /\ adopted W k = None).
        { intros k Hk. pose proof (IH k Hk (I_sub I j k S Hk)) as Pk.
          split; [exact (proj1 (final_truthful W s k DONE WF R Pk))|apply NA]. }
        destruct (independent_unaffected W s j r WF R P M (NA j) DD) as (_ & E).
        rewrite E in P. unfold code_state in P. rewrite C in P. exact P.
  Qed.

  Lemma ko_error : forall j, kojob W j -> spawned (pc (jobs s j)) = true -> pc (jobs s j) = PReturned ERROR.
  Proof.
    induction 1 as [j M C|j k M D K IH]; intros S; destruct (NH j S) as (r & P).
    - pose proof (final_truthful W s j r WF R P) as FT; rewrite (NA j) in FT; destruct FT as (_ & (A & _) & N).
      assert (X : r <> DONE).
      { intros E. destruct (A E) as [Y|(_ & Y)]; [rewrite M in Y; discriminate|contradiction]. }
      rewrite (N X) in P. exact P.
    - pose proof (IH (I_sub I j k S D)) as Pk.
      pose proof (returned_error_fanc W s j k WF R D Pk) as F.
      destruct (failed_ancestor_not_launched W s j r WF R F M (NA j)) as (_ & X).
      destruct (X P) as (E & _). rewrite E in P. exact P.
  Qed.

  (* the results of the run, at its end, are a function of the workload alone: whatever the
     schedule, the submission order, the moment at which failures arrive *)
  Theorem audit_results_closed : forall j, spawned (pc (jobs s j)) = true ->
    (okjob W j -> pc (jobs s j) = PReturned DONE) /\
    (kojob W j -> pc (jobs s j) = PReturned ERROR) /\
    (* not affected: every dependency succeeds => launched exactly once, result = own exit code *)
    (j_marker (spec W j) = false -> (forall k, In (DJob k) (deps W j) -> okjob W k) ->
       launches (jobs s j) = 1%nat /\ pc (jobs s j) = PReturned (code_state (j_code (spec W j)))) /\
    (* cancelled: never launched, ERROR, failure_status = DEPENDENCY *)
    (cancelled W j -> launches (jobs s j) = 0%nat /\ pc (jobs s j) = PReturned ERROR /\ fdep (jobs s j) = true).
  Proof.
    intros j S. split; [intros H; apply ok_done; auto|]. split; [intros H; apply ko_error; auto|]. split.
    - intros M D. destruct (NH j S) as (r & P).
      assert (DD : forall k, In (DJob k) (deps W j) -> st (jobs s k) = DONE /\ adopted W k = None).
      { intros k Hk. pose proof (ok_done k (D k Hk) (I_sub I j k S Hk)) as Pk.
        split; [exact (proj1 (final_truthful W s k DONE WF R Pk))|apply NA]. }
      destruct (independent_unaffected W s j r WF R P M (NA j) DD) as (L & E). split; [exact L|]. rewrite <- E. exact P.
    - intros (M & k & D & K).
      pose proof (ko_error k K (I_sub I j k S D)) as Pk.
      pose proof (returned_error_fanc W s j k WF R D Pk) as F.
      destruct (NH j S) as (r & P).
      destruct (failed_ancestor_not_launched W s j r WF R F M (NA j)) as (L & X).
      destruct (X P) as (E & FD). rewrite E in P. auto.
  Qed.

  (* every job of a well-formed workload is classified: the two cases are exhaustive *)
  Theorem audit_every_job_classified : forall j, okjob W j \/ kojob W j.
  Proof.
    intros j. induction j as [j IH] using lt_wf_ind.
    destruct (j_marker (spec W j)) eqn:M; [left; apply ok_marker; exact M|].
    assert (A : forall l, (forall k, In (DJob k) l -> (k < j)%nat) ->
                (forall k, In (DJob k) l -> okjob W k) \/ (exists k, In (DJob k) l /\ kojob W k)).
    { induction l as [|d l IHl]; intros Hl; [left; intros k []|].
      destruct IHl as [Al|(k & Hk & Kk)]; [intros k Hk; apply Hl; right; exact Hk| |right; exists k; split; [right|]; auto].
      destruct d as [k|t c].
      - destruct (IH k (Hl k (or_introl eq_refl))) as [O|K].
        + left. intros k' [E|Hk']; [inversion E; subst; exact O|apply Al; exact Hk'].
        + right. exists k. split; [left; reflexivity|exact K].
      - left. intros k' [E|Hk']; [discriminate|apply Al; exact Hk']. }
    destruct (A (deps W j) (fun k Hk => wf_lt W j k WF Hk)) as [O|(k & Hk & K)].
    - destruct (Z.eq_dec (j_code (spec W j)) 0) as [C|C]; [left; apply ok_run; auto|right; apply ko_own; auto].
    - right. apply ko_dep with (k := k); auto.
  Qed.
End Closed.

(* the closed theorem has a non-trivial instance: the end of the run of W_chain *)
Lemma na_W_chain : forall j, adopted W_chain j = None.
Proof.
  intros j. do 6 (destruct j as [|j]; [reflexivity|]). unfold adopted, spec. simpl. destruct j; reflexivity.
Qed.

Example ex_closed_instance :
  pc (jobs sC 2) = PReturned ERROR /\ launches (jobs sC 2) = 0%nat /\
  pc (jobs sC 4) = PReturned DONE /\ launches (jobs sC 4) = 1%nat.
Proof.
  destruct ex_chain_end as (WF & R & Q & HP & _).
  assert (S2 : spawned (pc (jobs sC 2)) = true) by (vm_compute; reflexivity).
  assert (S4 : spawned (pc (jobs sC 4)) = true) by (vm_compute; reflexivity).
  destruct (audit_results_closed W_chain sC WF posreq_W_chain R Q HP na_W_chain 2 S2) as (_ & _ & _ & C2).
  destruct (audit_results_closed W_chain sC WF posreq_W_chain R Q HP na_W_chain 4 S4) as (_ & _ & U4 & _).
  assert (K0 : kojob W_chain 0) by (apply ko_own; [reflexivity|vm_compute; discriminate]).
  assert (K1 : kojob W_chain 1) by (apply ko_dep with (k := 0%nat); [reflexivity|vm_compute; auto|exact K0]).
  destruct C2 as (L2 & P2 & _).
  { split; [reflexivity|]. exists 1%nat. split; [vm_compute; auto|exact K1]. }
  destruct U4 as (L4 & P4); [reflexivity| |].
  { intros k D. vm_compute in D. destruct D as [D|[]]. inversion D; subst. apply ok_marker. reflexivity. }
  repeat split; auto.
Qed.

(* ------------------------------------------------------------------ STRENGTH probes *)
(* 1. C07_exit_reports is about the step at which wait() completes.  A wait() called BEFORE the
   failing job is submitted returns normally; the later failure is only reported by a later wait()
   / __exit__.  (The model has LWait only; `with experiment(...)` calls wait() in __exit__.)      *)
(* 2. `fanc` and the hypothesis of C07_independent_unaffected are statements about the state s; they
   quantify over DIRECT dependencies in the state they are evaluated in.  Nothing in props/C07.v
   says that a job with no failing ancestor is ever launched, unless combined with C06_no_hang as
   above.                                                                                       *)
(* 3. "depends on" = `deps W j`, the registered job.dependencies.  A dependent of the FIRST (failed)
   attempt of a job that is submitted again stays cancelled even if the second attempt succeeds:  *)
Definition W_re : workload :=
  {| w_jobs := [ mkjob [] 1 false 0; mkjob [DJob 0] 0 false 1; mkjob [] 0 false 0 (* re-submission of 0 *) ];
     w_tokens := [] |}.
Example ex_dependent_of_first_attempt :
  let s := final W_re all_fixed (expand W_re all_fixed (init W_re)
             [XSubmit 0; XSubmit 1; XDeliver 0; XDeliver 0; XDeliver 0; XDeliver 0; XDeliver 1;
              XSubmit 2; XDeliver 2; XDeliver 2; XDeliver 2; XDeliver 2]%nat) in
  wf W_re = true /\ reachable W_re s /\ queue s = [] /\ has_pending s W_re = false /\
  pc (jobs s 0) = PReturned ERROR /\ pc (jobs s 2) = PReturned DONE /\
  pc (jobs s 1) = PReturned ERROR /\ launches (jobs s 1) = 0%nat.
Proof.
  cbv zeta. split; [reflexivity|]. split; [apply reachable_final; vm_compute; reflexivity|].
  repeat split; vm_compute; reflexivity.
Qed.

(* 4. ADOPTION: ERROR is not absorbing, and a dependent is cancelled although every job it depends on
   ends DONE.  Job 1's process was left running by an earlier scheduler (adopted; it will exit 0);
   its input job 0 fails now.  While the adopted process runs, `dependencychanged` marks job 1 ERROR
   (it only tests `finished()`, and RUNNING is not finished); job 2, submitted in that window, sees
   FAIL and is cancelled for good; then the adopted process ends and job 1 becomes DONE.
   At the end: job 1 DONE (after having shown ERROR), job 2 ERROR/DEPENDENCY with cur = [OK].
   The committed theorems carve this out by hypothesis (`adopted W j = None`,
   `adopted W k = None` for the dependencies, `stab` requires past_loop for ERROR) and the oracle
   accepts it (notes/C06.md "literal behaviour of the code ... accepted by the oracle").  It
   contradicts both "finished states are absorbing" (C06) and "ends in error" for job 1 /
   containment for job 2 (C07); it should be an open finding, not an accepted behaviour.         *)
Definition W_ad : workload :=
  {| w_jobs := [ Build_jobspec [] 1 false 0 None;
                 Build_jobspec [DJob 0] 0 false 1 (Some (Some 0, true));
                 Build_jobspec [DJob 1] 0 false 2 None ]; w_tokens := [] |}.
Definition X_ad1 := [XSubmit 0; XSubmit 1; XDeliver 0; XDeliver 0; XDeliver 0; XDeliver 0]%nat.
Definition X_ad2 := X_ad1 ++ [XSubmit 2; XDeliver 1; XDeliver 1; XDeliver 2; XWait]%nat.
Example ex_adopted_error_then_done :
  let s1 := final W_ad all_fixed (expand W_ad all_fixed (init W_ad) X_ad1) in
  let s2 := final W_ad all_fixed (expand W_ad all_fixed (init W_ad) X_ad2) in
  wf W_ad = true /\ reachable W_ad s1 /\ reachable W_ad s2 /\
  st (jobs s1 1) = ERROR /\ pc (jobs s1 1) = PExt AAdopt /\
  pc (jobs s2 1) = PReturned DONE /\ launches (jobs s2 1) = 0%nat /\
  pc (jobs s2 2) = PReturned ERROR /\ fdep (jobs s2 2) = true /\ launches (jobs s2 2) = 0%nat /\
  cur (jobs s2 2) = [DOK] /\ (forall k, In (DJob k) (deps W_ad 2) -> st (jobs s2 k) = DONE) /\
  queue s2 = [] /\ has_pending s2 W_ad = false /\ wst s2 = WRaised.
Proof.
  cbv zeta. split; [reflexivity|]. split; [apply reachable_final; vm_compute; reflexivity|].
  split; [apply reachable_final; vm_compute; reflexivity|].
  repeat split; try (vm_compute; reflexivity).
  intros k D. vm_compute in D. destruct D as [D|[]]. inversion D; subst. vm_compute. reflexivity.
Qed.

Print Assumptions ex_chain_end.
Print Assumptions audit_results_closed.
Print Assumptions audit_every_job_classified.
Print Assumptions ex_closed_instance.
Print Assumptions ex_dependent_of_first_attempt.
Print Assumptions ex_adopted_error_then_done.
