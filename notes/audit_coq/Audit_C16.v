(* AUDIT (group B) - C16.  Extra non-vacuity witnesses and strength probes.  No axioms. *)
From Coq Require Import ZArith List Bool.
From XV Require Import model.XpIndex proofs.XpIndex_lemmas props.C16.
Import ListNotations.
Local Open Scope Z_scope.

(* --- 1. the theorems on a history with three processes, a kill in the middle of the __enter__ move
        loop, a kill in the middle of __exit__'s rmtree, a blocked contender and a re-submitted job ---- *)
Definition au_tr : list event :=
  [ MkJobDir 1; MkJobDir 2; MkJobDir 3; MkJobDir 4;
    (* run A (process 0) completes the plan {1,2} *)
    Lock 0%nat; MkBak 0%nat; Ready 0%nat; Submit 0%nat 1; Submit 0%nat 2; Link 0%nat 1; Link 0%nat 2;
    EndOk 0%nat; RmBakDir 0%nat; Done 0%nat;
    (* run B (process 1) is killed after moving one of the two links *)
    Lock 1%nat; MkBak 1%nat; Move 1%nat 2; Kill 1%nat;
    (* run C (process 2) finishes the move, links 3, raises *)
    Lock 2%nat; MkBak 2%nat; Move 2%nat 1; Ready 2%nat; Submit 2%nat 3; Submit 2%nat 3; Link 2%nat 3; EndExc 2%nat ExcError ].

Example au_run : exists s, run init au_tr = Some s /\
  kept au_tr = [3; 2; 1] /\ names (jobs s) = [3] /\ names (bakl s) = [1; 2] /\ orphans s = [4] /\ lock s = None.
Proof. eexists. split; [vm_compute; reflexivity|]. vm_compute. repeat split. Qed.

(* C16_backup_keeps / C16_never_orphan used as theorems on this history *)
Example au_never_orphan : forall s, run init au_tr = Some s -> ~ In 1 (orphans s) /\ ~ In 3 (orphans s).
Proof.
  intros s H. split; apply (C16_never_orphan au_tr s _ H); vm_compute; auto.
Qed.

(* C16_completed_exact on a run that follows two aborted ones: the backup that had been merged twice
   is gone, the index is exactly the new plan                                                        *)
Example au_completed : exists s,
  run init (au_tr ++ [Lock 0%nat; MkBak 0%nat; Move 0%nat 3; Ready 0%nat; Submit 0%nat 4; EndOk 0%nat;
                      RmEntry 0%nat 2; RmEntry 0%nat 3; RmEntry 0%nat 1; RmBakDir 0%nat; Link 0%nat 4; Done 0%nat]) = Some s /\
  names (jobs s) = [4] /\ bak s = None /\ lock s = None /\ orphans s = [3; 2; 1].
Proof. eexists. split; [vm_compute; reflexivity|]. vm_compute. repeat split. Qed.

(* a contender is blocked while another process is anywhere between Lock and the end of __exit__ *)
Example au_blocked : exists s, run init (firstn 12 au_tr) = Some s /\ step s (Lock 1%nat) = None /\
  step s (Kill 0%nat) <> None.
Proof. eexists. split; [vm_compute; reflexivity|]. split; [reflexivity|]. vm_compute. discriminate. Qed.

(* --- 2. strength probes ---------------------------------------------------------------------- *)

(* (a) "last completed plan" in `kept` means "last run whose BLOCK ended without exception" (EndOk), not
   "last run whose __exit__ returned" (Done).  __exit__ removes the backup BEFORE wait(); a process killed
   after its block ended - possibly hours later, while waiting for its jobs - has already forgotten the
   previous plan, and a job it submitted but whose coroutine had not yet made the link is in no index
   either.  Both are then reported (and removed by --clean) as orphans although no run ever completed
   after plan {1}.  All theorems hold on this history: kept = [] .                                      *)
Definition au_tr_killed_in_exit : list event :=
  [ MkJobDir 1; MkJobDir 2;
    Lock 0%nat; MkBak 0%nat; Ready 0%nat; Submit 0%nat 1; Link 0%nat 1; EndOk 0%nat; RmBakDir 0%nat; Done 0%nat;
    Lock 1%nat; MkBak 1%nat; Move 1%nat 1; Ready 1%nat; Submit 1%nat 2; EndOk 1%nat; RmEntry 1%nat 1; Kill 1%nat ].

Example au_killed_in_exit_forgets_everything : exists s,
  run init au_tr_killed_in_exit = Some s /\
  kept au_tr_killed_in_exit = [] /\ jobs s = [] /\ bak s = Some [] /\ orphans s = [2; 1].
Proof. eexists. split; [vm_compute; reflexivity|]. vm_compute. repeat split. Qed.

(* (b) exclusivity is an ASSUMPTION of the step function (Lock is enabled only when lock = None); the
   theorems C16_exclusive / C16_enter_* restate it with the phase bookkeeping.  The sub-model `lf` proves
   only that "one path = one inode" as long as nobody unlinks the file.  That fcntl locks exclude two
   PROCESSES is trusted; they do not exclude two experiment objects of one process (fasteners), which the
   model cannot express: proc is the unit of locking.                                                  *)
Remark au_lock_is_assumed : forall s p q, lock s = Some q -> step s (Lock p) = None.
Proof. intros s p q H. unfold step. rewrite H. reflexivity. Qed.

(* (c) C16_only_ok_exit_forgets holds in every state, but `RmEntry` itself is enabled only after EndOk
   (phase ExitRm): that fact - "the backup is only dropped when no exception escaped" - is again the
   definition of step, not a theorem about the code.                                                   *)
Remark au_rmentry_needs_endok : forall s p n s', step s (RmEntry p n) = Some s' ->
  exists sub linked, ph s p = ExitRm sub linked.
Proof.
  intros s p n s' H. unfold step in H. destruct (ph s p); try discriminate. eauto.
Qed.

(* (d) a link step is possible after EndOk (ExitRm / ExitWait) but NOT after EndExc: the model has no
   event for "the scheduler thread makes a link after __exit__(exc) released the lock" (documented in the
   notes as outside the model) - C16_index_changes_under_lock could not be violated by the model there.  *)
Example au_no_link_after_exc : exists s, run init au_tr = Some s /\ step s (Link 2%nat 3) = None.
Proof. eexists. split; [vm_compute; reflexivity|]. reflexivity. Qed.
