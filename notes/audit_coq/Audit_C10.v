(* Audit_C10.v - audit examples for props/C10.v (non-vacuity, strength probes).
   New file; nothing here is used by the development.  No axioms. *)
From Coq Require Import ZArith List Bool Lia.
From XV Require Import model.Runner proofs.Runner_lemmas.
Import ListNotations.

Definition mk (dn : bool) (fl : option Z) (pd lk : bool) (rn cp : nat) : dir :=
  {| d_done := dn; d_failed := fl; d_pid := pd; d_lock := lk; d_runs := rn; d_completed := cp |}.

(* ------------------------------------------------------------------ Inv on a non-fresh directory *)
(* a directory reached by a real history (failure, SIGKILL in the body, SIGTERM in the body, success) *)
Definition d_hist : dir :=
  history Fixed fresh [(ORaise, None); (OOk, Some (SKill, 8, CTry)); (OOk, Some (STerm, 7, CTry)); (OExit 0, None)].
Example audit_Inv_hist : d_hist = mk true None false false 4 1 /\ Inv d_hist.
Proof. split; [vm_compute; reflexivity|]. apply histories, Inv_fresh. Qed.

(* a directory with a stale failure marker and a stale pid file, no success marker *)
Definition d_stale : dir := mk false (Some 15%Z) true false 2 0.
Example audit_Inv_stale : Inv d_stale.
Proof. unfold Inv; simpl; repeat split; try lia; discriminate. Qed.

(* kill_anywhere instantiated where the marker APPEARS in the launch *)
Example audit_kill_anywhere_marker_appears :
  let d' := launch Fixed d_stale (OExit 0) None in
  d_done d' = true /\ d_completed d' = 1 /\ d_failed d' = None /\ d_pid d' = false.
Proof. vm_compute. repeat split. Qed.

(* ------------------------------------------------------------------ in_body is satisfiable for every v, o *)
Lemma audit_in_body_fresh : forall v o, in_body v o fresh 7.
Proof. intros v o. exists (success o). destruct v; destruct o as [| |c|]; try reflexivity; destruct c; reflexivity. Qed.
Lemma audit_in_body_stale : forall v o, in_body v o d_stale 8.
Proof. intros v o. exists (success o). destruct v; destruct o as [| |c|]; try reflexivity; destruct c; reflexivity. Qed.

(* term_in_body with every context, both signals; the failure code depends on the context *)
Example audit_term_in_body_ctx :
  d_failed (launch Fixed fresh OOk (Some (STerm, 7, CTry))) = Some 1%Z /\
  d_failed (launch Fixed fresh OOk (Some (STerm, 7, CProp))) = Some 15%Z /\
  d_failed (launch Fixed fresh OOk (Some (SInt, 7, CAtexit))) = Some 2%Z /\
  d_failed (launch Prefix d_stale OBase (Some (SInt, 8, CTry))) = Some 1%Z /\
  d_pid (launch Prefix d_stale OBase (Some (SInt, 8, CTry))) = false /\
  d_done (launch Fixed fresh OOk (Some (STerm, 7, CTry))) = false /\
  d_runs (launch Fixed fresh OOk (Some (STerm, 7, CTry))) = 1 /\
  d_completed (launch Fixed fresh OOk (Some (STerm, 7, CTry))) = 0.
Proof. vm_compute. repeat split. Qed.

(* the theorem instantiated with c <> CTry *)
Example audit_term_in_body_inst :
  let d' := launch Prefix d_stale (OExit 3) (Some (SInt, 8, CProp)) in
  d_done d' = false /\ d_failed d' <> None /\ d_pid d' = false.
Proof.
  destruct (term_in_body Prefix d_stale (OExit 3) SInt CProp 8 eq_refl (or_intror eq_refl)
              (audit_in_body_stale Prefix (OExit 3))) as (A & B & C & _).
  cbv zeta. auto.
Qed.

(* ------------------------------------------------------------------ STRENGTH probes *)
(* 1. the "lock is free" conjunct of Inv (launch ...) is true by the definition of `die`,
      for every launch, with no hypothesis: it is an assumption, not a result *)
Lemma audit_lock_conjunct_definitional : forall v d o dth, d_lock (launch v d o dth) = false.
Proof. reflexivity. Qed.

(* 2. C10_own_exit_unlocks only says `In Unlock`.  The stronger facts do hold in the model:
      the live process has released the lock by its own code before it is gone, and Unlock is the
      last effect of the run *)
Lemma audit_own_exit_lock_released : forall d o,
  lock (run_effs (effects Fixed o None d) (boot d)) = false /\
  last (effects Fixed o None d) RegAtexit = Unlock.
Proof.
  intros d o. destruct d as [dn fl pd lk rn cp].
  destruct dn, fl; destruct o as [| |c|]; try (split; reflexivity); destruct c; split; reflexivity.
Qed.
(* ... while the code as found releases it only by dying (successful return of the body) *)
Example audit_prefix_never_unlocks :
  ~ In Unlock (effects Prefix OOk None fresh) /\
  lock (run_effs (effects Prefix OOk None fresh) (boot fresh)) = true.
Proof. split; [cbv; intuition discriminate|reflexivity]. Qed.

(* 3. a death index beyond the end of the run is not "no death" for TERM/INT when the handlers are
      still installed (failure paths): the handler runs once more and overwrites the code.  With
      SIGKILL it is the same as no death.  Nothing is hidden by the totalisation of firstn. *)
Example audit_k_beyond_end :
  launch Fixed fresh OOk (Some (SKill, 1000, CTry)) = launch Fixed fresh OOk None /\
  d_failed (launch Fixed fresh ORaise None) = Some 1%Z /\
  d_failed (launch Fixed fresh ORaise (Some (STerm, 1000, CAtexit))) = Some 15%Z.
Proof. vm_compute. repeat split. Qed.

(* 4. the body ran to completion, yet neither marker: SIGTERM after remove_signal_handlers and
      before donepath.touch() (default disposition again).  Allowed by the property ("only if"),
      and the pid file stays: a death, not an own exit. *)
Example audit_completed_no_marker :
  launch Fixed fresh OOk (Some (STerm, 10, CProp)) = mk false None true false 1 1.
Proof. vm_compute. reflexivity. Qed.

(* 5. a runner that is still WAITING for the run lock (k = 3: next effect is Lock) and gets SIGTERM
      writes a failure marker and removes the pid file although it never held the lock.  Harmless in
      this sequential model; in JobDir.v (C05/C11) `LKill` of a process in PLockW touches no file. *)
Example audit_term_while_waiting_for_lock :
  nth_error (trace Fixed OOk fresh) 3 = Some Lock /\
  launch Fixed fresh OOk (Some (STerm, 3, CTry)) = mk false (Some 1%Z) false false 0 0.
Proof. vm_compute. split; reflexivity. Qed.

(* 6. both markers can coexist (TERM during the exit cleanup of a relaunch that found the marker) *)
Example audit_both_markers :
  let d := launch Fixed fresh OOk None in
  d_done d = true /\
  d_done (launch Fixed d OOk (Some (STerm, 6, CTry))) = true /\
  d_failed (launch Fixed d OOk (Some (STerm, 6, CTry))) = Some 1%Z.
Proof. vm_compute. repeat split. Qed.

Print Assumptions audit_Inv_hist.
Print Assumptions audit_in_body_fresh.
Print Assumptions audit_in_body_stale.
Print Assumptions audit_term_in_body_inst.
Print Assumptions audit_own_exit_lock_released.
Print Assumptions audit_lock_conjunct_definitional.
Print Assumptions audit_term_while_waiting_for_lock.
