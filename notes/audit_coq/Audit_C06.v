(* Audit of C06 (group A): non-vacuity examples and strength probes.  Nothing here is used by the
   property theorems.  No axioms.                                                              *)
From Coq Require Import ZArith List Bool Arith Lia.
From XV Require Import model.Sched proofs.Sched_lemmas proofs.Sched_inv proofs.Sched_thm proofs.Sched_live.
Import ListNotations.
Open Scope Z_scope.

(* compiles with the committed jobspec (4 fields) and with the adoption extension (5th field) *)
Definition mkjob : list dep -> Z -> bool -> nat -> jobspec :=
  ltac:(first [ exact (fun d c m i => Build_jobspec d c m i None)
              | exact (fun d c m i => Build_jobspec d c m i) ]).

(* ------------------------------------------------------------------ the marker disjunct of final_truthful,
   wait() RETURNING (the existing examples only have it raising) *)
(* job 0: success marker pre-exists, its process would exit with 1 if it were launched;
   job 1 depends on it *)
Definition W_mark : workload :=
  {| w_jobs := [ mkjob [] 1 true 0; mkjob [DJob 0] 0 false 1 ]; w_tokens := [] |}.
Definition X_mark := [XSubmit 0; XSubmit 1; XDeliver 0; XDeliver 1; XDeliver 1; XDeliver 1; XWait; XDeliver 1]%nat.
Definition L_mark := expand W_mark all_fixed (init W_mark) X_mark.

Lemma posreq_W_mark : posreq W_mark.
Proof.
  intros j t c H. do 2 (destruct j as [|j]; [simpl in H; repeat (destruct H as [H|H]; [discriminate|]); contradiction|]).
  unfold deps, spec in H. simpl in H. destruct j; simpl in H; contradiction.
Qed.

Example ex_marker_truthful_and_wait_returns :
  let s := final W_mark all_fixed L_mark in
  wf W_mark = true /\ posreq W_mark /\ reachable W_mark s /\ queue s = [] /\ has_pending s W_mark = false /\
  pc (jobs s 0) = PReturned DONE /\ launches (jobs s 0) = 0%nat /\ j_code (spec W_mark 0) = 1 /\
  pc (jobs s 1) = PReturned DONE /\ launches (jobs s 1) = 1%nat /\
  unfinished s = 0 /\ failed s = [] /\ wst s = WReturned.
Proof.
  cbv zeta. split; [reflexivity|]. split; [exact posreq_W_mark|].
  split; [apply reachable_final; vm_compute; reflexivity|].
  repeat split; vm_compute; reflexivity.
Qed.

(* the step at which wait() completes by returning: wait_sound / exit_reports (C07) instance *)
Example ex_wait_completes_returned :
  let s3 := final W_mark all_fixed (removelast L_mark) in
  reachable W_mark s3 /\ is_some (step W_mark s3 (LRun 0)) = true /\
  wait_completes s3 (after W_mark s3 (LRun 0)) /\ wst (after W_mark s3 (LRun 0)) = WReturned /\
  wst s3 = WWoken.
Proof.
  cbv zeta. split; [apply reachable_final; vm_compute; reflexivity|].
  split; [vm_compute; reflexivity|]. split; [split; vm_compute; reflexivity|].
  split; vm_compute; reflexivity.
Qed.

(* returned_stable / final_absorbing with a non-empty continuation: job 0 has returned while job 1
   has not even started; seven more external events later nothing changed for job 0 *)
Example ex_returned_stable :
  let L0 := expand W_mark all_fixed (init W_mark) [XSubmit 0; XSubmit 1; XDeliver 0]%nat in
  let s := final W_mark all_fixed L0 in let s' := final W_mark all_fixed L_mark in
  reachable W_mark s /\ pc (jobs s 0) = PReturned DONE /\ launches (jobs s 1) = 0%nat /\
  steps W_mark s (skipn (length L0) L_mark) = Some s' /\ (length (skipn (length L0) L_mark) >= 7)%nat /\
  pc (jobs s' 0) = PReturned DONE /\ st (jobs s' 0) = DONE.
Proof.
  cbv zeta.
  set (L0 := expand W_mark all_fixed (init W_mark) [XSubmit 0; XSubmit 1; XDeliver 0]%nat).
  split; [apply reachable_final; vm_compute; reflexivity|].
  split; [vm_compute; reflexivity|]. split; [vm_compute; reflexivity|].
  split.
  - assert (E : L_mark = L0 ++ skipn (length L0) L_mark) by (vm_compute; reflexivity).
    assert (S1 : steps W_mark (init W_mark) L_mark = Some (final W_mark all_fixed L_mark))
      by (apply final_some; vm_compute; reflexivity).
    assert (S0 : steps W_mark (init W_mark) L0 = Some (final W_mark all_fixed L0))
      by (apply final_some; vm_compute; reflexivity).
    rewrite E in S1 at 1. rewrite steps_app in S1. rewrite S0 in S1. exact S1.
  - split; [vm_compute; lia|]. split; vm_compute; reflexivity.
Qed.

(* ------------------------------------------------------------------ re-submission after failure on the repaired
   scheduler: the run ends (no_hang instance), the counter is 0, both job objects have returned.
   NOTE (observable): wait() RAISES although the re-submitted job succeeded - failedJobs keeps the
   first attempt.  This is what the code does (failedJobs is keyed by identifier and never cleaned);
   C07_exit_reports is consistent with it ("some job returned ERROR").                           *)
Example ex_resubmit_repaired_ends :
  let s := final W_resubmit all_fixed (expand W_resubmit all_fixed (init W_resubmit) (X_resubmit ++ [XDeliver 1])) in
  reachable W_resubmit s /\ queue s = [] /\ has_pending s W_resubmit = false /\
  pc (jobs s 0) = PReturned ERROR /\ pc (jobs s 1) = PReturned DONE /\ launches (jobs s 1) = 1%nat /\
  unfinished s = 0 /\ wst s = WRaised /\ failed s = [0%nat].
Proof.
  cbv zeta. split; [apply reachable_final; vm_compute; reflexivity|].
  repeat split; vm_compute; reflexivity.
Qed.

(* ------------------------------------------------------------------ STRENGTH probes *)
(* 1. `wf W` is needed and is a real restriction of "every token assignment": a request larger than
   the total of its token is accepted by the code (ProcessCounterToken.dependency(count) checks
   nothing) and the job then sleeps for ever: quiescent, wait() blocked.  The model agrees; no_hang
   excludes the case by hypothesis.                                                            *)
Definition W_big : workload := {| w_jobs := [ mkjob [DTok 0 2] 0 false 0 ]; w_tokens := [1%nat] |}.
Example ex_request_above_total_hangs :
  let s := final W_big all_fixed (expand W_big all_fixed (init W_big) [XSubmit 0; XWait]%nat) in
  wf W_big = false /\ reachable W_big s /\ queue s = [] /\ has_pending s W_big = false /\
  pc (jobs s 0) = PAwaitReady /\ wst s = WBlocked.
Proof.
  cbv zeta. split; [reflexivity|]. split; [apply reachable_final; vm_compute; reflexivity|].
  repeat split; vm_compute; reflexivity.
Qed.

(* 2. no_hang is deadlock freedom, not termination: nothing in props/C06.v bounds the length of a run.
   (Infinite runs exist trivially through the API - wait() may be called again and again - so a
   termination statement has to be about runs without LSubmit/LWait; it is not stated.)          *)
Example ex_wait_again :
  let s := final W_mark all_fixed L_mark in
  exists s', steps W_mark s [LWait; LRun 0%nat] = Some s' /\ wst s' = wst s /\ queue s' = queue s /\ unfinished s' = unfinished s.
Proof.
  cbv zeta. eexists. split; [vm_compute; reflexivity|]. repeat split; vm_compute; reflexivity.
Qed.

(* 2b. A LIVELOCK under the very hypotheses of no_hang (wf W, posreq W).  A job with two dependencies
   on the same token, each request <= total but their sum > total (`tok(1, task); tok(1, task)` with
   total 1): both dependencies are individually OK (1 <= available), the job becomes READY, takes the
   first unit, fails on the second, aborts, releases, is notified, finds both OK again, ... for ever.
   In every state of this run exactly one external event is enabled, so EVERY schedule loops; no
   quiescent state is ever reached and no_hang is vacuously true of this run.
   Confirmed on the real scheduler (/repo HEAD, ProcessCounterToken(1), real CommandLineJob):
   16705 aborted starts in 15 s, job.wait() never returns; with total 2 the job is launched at once.
   "each submitted job reaches a final state ... never hanging" is therefore FALSE for a workload
   that satisfies wf and posreq; a termination theorem needs the extra hypothesis that the requests
   of one job on one token sum to at most its total.                                            *)
Definition W_twice : workload := {| w_jobs := [ mkjob [DTok 0 1; DTok 0 1] 0 false 0 ]; w_tokens := [1%nat] |}.
Lemma posreq_W_twice : posreq W_twice.
Proof.
  intros j t c H. destruct j as [|j]; [simpl in H; repeat (destruct H as [H|H]; [inversion H; subst; lia|]); contradiction|].
  unfold deps, spec in H. simpl in H. destruct j; simpl in H; contradiction.
Qed.
Definition proj0 (s : state) :=
  (st (jobs s 0), pc (jobs s 0), uns (jobs s 0), cur (jobs s 0), held (jobs s 0), ev (jobs s 0), launches (jobs s 0),
   queue s, avail s 0%nat, unfinished s).
Example ex_livelock_same_token_twice :
  let run n := final W_twice all_fixed (expand W_twice all_fixed (init W_twice) (XSubmit 0%nat :: repeat (XDeliver 0%nat) n)) in
  wf W_twice = true /\ posreq W_twice /\
  reachable W_twice (run 41%nat) /\
  (* 41 deliveries = 20 complete aborted starts + one lock acquisition; nothing was ever launched *)
  launches (jobs (run 41%nat) 0) = 0%nat /\ pc (jobs (run 41%nat) 0) = PExt ALockOutAbort /\
  (* the run is periodic with period 2 (on every component of the state that the step function reads) *)
  proj0 (run 41%nat) = proj0 (run 1%nat) /\ proj0 (run 40%nat) = proj0 (run 0%nat) /\
  (* all 41 deliveries really happened (expand did not truncate): 1 submit + 41 deliveries + callbacks *)
  length (filter (fun l => match l with LDeliver _ => true | _ => false end)
                 (expand W_twice all_fixed (init W_twice) (XSubmit 0%nat :: repeat (XDeliver 0%nat) 41))) = 41%nat.
Proof.
  cbv zeta. split; [reflexivity|]. split; [exact posreq_W_twice|].
  split; [apply reachable_final; vm_compute; reflexivity|].
  repeat split; vm_compute; reflexivity.
Qed.

(* 3. `expand` (used by every witness of Sched_thm.v) silently truncates the schedule at the first
   event that is not enabled: a witness built with it may be shorter than its list of events
   suggests.  The refuted witnesses state their conclusions on the state actually reached, so
   they are sound; but the list X_... is not evidence that all its events happened.              *)
Example ex_expand_truncates :
  expand W_mark all_fixed (init W_mark) [XSubmit 0; XDeliver 1; XSubmit 1]%nat =
  expand W_mark all_fixed (init W_mark) [XSubmit 0]%nat.
Proof. vm_compute. reflexivity. Qed.
(* the three refuted witnesses and the non-vacuity runs are not truncated: *)
Example ex_witnesses_not_truncated :
  length (filter (fun l => match l with LRun _ => false | _ => true end)
                 (expand W_resubmit no_fix (init W_resubmit) X_resubmit)) = length X_resubmit /\
  length (filter (fun l => match l with LRun _ => false | _ => true end)
                 (expand W_overwrite no_fix (init W_overwrite) X_overwrite)) = length X_overwrite /\
  length (filter (fun l => match l with LRun _ => false | _ => true end)
                 (expand W_abort no_fix (init W_abort) X_abort)) = length X_abort /\
  length (filter (fun l => match l with LRun _ => false | _ => true end) L_fail) = length X_fail.
Proof. repeat split; vm_compute; reflexivity. Qed.

(* 4. The exit code is an input of the workload (j_code), read when the process "exits": the path
   `code is None -> read <job>.failed` of aio_start (an exception there also gives ERROR) and an
   exception raised by aio_run / mkdir are not in the model (the coroutine of the real scheduler
   dies on an exception in aio_submit outside aio_start, unfinishedJobs is then never decremented:
   wait() hangs).  Assumption, not probed here.                                                 *)

Print Assumptions ex_marker_truthful_and_wait_returns.
Print Assumptions ex_wait_completes_returned.
Print Assumptions ex_returned_stable.
Print Assumptions ex_resubmit_repaired_ends.
Print Assumptions ex_request_above_total_hangs.
Print Assumptions ex_livelock_same_token_twice.
