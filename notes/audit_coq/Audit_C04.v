(* Audit of C04 (group A): non-vacuity examples and strength probes.  Nothing here is used by the
   property theorems.  No axioms.

   `mkjob` builds a jobspec without naming the fields, so that the file compiles both with the
   committed model (4 fields) and with the adoption extension being added to Sched.v (5th field
   j_adopt := None).                                                                            *)
From Coq Require Import ZArith List Bool Arith Lia.
From XV Require Import model.Sched model.Deps proofs.Sched_lemmas proofs.Sched_inv proofs.Sched_thm proofs.Deps_lemmas.
Import ListNotations.
Open Scope Z_scope.

Definition mkjob : list dep -> Z -> bool -> nat -> jobspec :=
  ltac:(first [ exact (fun d c m i => Build_jobspec d c m i None)
              | exact (fun d c m i => Build_jobspec d c m i) ]).

(* ------------------------------------------------------------------ scheduling part *)
(* a diamond with a token: 0 ; 1 <- 0 ; 2 <- 0 (+ token) ; 3 <- 1, 2 *)
Definition W_dia : workload :=
  {| w_jobs := [ mkjob [] 0 false 0;
                 mkjob [DJob 0] 0 false 1;
                 mkjob [DJob 0; DTok 0 1] 0 false 2;
                 mkjob [DJob 1; DJob 2] 0 false 3 ]; w_tokens := [1%nat] |}.

(* everything is submitted, then job 0 runs to its end: 1 and 2 are woken by the CCheck callbacks *)
Definition X_dia0 := [XSubmit 0; XSubmit 1; XSubmit 2; XSubmit 3;
                      XDeliver 0; XDeliver 0; XDeliver 0]%nat.
Definition L_dia0 := expand W_dia all_fixed (init W_dia) X_dia0.
(* state A: job 0 is in its end-of-job handler (state DONE, not yet returned); 1, 2, 3 wait *)
Definition sA := final W_dia all_fixed L_dia0.

(* C04_unsatisfied_counts / C04_ok_means_done on a state where the counter is neither 0 nor the
   number of dependencies: job 3 has two job dependencies both WAIT, job 2 has [WAIT; OK] *)
Example ex_counts_midrun :
  wf W_dia = true /\ reachable W_dia sA /\
  started (pc (jobs sA 2)) = true /\ cur (jobs sA 2) = [DWAIT; DOK] /\ uns (jobs sA 2) = 1 /\
  started (pc (jobs sA 3)) = true /\ cur (jobs sA 3) = [DWAIT; DWAIT] /\ uns (jobs sA 3) = 2 /\
  st (jobs sA 0) = DONE /\ pc (jobs sA 0) = PExt ADoneH.
Proof.
  split; [reflexivity|]. split; [apply reachable_final; vm_compute; reflexivity|].
  repeat split; vm_compute; reflexivity.
Qed.

(* ... and the conclusion of unsatisfied_counts read back on it *)
Example ex_counts_use : uns (jobs sA 3) = Z.of_nat (count_nok (cur (jobs sA 3))).
Proof.
  destruct ex_counts_midrun as (WF & R & _ & _ & _ & S3 & _).
  exact (proj2 (unsatisfied_counts W_dia sA 3 WF R S3)).
Qed.

(* the end-of-job handler of 0 is delivered: 0 returns, its dependents are checked; job 1 goes
   through its start; job 2 too *)
Definition X_dia1 := X_dia0 ++ [XDeliver 0; XDeliver 1; XDeliver 2; XDeliver 1; XDeliver 2;
                                XDeliver 1; XDeliver 2; XDeliver 1; XDeliver 2]%nat.
Definition L_dia1 := expand W_dia all_fixed (init W_dia) X_dia1.
Definition sB := final W_dia all_fixed L_dia1.

Example ex_ok_means_done :
  reachable W_dia sB /\ started (pc (jobs sB 3)) = true /\
  nth_error (cur (jobs sB 3)) 1 = Some DOK /\ nth_error (deps W_dia 3) 1 = Some (DJob 2) /\
  st (jobs sB 2) = DONE /\ launches (jobs sB 2) = 1%nat /\ launches (jobs sB 1) = 1%nat.
Proof.
  split; [apply reachable_final; vm_compute; reflexivity|].
  repeat split; vm_compute; reflexivity.
Qed.

(* the launch of 3, the last job: a launch step with TWO job dependencies; launch_after_deps and
   launched_deps_done have instances whose dependencies were not DONE a few steps before *)
Definition X_dia2 := X_dia1 ++ [XDeliver 3]%nat.
Definition L_dia2 := expand W_dia all_fixed (init W_dia) X_dia2.
Example ex_launch_two_deps :
  let s1 := final W_dia all_fixed (removelast L_dia2) in
  reachable W_dia s1 /\ is_some (step W_dia s1 (LRun 0)) = true /\
  launch_step s1 (after W_dia s1 (LRun 0)) 3 /\
  In (DJob 1) (deps W_dia 3) /\ In (DJob 2) (deps W_dia 3) /\
  st (jobs sA 1) = WAITING /\ st (jobs sA 2) = WAITING.
Proof.
  cbv zeta. split; [apply reachable_final; vm_compute; reflexivity|].
  split; [vm_compute; reflexivity|]. split; [vm_compute; reflexivity|].
  split; [vm_compute; auto|]. split; [vm_compute; auto|].
  split; vm_compute; reflexivity.
Qed.

(* done_absorbing with a non-empty continuation in which other jobs change state *)
Example ex_done_absorbing :
  exists ls, ls <> [] /\ steps W_dia sA ls = Some sB /\ st (jobs sA 0) = DONE /\ st (jobs sB 0) = DONE /\
             st (jobs sA 2) <> st (jobs sB 2).
Proof.
  exists (skipn (length L_dia0) L_dia1).
  split; [vm_compute; discriminate|].
  split.
  - assert (E : L_dia1 = L_dia0 ++ skipn (length L_dia0) L_dia1) by (vm_compute; reflexivity).
    assert (S1 : steps W_dia (init W_dia) L_dia1 = Some sB) by (apply final_some; vm_compute; reflexivity).
    assert (S0 : steps W_dia (init W_dia) L_dia0 = Some sA) by (apply final_some; vm_compute; reflexivity).
    rewrite E in S1 at 1. rewrite steps_app in S1. rewrite S0 in S1. exact S1.
  - repeat split; try (vm_compute; reflexivity). vm_compute. discriminate.
Qed.

(* STRENGTH probe 1.  `spec W j` is totalised with `nojob` and `jobs s j` with `jst0`: for an index
   outside the workload every scheduling theorem of C04 is about a job that does not exist.  The
   instances are harmless (empty dependency list, never started) but they are instances: the
   universally quantified j, k are NOT restricted to j < njobs W.                              *)
Example ex_out_of_range : deps W_dia 17 = [] /\ launches (jobs sB 17) = 0%nat /\ started (pc (jobs sB 17)) = false.
Proof. repeat split; vm_compute; reflexivity. Qed.

(* STRENGTH probe 2.  The model can NOT express a dependency on a job object that was not registered
   (duplicate submission): LSubmit is simply not enabled.  On the code such a submission is accepted
   (and, before fix 3383743, the dependent slept for ever - notes/C04.md "outside the model").     *)
Definition W_dupdep : workload :=
  {| w_jobs := [ mkjob [] 0 false 0; mkjob [] 0 false 0 (* same identifier: duplicate *);
                 mkjob [DJob 1] 0 false 2 ]; w_tokens := [] |}.
Example ex_dep_on_duplicate_not_expressible :
  wf W_dupdep = true /\
  (let s := final W_dupdep all_fixed [LSubmit 0; LSubmit 1]%nat in
   pc (jobs s 1) = PDup 0 /\ step W_dupdep s (LSubmit 2) = None).
Proof. split; [reflexivity|]. split; vm_compute; reflexivity. Qed.

(* ------------------------------------------------------------------ dependency collection part *)
(* deps_exact used in both directions on the heap with every kind of embedding (h_all):
   job 1 is a dependency although it is only reachable through
   fields -> list -> nested configuration -> list -> configuration marked as an output of task 1 *)
Example ex_deps_exact_all :
  (forall k, In k [3; 6; 0; 1]%nat <-> (reachv h_all (VRef 7) k \/ In k (@nil nat))) /\
  reachv h_all (VRef 7) 1 /\ ~ reachv h_all (VRef 7) 5.
Proof.
  assert (E : forall k, In k [3; 6; 0; 1]%nat <-> (reachv h_all (VRef 7) k \/ In k (@nil nat))).
  { apply (@deps_exact h_all marks_ok_all 8 7 [] [3; 6; 0; 1]%nat); reflexivity. }
  split; [exact E|]. split.
  - destruct (proj1 (E 1%nat)) as [H|H]; [simpl; auto|exact H|contradiction].
  - intros H. assert (X : In 5%nat [3; 6; 0; 1]%nat) by (apply E; auto).
    simpl in X. repeat (destruct X as [X|X]; [discriminate|]). contradiction.
Qed.

(* explicit dependencies: appended, also when they duplicate a collected one (job.dependencies is a
   set of Dependency OBJECTS, two objects for the same job are two elements) *)
Example ex_explicit : collect h_all 8 7 [0; 9]%nat = Some [3; 6; 0; 1; 0; 9]%nat.
Proof. reflexivity. Qed.

(* STRENGTH probe 3.  deps_exact has `collect h fuel root explicit = Some ds` as a hypothesis.  With
   too little fuel (or a cyclic heap, for every fuel) the hypothesis is false and the theorem says
   nothing; nothing in props/C04.v states that enough fuel exists for acyclic heaps.            *)
Example ex_fuel_none : collect h_all 4 7 [] = None.
Proof. reflexivity. Qed.
Definition h_cyc : heap :=
  [ mk [VRef 1] [] [] None None None; mk [VRef 0] [] [] None None None ].
Example ex_cycle_none : collect h_cyc 50 0 [] = None /\ collect h_cyc 500 0 [] = None.
Proof. split; vm_compute; reflexivity. Qed.

(* STRENGTH probe 4.  VAtom stands for str/int/float/Path/Enum AND for None (comment in Deps.v).  On
   the code a None (or a tuple, a bool is an int) inside a list or dict makes updatedependencies
   raise NotImplementedError; the model answers normally.  (Only `value is not None` at the top level
   of an argument is skipped by the code.)  Model more forgiving, no C04 violation results.       *)

(* STRENGTH probe 5.  marks_ok is an assumption on the heap, not a theorem about submit(): a heap
   where an object that went through submit() is not marked (the literal code after a duplicate
   submission) is exactly the refuted case; deps_exact says nothing about it.                   *)
Example ex_marks_ok_needed : ~ marks_ok h_dup_prefix.
Proof.
  intros (A & _). destruct (A 1%nat 0%nat eq_refl) as (T & _). simpl in T. discriminate.
Qed.

Print Assumptions ex_counts_midrun.
Print Assumptions ex_launch_two_deps.
Print Assumptions ex_done_absorbing.
Print Assumptions ex_deps_exact_all.
