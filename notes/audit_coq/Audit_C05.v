(* Audit_C05.v - audit examples for props/C05.v (non-vacuity, strength probes).
   New file; nothing here is used by the development.  No axioms. *)
From Coq Require Import List Bool Arith ZArith Lia.
From XV Require Import model.JobDir proofs.JobDir_lemmas.
Import ListNotations.

Definition run_or (tr : list label) (st : jobdir) : jobdir :=
  match run_labels tr st with Some st' => st' | None => st end.

(* ------------------------------------------------------------------ (a) registry *)
(* a longer history: identifier 7 fails, is re-submitted (job 1), job 1 goes RUNNING then DONE,
   another identifier in between, 7 submitted twice more: always job 1, nothing created *)
Definition h_audit : list rev :=
  [RSubmit 7; RState 0 JRunning; RState 0 JError; RSubmit 7; RSubmit 3; RState 1 JRunning;
   RSubmit 7; RState 1 JDone; RSubmit 7].
Example audit_registry_history :
  let '(r, out) := run_reg h_audit reg0 in
  out = [(0, true); (1, true); (2, true); (1, false); (1, false)] /\
  r_next r = 3 /\ r_unfinished r = 1%Z /\
  1 < r_next r /\ r_ident r 1 = 7 /\ jst_error (r_state r 1) = false /\
  submit r 7 = (r, 1) /\ live_of r 7 = [1].
Proof. vm_compute. repeat split; lia. Qed.

(* the hypotheses of C05_registry_unique instantiated on that history *)
Example audit_registry_unique_applies :
  submit (fst (run_reg h_audit reg0)) 7 = (fst (run_reg h_audit reg0), 1).
Proof.
  eapply registry_unique with (h := h_audit) (out := snd (run_reg h_audit reg0)) (j := 1).
  - destruct (run_reg h_audit reg0); reflexivity.
  - vm_compute; lia.
  - reflexivity.
  - reflexivity.
Qed.

(* ------------------------------------------------------------------ (b) done_never_launched *)
(* A state REACHED BY STEPS in which the marker exists while a live scheduler (slot 1) has not yet
   decided: slot 1 made its first marker test BEFORE the marker was written (SPid false), then
   process 0 (launched by slot 0) wrote the marker.  All slots satisfy snolaunch. *)
Definition tr_b1 : list label :=
  tr_sched_launch 0 ++ [LSubmit 1; LTest1 1] ++ tr_proc_begin 0 ++
  [LEnd 0 true; LTouch 0 true; LRmPid 0; LPUnlock 0; LWaitEnd 0].
Definition st_b1 : jobdir := run_or tr_b1 fresh.

Lemma st_b1_reach : reachable st_b1.
Proof. exists fresh, tr_b1. split; [apply fresh_initial|apply run_labels_steps; vm_compute; reflexivity]. Qed.

Lemma st_b1_nolaunch : forall s, snolaunch (scheds st_b1 s) = true.
Proof. intros s. destruct s as [|[|s]]; reflexivity. Qed.

Example audit_done_never_launched_applies :
  done st_b1 = true /\ scheds st_b1 1 = SPid false /\ scheds st_b1 0 = SFinal VDone /\ launches st_b1 = 1 /\
  exists st', steps st_b1 [LPid 1; LTest2 1] st' /\ scheds st' 1 = SFinal VDone /\ launches st' = 1.
Proof.
  repeat split; try reflexivity.
  eexists. split; [apply run_labels_steps; vm_compute; reflexivity|]. split; reflexivity.
Qed.

(* the theorem instantiated: whatever happens from st_b1, no Popen *)
Example audit_done_never_launched_inst : forall tr st', steps st_b1 tr st' ->
  launches st' = 1 /\ (forall s, ~ In (LSpawn s) tr).
Proof. intros tr st' H. exact (done_never_launched st_b1 tr st' eq_refl st_b1_nolaunch H). Qed.

(* STRENGTH: the hypothesis snolaunch excludes exactly the real race.  A scheduler that made BOTH
   marker tests before the marker was written (it sits in SLock, waiting for the job lock) DOES
   launch a process after the marker exists: the model allows it, the code does it (aio_start does not
   test the marker again under the lock).  So "never launched again" is only proved for instances that
   start their tests after the marker; what protects the body in the other case is the runner-side test
   (C05_no_rerun_after_success). *)
Definition tr_b2 : list label :=
  [LSubmit 1; LTest1 1; LPid 1; LTest2 1; LReady 1] ++ tr_sched_launch 0 ++ tr_proc_begin 0 ++
  [LEnd 0 true; LTouch 0 true; LRmPid 0; LPUnlock 0].
Definition st_b2 : jobdir := run_or tr_b2 fresh.
Example audit_launch_after_marker :
  reachable st_b2 /\ done st_b2 = true /\ scheds st_b2 1 = SLock /\ snolaunch (scheds st_b2 1) = false /\
  launches st_b2 = 1 /\
  exists st', steps st_b2 [LSLock 1; LTrunc 1; LWrite 1; LSpawn 1] st' /\ launches st' = 2 /\ body_runs st' = 1.
Proof.
  split; [exists fresh, tr_b2; split; [apply fresh_initial|apply run_labels_steps; vm_compute; reflexivity]|].
  repeat split; try reflexivity.
  eexists. split; [apply run_labels_steps; vm_compute; reflexivity|]. split; reflexivity.
Qed.

(* ------------------------------------------------------------------ (c) body_mutex *)
(* two schedulers, TWO job processes: slot 1 takes the job lock right after slot 0 released it and
   before process 0 got it, launches process 1; then process 0 wins the lock and is in the body;
   process 1 is blocked on the lock; slot 0 is then killed and started again: it adopts. *)
Definition tr_c1 : list label :=
  [LSubmit 1; LTest1 1; LPid 1; LTest2 1; LReady 1] ++ tr_sched_launch 0 ++
  [LSLock 1; LTrunc 1; LWrite 1; LExec 0; LSpawn 1; LCreatePid 1; LWritePid 1; LSUnlock 1] ++
  [LPLock 0; LPTest 0; LRmFailed 0; LBegin 0; LExec 1] ++
  [LCrash 0; LSubmit 0; LTest1 0; LPid 0].
Definition st_c1 : jobdir := run_or tr_c1 (mk_initial false true SEmpty).

Example audit_body_mutex_two_procs :
  reachable st_c1 /\ body_active st_c1 = 1 /\ procs st_c1 0 = PBody /\ procs st_c1 1 = PLockW /\
  lstep (LPLock 1) st_c1 = None /\ lstep (LBegin 1) st_c1 = None /\
  scheds st_c1 0 = SAdopt 1 /\ scheds st_c1 1 = SWait 1 /\ launches st_c1 = 2 /\ pidf st_c1 = PFSome 1.
Proof.
  split; [exists (mk_initial false true SEmpty), tr_c1; split;
          [unfold initial, mk_initial; simpl; repeat split; reflexivity
          |apply run_labels_steps; vm_compute; reflexivity]|].
  vm_compute. repeat split.
Qed.

(* ... and the continuation: process 0 succeeds, process 1 gets the lock, sees the marker, skips *)
Example audit_no_rerun_two_procs :
  exists st', steps st_c1 ([LEnd 0 true; LTouch 0 true; LRmPid 0; LPUnlock 0; LPLock 1; LPTest 1; LRmPid 1; LPUnlock 1;
                            LWaitEnd 1; LAdoptEnd 0; LTest2 0]) st' /\
    body_runs st' = 1 /\ done st' = true /\ scheds st' 0 = SFinal VDone /\ scheds st' 1 = SFinal VDone /\
    pidf st' = PFNone /\ lock st' = None /\ aborts st' = 0.
Proof. eexists. split; [apply run_labels_steps; vm_compute; reflexivity|]. vm_compute. repeat split. Qed.

(* STRENGTH: with N schedulers a scheduler can report DONE although the marker does not exist and the
   body never ran (its child read the script while another scheduler had truncated it: XNop).  Not
   excluded by any C05 theorem (they speak about the body only); recorded in notes/C11.md as "seen". *)
Definition tr_nop : list label :=
  [LSubmit 1; LTest1 1; LPid 1; LTest2 1; LReady 1] ++ tr_sched_launch 0 ++ [LSLock 1; LTrunc 1; LExec 0; LWaitEnd 0].
Example audit_done_without_marker :
  let st := run_or tr_nop fresh in
  reachable st /\ scheds st 0 = SFinal VDone /\ done st = false /\ body_runs st = 0.
Proof.
  split; [exists fresh, tr_nop; split; [apply fresh_initial|apply run_labels_steps; vm_compute; reflexivity]|].
  vm_compute. repeat split.
Qed.

Print Assumptions audit_registry_unique_applies.
Print Assumptions audit_done_never_launched_inst.
Print Assumptions audit_launch_after_marker.
Print Assumptions audit_body_mutex_two_procs.
Print Assumptions audit_no_rerun_two_procs.
Print Assumptions audit_done_without_marker.
