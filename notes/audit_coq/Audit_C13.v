(* AUDIT (group B) - C13.  Extra non-vacuity witnesses and strength probes.
   Nothing here is used by the development; no axioms.                              *)
From Coq Require Import List NArith ZArith Bool Arith Lia.
From XV Require Import model.Walk model.Instance proofs.Walk_lemmas proofs.Instance_lemmas props.C13.
Import ListNotations.

Definition a_c : str := [99%N].    (* "c" *)
Definition a_d : str := [100%N].   (* "d" *)
Definition a_k : str := [107%N].   (* "k" *)
Definition an fs pr ini := {| cls := 0; fields := fs; pre := pr; init := ini; task := None; sealed := false |}.

(* 0 = task: c -> 1, d -> {"k": [2, 1]}, pre-tasks [4; 4] (the same object attached twice), init [5]
   1: self loop (c -> 1) and pre-task 4 ; 2: c -> 0 (cycle through the root), pre-task 3
   3: pre-task that itself carries pre-task 4 ; 4, 5: leaves                                   *)
Definition a_heap : heap :=
  [ an [(a_c, VRef 1); (a_d, VDict [(a_k, VList [VRef 2; VRef 1])])] [4; 4] [5];
    an [(a_c, VRef 1)] [4] [];
    an [(a_c, VRef 0)] [3] [];
    an [] [4] [];
    an [] [] [];
    an [] [] [] ].

(* --- 1. the theorems instantiated on a graph with a self loop, a cycle through the root, a
        reference nested in dict/list, a pre-task attached twice to one node and to three nodes --- *)
Example a_instance :
  exists r, instantiate a_heap [] 0 = Some r /\
    map o_id (r_objects r) = [4; 1; 3; 2; 5; 0] /\
    r_log r = [ PostInit 4 []; PostInit 1 [a_c]; PostInit 3 []; PostInit 2 [a_c]; PostInit 5 [];
                PostInit 0 [a_c; a_d]; Execute 4; Execute 3 ] /\
    In {| o_id := 0; o_attrs := [(a_c, OObj 1); (a_d, ODict [(a_k, OList [OObj 2; OObj 1])])] |} (r_objects r).
Proof. eexists. split; [vm_compute; reflexivity|]. vm_compute. repeat split. right; right; right; right; right; left. reflexivity. Qed.

(* the conclusion of C13_pretasks_once is not trivial here: pre-task 4 is attached 5 times, runs once *)
Example a_pretasks_once :
  exists r, instantiate a_heap [] 0 = Some r /\ NoDup (execs (r_log r)) /\ execs (r_log r) = [4; 3] /\
    reach a_heap (node_edges false) (cut_constructed []) 0 3.
Proof.
  destruct (C13_one_object_per_node a_heap [] 0) as [r [Hr [_ Hreach]]].
  exists r. split; [exact Hr|]. destruct (C13_pretasks_once a_heap [] 0 r Hr) as [Nd _].
  split; [exact Nd|]. split.
  - vm_compute in Hr. injection Hr as <-. reflexivity.
  - apply Hreach. vm_compute in Hr. injection Hr as <-. simpl. auto.
Qed.

(* the parameter-file path on the same graph (C13_load_total's hypotheses hold) *)
Example a_load :
  wf_heap a_heap /\
  option_map r_log (load a_heap 0) =
  Some [ PostInit 4 []; PostInit 1 [a_c]; PostInit 3 []; PostInit 2 [a_c]; PostInit 5 []; PostInit 0 [a_c; a_d];
         Execute 4; Execute 3; Execute 5; Body 0 ].
Proof. split; [apply wf_heapb_sound; vm_compute; reflexivity | vm_compute; reflexivity]. Qed.

(* --- 2. strength probes -------------------------------------------------------------------- *)

(* (a) `instantiate` answers on a heap with a dangling reference; the attribute then names an object
   that was neither created nor constructed.  C13_wired_like_graph is silent about it because of its
   guard `m < length h` (unreachable from Python, where a reference is always a live Config).        *)
Example a_dangling :
  exists r, instantiate [an [(a_c, VRef 7)] [] []] [] 0 = Some r /\
    r_objects r = [{| o_id := 0; o_attrs := [(a_c, OObj 7)] |}].
Proof. eexists. split; vm_compute; reflexivity. Qed.

(* (b) a root that is already constructed in the store: the call "answers" with no object at all and
   an empty log (the theorem's `exists r` is satisfied by the empty result)                          *)
Example a_root_constructed :
  exists r, instantiate a_heap [0] 0 = Some r /\ r_objects r = [] /\ r_log r = [].
Proof. eexists. split; vm_compute; repeat split. Qed.

(* (c) "after its parameters are set" is carried by the DEFINITION post_init_of (the model logs the whole
   field list of n at PostInit n), not derived from an interleaving of setattr / __post_init__ events:  *)
Remark a_postinit_is_definitional : forall h n, post_init_of h n = PostInit n (map fst (fields (node_at h n))).
Proof. reflexivity. Qed.
(* likewise "wired like the graph" (first conjunct of C13_wired_like_graph) is object_of unfolded:      *)
Remark a_wiring_is_definitional : forall h n,
  o_attrs (object_of h n) = map (fun kv => (fst kv, image (snd kv))) (fields (node_at h n)).
Proof. reflexivity. Qed.

(* (d) in a cycle, __post_init__ of the node met second runs while the object it points to is still an
   empty stub: PostInit 2 precedes PostInit 0 although 2.c = 0 (allowed by the statement, worth knowing) *)
Example a_cycle_postinit_sees_stub :
  exists r pre post, instantiate a_heap [] 0 = Some r /\
    r_log r = pre ++ PostInit 2 [a_c] :: post /\ In (PostInit 0 [a_c; a_d]) post /\
    In (a_c, VRef 0) (fields (node_at a_heap 2)).
Proof.
  eexists. exists [PostInit 4 []; PostInit 1 [a_c]; PostInit 3 []]. eexists.
  split; [vm_compute; reflexivity|]. split; [reflexivity|]. split; simpl; auto.
Qed.

(* (e) the parameter-file model is STRICTER than the code on init tasks of non-final definitions: the
   code (as_instance=True) never looks at "init-tasks" of a definition that is not the last one, the
   model refuses the file (defs_ok checks every reference).  Harmless direction (model less forgiving). *)
Example a_model_stricter_on_inner_init :
  from_params [ {| d_id := 1; d_fields := []; d_pre := []; d_init := [9] |};
                {| d_id := 0; d_fields := []; d_pre := []; d_init := [] |} ] = None.
Proof. reflexivity. Qed.
