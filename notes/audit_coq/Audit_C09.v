(* Audit of C09 (read-only critique): non-vacuity / strength examples.
   Nothing here is used by the development; no axioms.                                   *)
From Coq Require Import ZArith List Bool Arith Lia.
From XV Require Import model.TokenFS proofs.TokenFS_lemmas.
Import ListNotations.
Open Scope Z_scope.

Definition CA := mkC 3 [0; 1; 0]%nat [2; 1; 2].
Lemma CA_pos : cnt_pos CA.
Proof. intros j. destruct j as [|[|[|[|j]]]]; simpl; lia. Qed.

(* ---------------------------------------------------------------------------------------
   B1. a non-initial quiescent state of the repaired code after real activity: two processes,
       total 3, requests 2 / 1 / 2, a refused start (LockError), a success, a failure (exit
       code 1), a killed job (stale pid file), three releases, all events delivered, all
       watcher threads finished.                                                           *)
Definition trB := ([Start 0; Start 1; Acquire 0 0; WriteF 0; Launch 0;
                    Acquire 1 1; WriteF 1; Launch 1; Acquire 0 2; JobEnds 0 0; Release 0 0;
                    Acquire 0 2; WriteF 2; Launch 2; JobEnds 1 1; Release 1 1; JobKilled 2; Release 0 2]
                   ++ repeat (Deliver 0 0) 9 ++ repeat (Deliver 1 0) 9 ++ [Fire 0 1; Fire 1 0; Fire 1 2])%nat.
Definition sB := final VF CA trB.

Lemma sB_reachable : reachable VF CA sB.
Proof. apply final_reachable; vm_compute; reflexivity. Qed.
Lemma sB_quiescent : quiescent sB.
Proof.
  split.
  - intros p A; destruct p as [|[|p]];
      [vm_compute; split; [reflexivity|intros; reflexivity] .. | vm_compute in A; discriminate].
  - intros j; destruct j as [|[|[|[|j]]]]; vm_compute; auto.
Qed.

Example audit_quiescent_nontrivial :
  reachable VF CA sB /\ quiescent sB /\
  p_alive (s_procs sB 0) = true /\ p_alive (s_procs sB 1) = true /\
  p_obs (s_procs sB 0) = true /\ p_obs (s_procs sB 1) = true /\
  j_ph (s_jobs sB 0) = Done /\ j_ph (s_jobs sB 1) = Done /\ j_ph (s_jobs sB 2) = Done /\
  j_pid (s_jobs sB 2) = true.
Proof.
  split; [apply sB_reachable|]. split; [apply sB_quiescent|]. repeat split; vm_compute; reflexivity.
Qed.

(* idle_full / idle_no_file instantiated on it: conclusion is about two live processes *)
Example audit_idle_full_applied :
  p_avail (s_procs sB 0) = 3 /\ p_avail (s_procs sB 1) = 3 /\ forall k, s_disk sB k = Absent.
Proof.
  destruct (idle_full CA sB CA_pos sB_reachable sB_quiescent) as [F _].
  split; [apply (F 0%nat); vm_compute; reflexivity|]. split; [apply (F 1%nat); vm_compute; reflexivity|].
  apply (idle_no_file CA sB CA_pos sB_reachable sB_quiescent).
  intros j. destruct j as [|[|[|[|j]]]]; vm_compute; reflexivity.
Qed.

(* ---------------------------------------------------------------------------------------
   B2. FINDING.  "death of its scheduler followed by the job's own end: the amount returns to
       the token" is NOT a theorem, and the model has a counter-example on the repaired code:
       a reachable QUIESCENT VF state where process 1 is alive, its observer is alive, every
       event has been delivered, every watcher thread has finished, and the token file of the
       ended job of the dead scheduler is still in the directory.  Process 1 shows
       available = total although the directory holds 1 of 1.
       (The second disjunct of C09_crash_reclaim - "or a pending deletion event for a stale
       entry of that name" - is how it gets there: name reuse after an aborted start, the
       deletion event of the first incarnation handled after the second was cached.)        *)
Definition trL := [Start 0; Start 1; Acquire 0 0; WriteF 0; Deliver 1 1; Release 0 0; Fire 1 0;
                   Acquire 0 0; WriteF 0; Launch 0; Kill 0;
                   Deliver 1 0; Deliver 1 1; Deliver 1 1; Deliver 1 0; JobEnds 0 0]%nat.
Definition sL := final VF C1 trL.
Lemma sL_reachable : reachable VF C1 sL.
Proof. apply final_reachable; vm_compute; reflexivity. Qed.
Lemma sL_quiescent : quiescent sL.
Proof. quiescent_2. Qed.

Example audit_orphan_file_left_for_ever :
  reachable VF C1 sL /\ quiescent sL /\
  p_alive (s_procs sL 1) = true /\ p_obs (s_procs sL 1) = true /\
  p_evq (s_procs sL 1) = [] /\ p_wat (s_procs sL 1) = [] /\
  (* the idle token "shows its full capacity" ... *)
  p_avail (s_procs sL 1) = c_total C1 /\
  (* ... while the directory still holds the whole capacity, for a job that has ended *)
  s_disk sL 0 = Written 1 /\ held_sum C1 sL = c_total C1 /\
  j_ph (s_jobs sL 0) = Ended /\ j_orph (s_jobs sL 0) = true /\
  (* the READY job of the live scheduler is refused when it tries *)
  j_ok (s_jobs sL 1) = true /\
  (match step VF C1 sL (Acquire 1 1) with Some (_, RLockError) => true | _ => false end) = true.
Proof.
  split; [apply sL_reachable|]. split; [apply sL_quiescent|]. repeat split; vm_compute; reflexivity.
Qed.
(* it is consistent with C09_idle_full (second clause) and C09_eventual_launch: *)
Example audit_orphan_consistent_with_theorems :
  (forall q, p_alive (s_procs sL q) = true -> p_cache (s_procs sL q) 0 = None) /\ ~ waiting_fits C1 sL 1 1.
Proof.
  split.
  - destruct (idle_full C1 sL C1_pos sL_reachable sL_quiescent) as [_ F].
    apply (F 0%nat). vm_compute. discriminate.
  - apply (eventual_launch C1 sL 1 1 C1_pos sL_reachable sL_quiescent). vm_compute. reflexivity.
Qed.
(* only a later recount by a live process (here: the refused acquire) gets it back *)
Example audit_orphan_recovered_by_recount :
  let s := final VF C1 (trL ++ [Acquire 1 1; Fire 1 0; Deliver 1 0])%nat in
  s_disk s 0 = Absent /\ j_ok (s_jobs s 1) = true /\ p_avail (s_procs s 1) = 1.
Proof. repeat split; vm_compute; reflexivity. Qed.

(* ---------------------------------------------------------------------------------------
   B3. crash_reclaim: hypotheses met (ex_crash in TokenFS_lemmas.v); the whole cycle: the
       theorem gives the watcher, the job ends, the watcher fires, the event is delivered, the
       state is quiescent, the survivor shows the full capacity and its job is ready.       *)
Example audit_crash_cycle :
  let s0 := final VF C1 tr5 in
  let s3 := final VF C1 (tr5 ++ [JobEnds 0 7; Fire 1 0; Deliver 1 0; Deliver 1 0])%nat in
  (In 0%nat (p_wat (s_procs s0 1)) \/ In (EDeleted 0%nat) (p_evq (s_procs s0 1))) /\
  reachable VF C1 s3 /\ quiescent s3 /\ s_disk s3 0 = Absent /\
  p_avail (s_procs s3 1) = 1 /\ j_ok (s_jobs s3 1) = true.
Proof.
  split.
  - apply (crash_reclaim C1 (final VF C1 tr5) 1 0 C1_pos).
    + apply final_reachable; vm_compute; reflexivity.
    + vm_compute; reflexivity.
    + vm_compute; discriminate.
    + vm_compute; discriminate.
    + vm_compute; reflexivity.
  - split; [apply final_reachable; vm_compute; reflexivity|]. split; [quiescent_2|].
    repeat split; vm_compute; reflexivity.
Qed.

(* ---------------------------------------------------------------------------------------
   B4. release from Holding (aborted start) and from Ended (failure, code 3), in a state with
       two processes and another job running; the theorems applied.                         *)
Definition trH := [Start 0; Start 1; Acquire 1 1; WriteF 1; Launch 1; Acquire 0 0; WriteF 0]%nat.
Definition sH := final VF CA trH.
Definition sE := final VF CA (trH ++ [Launch 0; JobEnds 0 3])%nat.
Lemma sH_reachable : reachable VF CA sH. Proof. apply final_reachable; vm_compute; reflexivity. Qed.
Lemma sE_reachable : reachable VF CA sE. Proof. apply final_reachable; vm_compute; reflexivity. Qed.

Definition after (o : option (state * result)) : state := match o with Some (s, _) => s | None => init end.
Definition sH' := after (step VF CA sH (Release 0 0)).
Definition sE' := after (step VF CA sE (Release 0 0)).
Lemma after_step o : (match o with Some (_, ROk) => true | _ => false end) = true -> o = Some (after o, ROk).
Proof. destruct o as [[s r]|]; simpl; try discriminate. destruct r; try discriminate. reflexivity. Qed.
Lemma sH_step : step VF CA sH (Release 0 0) = Some (sH', ROk).
Proof. apply after_step. vm_compute. reflexivity. Qed.
Lemma sE_step : step VF CA sE (Release 0 0) = Some (sE', ROk).
Proof. apply after_step. vm_compute. reflexivity. Qed.

(* hypotheses of C09_release_enabled hold in sH (Holding) and sE (Ended) *)
Example audit_release_enabled_hyps :
  p_alive (s_procs sH 0) = true /\ c_owner CA 0%nat = 0%nat /\ j_orph (s_jobs sH 0) = false /\
  j_ph (s_jobs sH 0) = Holding /\ s_lock sH = None /\ j_ph (s_jobs sH 1) = Running /\
  p_alive (s_procs sE 0) = true /\ j_orph (s_jobs sE 0) = false /\ j_ph (s_jobs sE 0) = Ended /\ s_lock sE = None.
Proof. repeat split; vm_compute; reflexivity. Qed.

(* C09_release_on_every_exit applied to both, with the concrete values of its conclusion *)
Example audit_release_from_holding :
  s_disk sH' 0 = Absent /\ p_cache (s_procs sH' 0) 0 = None /\
  p_avail (s_procs sH' 0) = c_total CA - held_sum CA sH' /\ j_ph (s_jobs sH' 0) = Idle /\
  p_avail (s_procs sH' 0) = 2 /\ held_sum CA sH' = 1.
Proof.
  destruct (release_on_every_exit VF CA sH 0 0 sH' ROk sH_reachable sH_step) as [D [K [A [[_ P]|[P _]]]]].
  - repeat split; auto; vm_compute; reflexivity.
  - vm_compute in P. discriminate.
Qed.

Example audit_release_from_ended :
  s_disk sE' 0 = Absent /\ p_cache (s_procs sE' 0) 0 = None /\
  p_avail (s_procs sE' 0) = c_total CA - held_sum CA sE' /\ j_ph (s_jobs sE' 0) = Done.
Proof.
  destruct (release_on_every_exit VF CA sE 0 0 sE' ROk sE_reachable sE_step) as [D [K [A [[P _]|[_ P]]]]].
  - vm_compute in P. discriminate.
  - repeat split; auto.
Qed.

(* B4'. C09_release_enabled is its own guard: without reachability, for ANY state, the same
        hypotheses plus `parsable` (which is the only conjunct of the guard that is not a
        hypothesis) give the conclusion.                                                    *)
Lemma audit_release_enabled_is_guard : forall V C s p j,
  p_alive (s_procs s p) = true -> c_owner C j = p -> j_orph (s_jobs s j) = false ->
  j_ph (s_jobs s j) = Holding \/ j_ph (s_jobs s j) = Ended -> s_lock s = None ->
  parsable C s (s_procs s p) = true ->
  exists s' r, step V C s (Release p j) = Some (s', r).
Proof.
  intros V C s p j A O Or P L PA. simpl.
  rewrite A, O, Nat.eqb_refl, Or. unfold lock_free. rewrite L, PA. simpl.
  destruct P as [P|P]; rewrite P; destruct (recount_cache s (s_procs s p) j); try destruct (is_present _); eauto.
Qed.

(* ---------------------------------------------------------------------------------------
   B5. what the model excludes: a scheduler killed between open() and write() of its token
       file leaves an empty file with token.lock free.  That state is not reachable (Kill of
       the creating process is not a step, see Audit_C08.audit_no_kill_in_create_window); if
       it were, the model itself says the token is unusable: no process can start, acquire
       or release (on the code: ValueError out of every _update).                           *)
Definition s_bricked : state :=
  let s := final VF CA [Start 0; Start 1; Acquire 1 1; WriteF 1; Launch 1; Acquire 0 0]%nat in
  (* process 0 dies inside the create window: memory lost, token.lock released by the OS *)
  mkS None (s_disk s) (upd (s_procs s) 0%nat dead_proc) (upd (s_jobs s) 0%nat (mkJ Ended true true false false)).
Example audit_empty_file_bricks_token :
  s_disk s_bricked 0 = Empty /\ s_lock s_bricked = None /\
  step VF CA s_bricked (Start 0) = None /\ step VF CA s_bricked (Start 2) = None /\
  (* job 1 of the live process 1 has ended: it can never be released *)
  (exists s1, step VF CA s_bricked (JobEnds 1 0) = Some (s1, ROk) /\ step VF CA s1 (Release 1 1) = None).
Proof.
  repeat split; try (vm_compute; reflexivity).
  eexists. split; vm_compute; reflexivity.
Qed.

(* ---------------------------------------------------------------------------------------
   B6. `quiescent` does not mean "every fitting job has been launched": in sL (and in
       ex_quiescent) a job is Idle and READY at quiescence.  C09_eventual_launch only says that
       no job is left with j_ok = false; nothing in props/C09.v says a READY job is ever
       acquired, nor that a non-quiescent state ever becomes quiescent.                     *)
Example audit_quiescent_with_unlaunched_job :
  quiescent sL /\ j_ph (s_jobs sL 1) = Idle /\ 1 <= c_cnt C1 1 <= c_total C1.
Proof. split; [apply sL_quiescent|]. split; [vm_compute; reflexivity|]. simpl. lia. Qed.

Print Assumptions audit_quiescent_nontrivial.
Print Assumptions audit_idle_full_applied.
Print Assumptions audit_orphan_file_left_for_ever.
Print Assumptions audit_orphan_consistent_with_theorems.
Print Assumptions audit_orphan_recovered_by_recount.
Print Assumptions audit_crash_cycle.
Print Assumptions audit_release_enabled_hyps.
Print Assumptions audit_release_from_holding.
Print Assumptions audit_release_from_ended.
Print Assumptions audit_release_enabled_is_guard.
Print Assumptions audit_empty_file_bricks_token.
Print Assumptions audit_quiescent_with_unlaunched_job.
