"""Situations where the UNMODIFIED tree violates C12 (save / load loses nothing)

Run: PYTHONPATH=<tree>/src /venv/bin/python existing_defect_repro.py
Exit code 1 when at least one defect shows, 0 when none does.
Each case prints DEFECT (shows) or ok (does not show).
"""

import json
import subprocess
import sys
import tempfile
import textwrap
import traceback
from pathlib import Path

DEFS = '''
from enum import Enum, Flag
from pathlib import Path
from typing import Dict, List
from experimaestro import Config, Param, DataPath


class WithData(Config):
    """e.g. a model and its checkpoint"""
    data: DataPath


class Perm(Flag):
    R = 1
    W = 2


class WithFlag(Config):
    perm: Param[Perm]


class IntKeys(Config):
    d: Param[Dict[int, str]]
'''

MAIN_SCRIPT = '''
import json, sys
from enum import Enum
from pathlib import Path
from experimaestro import Config, Param
from experimaestro.core.context import SerializationContext

class Mode(Enum):
    FAST = 1
    SLOW = 2

class Cfg(Config):
    mode: Param[Mode]

class Plain(Config):
    x: Param[int]

if __name__ == "__main__":
    c = Cfg(mode=Mode.SLOW) if sys.argv[1] == "enum" else Plain(x=3)
    objs = c.__xpm__.__get_objects__([], SerializationContext())
    Path(sys.argv[2]).write_text(json.dumps(objs))
'''

LOADER = '''
import json, sys
from experimaestro.core.objects import ConfigInformation
o = ConfigInformation.fromParameters(json.load(open(sys.argv[1])))
print("loaded", type(o).__qualname__)
'''

shown = []


def case(label):
    def decorator(fn):
        try:
            fn()
            print(f"ok      {label}")
        except AssertionError as e:
            print(f"DEFECT  {label}: {e}")
            shown.append(label)
        except Exception as e:
            last = traceback.format_exc().strip().splitlines()[-1]
            print(f"DEFECT  {label}: raised {last}")
            shown.append(label)
        return fn

    return decorator


def main():
    tmp = Path(tempfile.mkdtemp(prefix="c12existing"))
    pkg = tmp / "c12existingpkg"
    pkg.mkdir()
    (pkg / "__init__.py").write_text("")
    (pkg / "defs.py").write_text(textwrap.dedent(DEFS))
    sys.path.insert(0, str(tmp))

    from c12existingpkg.defs import WithData, WithFlag, Perm, IntKeys
    from experimaestro.core.context import SerializationContext
    from experimaestro.core.serialization import (
        state_dict,
        from_state_dict,
        save,
        load,
        from_task_dir,
    )

    def sources(name):
        d = Path(tempfile.mkdtemp(prefix=name, dir=tmp))
        (d / "src").mkdir()
        (d / "src" / "a.bin").write_text("AAA")
        (d / "src" / "b.bin").write_text("BBB")
        (d / "save").mkdir()
        return d

    # 1. save() of a list (or dict) of configurations: json_object does not
    #    push the position of the elements, both data files go to <dir>/data
    @case("save([a, b]) with a DataPath in each: each loaded configuration reads its own data")
    def _():
        d = sources("toplist")
        a = WithData(data=d / "src" / "a.bin")
        b = WithData(data=d / "src" / "b.bin")
        save([a, b], d / "save")
        la, lb = load(d / "save")
        assert la.data != lb.data, f"both loaded paths are {la.data}"
        assert la.data.read_text() == "AAA" and lb.data.read_text() == "BBB"

    # 1b. ... and as the first file was hard-linked, writing the second one
    #     over it rewrites the ORIGINAL data file of the first configuration
    @case("save([a, b]): the original data file of a is left untouched")
    def _():
        d = sources("toplist2")
        a = WithData(data=d / "src" / "a.bin")
        b = WithData(data=d / "src" / "b.bin")
        save([a, b], d / "save")
        content = (d / "src" / "a.bin").read_text()
        assert content == "AAA", f"src/a.bin now holds {content!r}"

    # 2. Saving into a directory that was used before (e.g. "last checkpoint")
    @case("save(a, dir) then save(b, dir): the original data file of a is left untouched")
    def _():
        d = sources("resave")
        a = WithData(data=d / "src" / "a.bin")
        b = WithData(data=d / "src" / "b.bin")
        save(a, d / "save")
        save(b, d / "save")
        content = (d / "src" / "a.bin").read_text()
        assert content == "AAA", f"src/a.bin now holds {content!r}"

    @case("save(a, dir) twice")
    def _():
        d = sources("resave_same")
        a = WithData(data=d / "src" / "a.bin")
        save(a, d / "save")
        save(a, d / "save")
        assert load(d / "save").data.read_text() == "AAA"

    # 3. A combination of Flag members has no single name
    @case("Flag enumeration value R|W saved and loaded")
    def _():
        p = WithFlag(perm=Perm.R | Perm.W)
        sd = json.loads(json.dumps(state_dict(SerializationContext(), p)))
        assert from_state_dict(sd).perm == Perm.R | Perm.W

    # 4. Dict[int, ...] is accepted when configuring, but cannot be identified,
    #    sealed or saved
    @case("Dict[int, str] parameter saved and loaded")
    def _():
        p = IntKeys(d={1: "a"})
        sd = json.loads(json.dumps(state_dict(SerializationContext(), p)))
        assert from_state_dict(sd).d == {1: "a"}

    # 5. from_task_dir gives no data loader: the loader made for None takes
    #    no argument (and would raise anyway) although the parameter file
    #    holds the absolute path
    @case("from_task_dir of a job that has a DataPath parameter")
    def _():
        d = sources("taskdir")
        a = WithData(data=d / "src" / "a.bin")
        objs = a.__xpm__.__get_objects__([], SerializationContext())
        (d / "params.json").write_text(
            json.dumps({"objects": objs, "tags": {}, "workspace": str(d), "version": 2})
        )
        assert from_task_dir(d).data == d / "src" / "a.bin"

    # 6. The configuration classes of the experiment script (__main__) are
    #    loaded from their file, its enumerations are looked up in the
    #    __main__ of the loading process
    @case("enumeration defined in the experiment script, loaded in another process")
    def _():
        d = Path(tempfile.mkdtemp(prefix="mainenum", dir=tmp))
        (d / "xp.py").write_text(textwrap.dedent(MAIN_SCRIPT))
        (d / "loader.py").write_text(textwrap.dedent(LOADER))
        for which in ("plain", "enum"):
            out = d / f"{which}.json"
            subprocess.run(
                [sys.executable, str(d / "xp.py"), which, str(out)],
                check=True,
                stderr=subprocess.DEVNULL,
            )
            r = subprocess.run(
                [sys.executable, str(d / "loader.py"), str(out)],
                capture_output=True,
                text=True,
                cwd="/",
            )
            last = (r.stderr.strip().splitlines() or [""])[-1]
            if which == "plain":
                # control: a configuration of the script without enumeration loads
                assert r.returncode == 0, f"control failed: {last}"
            else:
                assert r.returncode == 0, f"loader process: {last}"

    print()
    if shown:
        print(f"{len(shown)} defect(s) of the unmodified tree shown")
        return 1
    print("no defect shown")
    return 0


if __name__ == "__main__":
    sys.exit(main())
