"""Reproducers for behaviours of the UNMODIFIED code that (arguably) already
violate C02. Prints one line per case; exit code 1 if at least one of the
"clear" cases (1, 2, 3) is reproduced."""
import sys
import shutil
import tempfile
import logging
from pathlib import Path

from experimaestro import (
    Config, Task, LightweightTask, Param, Meta, Annotated, pathgenerator,
    setmeta, experiment,
)
from experimaestro.scheduler.workspace import RunMode

logging.getLogger().setLevel(logging.ERROR)


def hexid(c):
    return c.__xpm__.identifier.all.hex()[:16]


# --- 1. Configuration-valued default: the default test uses TypeConfig.__eq__,
# which compares the Meta parameters too


class Sub(Config):
    __xpmid__ = "c02.existing.sub"
    x: Param[int] = 1
    name: Meta[str] = "n"


class WithConfigDefault(Config):
    __xpmid__ = "c02.existing.withdefault"
    sub: Param[Sub] = Sub()


# --- 2. NaN default: never equal to itself, so never elided


class WithNaN(Config):
    __xpmid__ = "c02.existing.nan"
    a: Param[int]
    w: Param[float] = float("nan")


class WithoutNaN(Config):
    __xpmid__ = "c02.existing.nan"
    a: Param[int]


# --- 3. A task that outputs one of its own sub-configurations


class Model(Config):
    __xpmid__ = "c02.existing.model"
    x: Param[int]


class Learn(Task):
    __xpmid__ = "c02.existing.learn"
    model: Param[Model]
    logpath: Annotated[Path, pathgenerator("log.txt")]

    def task_outputs(self, dep):
        return dep(self.model)


# --- 4. Pre-tasks of a sub-configuration that is outside the signature


class Pre(LightweightTask):
    __xpmid__ = "c02.existing.pre"


class MetaHolder(Config):
    __xpmid__ = "c02.existing.metaholder"
    sub: Meta[Sub]


class Holder(Config):
    __xpmid__ = "c02.existing.holder"
    sub: Param[Sub]


def main():
    clear = 0

    a, b = WithConfigDefault(sub=Sub()), WithConfigDefault(sub=Sub(name="other"))
    same = hexid(a) == hexid(b)
    print(f"1. config-valued default, Meta parameter of the value changed: {hexid(a)} vs {hexid(b)}"
          f" -> {'same' if same else 'DIFFERENT'}")
    clear += not same

    a, b = WithNaN(a=1), WithoutNaN(a=1)
    same = hexid(a) == hexid(b)
    print(f"2. class extended with a parameter defaulting to NaN: {hexid(a)} vs {hexid(b)}"
          f" -> {'same' if same else 'DIFFERENT'}")
    clear += not same

    workdir = Path(tempfile.mkdtemp(prefix="c02existing"))
    try:
        with experiment(workdir, "c02existing", run_mode=RunMode.DRY_RUN):
            task = Learn(model=Model(x=1))
            before = hexid(task)
            task.submit()
            after = hexid(task)
            same = before == after
            print(f"3. task returning dep(self.model): identifier before submit {before}, "
                  f"after submit {after} -> {'same' if same else 'DIFFERENT'}")
            print(f"   generated path {task.logpath}\n   job directory  {task.__xpm__.job.path}")
            clear += not same
    finally:
        shutil.rmtree(workdir, ignore_errors=True)

    a = MetaHolder(sub=Sub(x=2))
    b = MetaHolder(sub=Sub(x=2).add_pretasks(Pre()))
    print(f"4a. (borderline) pre-task added to the value of a Meta parameter: {hexid(a)} vs {hexid(b)}"
          f" -> {'same' if hexid(a) == hexid(b) else 'DIFFERENT'}")
    a = Holder(sub=setmeta(Sub(x=2), True))
    b = Holder(sub=setmeta(Sub(x=2).add_pretasks(Pre()), True))
    print(f"4b. (borderline) pre-task added to a meta-flagged sub-configuration: {hexid(a)} vs {hexid(b)}"
          f" -> {'same' if hexid(a) == hexid(b) else 'DIFFERENT'}")

    return 1 if clear else 0


if __name__ == "__main__":
    sys.exit(main())
