"""Reproducer (UNMODIFIED code): a task body that forks a child which leaves
through sys.exit(0) gets a success marker while the body is still running.

The SystemExit(0) raised in the child travels up to TaskRunner.run, whose
`except SystemExit` clause creates <name>.done - in the child, while the parent
is still in the body. If the parent is then killed (here SIGKILL), the
directory shows a success marker although the body did not run to completion,
and every later launch skips the body.

Exit code 0: property holds; 1: violated (expected on the unmodified tree).
"""
import json
import os
import shutil
import signal
import subprocess
import sys
import tempfile
import textwrap
import time
from pathlib import Path

import fasteners

TASKMOD = '''
import os, sys, time
from pathlib import Path
from experimaestro import Task, Param


def worker(path):
    Path(path).write_text("worker %d" % os.getpid())


class C10Task(Task):
    """Task whose body is driven by the file <ctrl>/mode"""
    ctrl: Param[str]

    def execute(self):
        ctrl = Path(self.ctrl)
        with (ctrl / "runs").open("a") as fp:
            fp.write("start\\n")
        mode = (ctrl / "mode").read_text().strip().split("+")

        if "fork" in mode:
            import multiprocessing
            p = multiprocessing.get_context("fork").Process(
                target=worker, args=(str(ctrl / "worker"),)
            )
            p.start()
            p.join()
            assert p.exitcode == 0

        if "childexit" in mode:
            pid = os.fork()
            if pid == 0:
                # Child: does its share of the work and leaves with sys.exit
                sys.exit(0)
            os.waitpid(pid, 0)

        if "sleep" in mode:
            (ctrl / "inbody").touch()
            time.sleep(120)
        if "fail" in mode:
            raise RuntimeError("failing on purpose")

        with (ctrl / "runs").open("a") as fp:
            fp.write("end\\n")
'''

PROCS = []


class Harness:
    def __init__(self):
        self.root = Path(tempfile.mkdtemp(prefix="c10-existing-"))
        (self.root / "c10taskmod.py").write_text(TASKMOD)
        self.ctrl = self.root / "ctrl"
        self.ctrl.mkdir()
        gen = self.root / "gen.py"
        gen.write_text(
            textwrap.dedent(
                f"""
                import sys
                sys.path.insert(0, {str(self.root)!r})
                from experimaestro import experiment
                from experimaestro.scheduler.workspace import RunMode
                from c10taskmod import C10Task
                with experiment({str(self.root / "ws")!r}, "c10", run_mode=RunMode.GENERATE_ONLY) as xp:
                    t = C10Task(ctrl={str(self.ctrl)!r})
                    t.submit()
                    print("JOB", t.__xpm__.job.jobpath, t.__xpm__.job.name)
                """
            )
        )
        out = subprocess.run(
            [sys.executable, str(gen)], capture_output=True, text=True, timeout=300
        )
        line = [s for s in out.stdout.splitlines() if s.startswith("JOB ")]
        assert line, "could not generate the job: %s\n%s" % (out.stdout, out.stderr)
        _, jobdir, name = line[0].split(" ")
        self.jobdir, self.name = Path(jobdir), name
        self.script = self.jobdir / f"{name}.py"
        assert self.script.is_file()
        self.n = 0

    def f(self, suffix):
        return self.jobdir / f"{self.name}.{suffix}"

    def runs(self):
        p = self.ctrl / "runs"
        return p.read_text().split() if p.is_file() else []

    def launch(self, mode):
        """Starts the job script as the scheduler does: under the job lock, the
        pid file is written before the lock is released"""
        (self.ctrl / "mode").write_text(mode)
        for x in ("inbody", "worker"):
            if (self.ctrl / x).exists():
                (self.ctrl / x).unlink()
        self.n += 1
        lock = fasteners.InterProcessLock(str(self.f("lock")))
        assert lock.acquire(blocking=True)
        try:
            log = (self.root / f"log{self.n}.txt").open("w")
            p = subprocess.Popen(
                [sys.executable, str(self.script)],
                stdout=log,
                stderr=subprocess.STDOUT,
                cwd="/",
                start_new_session=True,
            )
            PROCS.append(p)
            self.f("pid").write_text(json.dumps({"type": "local", "pid": p.pid}))
        finally:
            lock.release()
        return p

    def wait_for(self, path, p, timeout=120):
        t0 = time.time()
        while not path.exists():
            assert p.poll() is None, "job process ended before %s appeared" % path.name
            assert time.time() - t0 < timeout, "timeout waiting for %s" % path
            time.sleep(0.02)

    def lock_is_free(self):
        lock = fasteners.InterProcessLock(str(self.f("lock")))
        ok = lock.acquire(blocking=False)
        if ok:
            lock.release()
        return ok

    def state(self):
        return {s: self.f(s).is_file() for s in ("done", "failed", "pid")}




def main():
    h = Harness()
    ok = True
    try:
        p = h.launch("childexit+sleep")
        h.wait_for(h.ctrl / "inbody", p)
        time.sleep(0.3)
        st = h.state()
        print("while the body runs:", st, "runs", h.runs())
        os.kill(p.pid, signal.SIGKILL)
        p.wait()
        st = h.state()
        print("after SIGKILL in the body:", st, "runs", h.runs())
        if st["done"] and "end" not in h.runs():
            print("VIOLATED: success marker although the body did not run to completion")
            ok = False
        before = h.runs().count("start")
        p = h.launch("quick")
        p.wait(timeout=300)
        print("after relaunch:", h.state(), "runs", h.runs())
        if "end" not in h.runs():
            print("VIOLATED: the body never ran to completion, the relaunch skipped it")
            ok = False
    finally:
        for p in PROCS:
            if p.poll() is None:
                try:
                    os.killpg(p.pid, signal.SIGKILL)
                except ProcessLookupError:
                    pass
                p.wait()
        shutil.rmtree(h.root, ignore_errors=True)
    sys.exit(0 if ok else 1)


if __name__ == "__main__":
    main()
