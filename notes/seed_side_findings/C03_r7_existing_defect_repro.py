"""Situations in which the UNMODIFIED tree gives the same identifier to
configurations whose signatures differ (property C03).

Run with: PYTHONPATH=<tree>/src python existing_defect_repro.py
Exit code 1 when at least one of the defects E1-E3 shows, 0 otherwise.
(E4-E6 are borderline observations: they are printed but do not change the
exit code.)
"""

import sys
import warnings

warnings.filterwarnings("ignore")

from enum import IntEnum  # noqa: E402
from typing import Dict, Union  # noqa: E402
from experimaestro import Config, Param, Task, LightweightTask  # noqa: E402
from experimaestro.core.types import Identifier as TypeIdentifier  # noqa: E402
from experimaestro.scheduler.workspace import RunMode  # noqa: E402

sys._called_from_test = True  # (allows the two classes defined in a function below)


def identifier(config):
    return config.__xpm__.identifier.all.hex()


defects = []


def report(code, title, ida, idb, counts=True):
    same = ida == idb
    print(f"[{code}] {title}\n      {ida}\n      {idb}\n      -> {'SAME' if same else 'different'}")
    if same and counts:
        defects.append(code)


# --------------------------------------------------------------------------
# E1. A task that marks one of its own parameters as its output, when this
#     parameter is itself the output of an upstream task: mark_output
#     overwrites the upstream mark; once submitted, the identifier of the task
#     (and its job directory) no longer depends on the upstream task
# --------------------------------------------------------------------------


class Model(Config):
    size: Param[int]


class Learn(Task):
    epochs: Param[int]

    def task_outputs(self, dep):
        return dep(Model(size=3))


class FineTune(Task):
    model: Param[Model]

    def task_outputs(self, dep):
        return dep(self.model)


class Evaluate(Task):
    model: Param[Model]


o1 = Learn(epochs=1).submit(run_mode=RunMode.DRY_RUN)
o2 = Learn(epochs=50).submit(run_mode=RunMode.DRY_RUN)
f1, f2 = FineTune(model=o1), FineTune(model=o2)
before = (identifier(f1), identifier(f2))
r1 = f1.submit(run_mode=RunMode.DRY_RUN)
r2 = f2.submit(run_mode=RunMode.DRY_RUN)
print("[E1] before submit():", "different" if before[0] != before[1] else "SAME")
report(
    "E1",
    "FineTune(model=<output of Learn(epochs=1)>) vs FineTune(model=<output of Learn(epochs=50)>), after submit()",
    identifier(f1),
    identifier(f2),
)
print("      job directories:", f1.__xpm__.job.relpath, "/", f2.__xpm__.job.relpath)
e1, e2 = Evaluate(model=r1), Evaluate(model=r2)
e1.submit(run_mode=RunMode.DRY_RUN)
e2.submit(run_mode=RunMode.DRY_RUN)
report("E1", "... and Evaluate(model=<output of each FineTune>)", identifier(e1), identifier(e2))


# --------------------------------------------------------------------------
# E2. The task that produced an embedded output is hashed through its RAW
#     identifier: two upstream jobs that differ by their init tasks (two
#     different job directories) give the same downstream identifier
# --------------------------------------------------------------------------


class InitA(LightweightTask):
    pass


class InitB(LightweightTask):
    pass


la, lb = Learn(epochs=1), Learn(epochs=1)
oa = la.submit(run_mode=RunMode.DRY_RUN, init_tasks=[InitA()])
ob = lb.submit(run_mode=RunMode.DRY_RUN, init_tasks=[InitB()])
assert identifier(la) != identifier(lb), "the two upstream jobs are different jobs"
ea, eb = Evaluate(model=oa), Evaluate(model=ob)
ea.submit(run_mode=RunMode.DRY_RUN)
eb.submit(run_mode=RunMode.DRY_RUN)
report(
    "E2",
    "Evaluate(<output of Learn submitted with init task InitA>) vs Evaluate(<... InitB>) "
    "(the two Learn jobs have different identifiers)",
    identifier(ea),
    identifier(eb),
)


# --------------------------------------------------------------------------
# E3. Dictionaries have neither a length nor an end marker: with values of a
#     Union type, an entry moved between a dictionary and the dictionary it
#     holds is not seen (two levels of nesting only)
# --------------------------------------------------------------------------


class Nested(Config):
    d: Param[Dict[str, Union[int, Dict[str, int]]]]


report(
    "E3",
    'Nested(d={"a": {"b": 1}, "c": 2}) vs Nested(d={"a": {"b": 1, "c": 2}})',
    identifier(Nested(d={"a": {"b": 1}, "c": 2})),
    identifier(Nested(d={"a": {"b": 1, "c": 2}})),
)


# --------------------------------------------------------------------------
# Borderline observations (informational)
# --------------------------------------------------------------------------


# E4. An Identifier-valued __xpmid__ is inherited by the subclasses (a str one
#     is not): the subclass gets the very type identifier of its parent
class Base(Config):
    __xpmid__ = TypeIdentifier("my.base")
    x: Param[int]


class Derived(Base):
    pass


print(
    "[E4] type identifiers of Base / Derived(Base):",
    Base.__getxpmtype__().identifier,
    "/",
    Derived.__getxpmtype__().identifier,
)
report("E4", "Base(x=1) vs Derived(x=1)", identifier(Base(x=1)), identifier(Derived(x=1)), False)


# E5. Type identifiers are lower-cased: two classes whose names differ by the
#     case only have the same type identifier
def _two_classes():
    class MyModel(Config):
        x: Param[int]

    first = MyModel

    class Mymodel(Config):
        x: Param[int]

    return first, Mymodel


K1, K2 = _two_classes()
report("E5", "MyModel(x=1) vs Mymodel(x=1)", identifier(K1(x=1)), identifier(K2(x=1)), False)


# E6. A value `==` to the default is skipped: -0.0 is taken for the default 0.0
class WithDefault(Config):
    x: Param[float] = 0.0


class WithoutDefault(Config):
    x: Param[float]


assert identifier(WithoutDefault(x=0.0)) != identifier(WithoutDefault(x=-0.0))
report(
    "E6",
    "WithDefault(x=-0.0) vs WithDefault(x=0.0) (without default, the two values are told apart)",
    identifier(WithDefault(x=-0.0)),
    identifier(WithDefault(x=0.0)),
    False,
)


# E6b. An IntEnum member is hashed as the int it is
class Level(IntEnum):
    LOW = 1


class WithUnion(Config):
    x: Param[Union[int, Level]]


report(
    "E6b",
    "WithUnion(x=1) vs WithUnion(x=Level.LOW)",
    identifier(WithUnion(x=1)),
    identifier(WithUnion(x=Level.LOW)),
    False,
)

print()
if defects:
    print("Existing defects shown:", ", ".join(sorted(set(defects))))
    sys.exit(1)
print("No existing defect shown")
sys.exit(0)
