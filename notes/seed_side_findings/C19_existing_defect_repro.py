"""Reproducer for behaviours of the UNMODIFIED code that look like violations of C19
(see existing_defect.md). Run as: PYTHONPATH=<tree>/src /venv/bin/python existing_defect_repro.py
Exit code 1 if at least one of the behaviours is observed."""

import json
import sys
import tempfile
from pathlib import Path

from experimaestro.cli.filter import createFilter, JobInformation

observed = []


def report(flag, message):
    print(("OBSERVED " if flag else "not seen ") + message)
    if flag:
        observed.append(message)


with tempfile.TemporaryDirectory() as tmp:

    def info(tags, task="demo.train", jobid="a" * 8):
        path = Path(tmp) / "jobs" / task / jobid
        path.mkdir(parents=True, exist_ok=True)
        (path / "params.json").write_text(json.dumps({"tags": tags}))
        return JobInformation(path, task.rsplit(".", 1)[-1])

    # 1. Numeric tag values (tag("lr", 0.1), tag("layers", 3) are stored as JSON
    #    numbers in params.json)
    try:
        createFilter('layers ~ "3"')(info({"layers": 3}))
        report(False, "regex filter on a numeric tag raises")
    except TypeError as e:
        report(True, f"regex filter on a numeric tag raises: {e!r}")
    report(
        not createFilter('layers = "3"')(info({"layers": 3})),
        'layers = "3" is false for the tag layers=3 (number): no filter can select it',
    )
    report(
        not createFilter('layers in ["3"]')(info({"layers": 3})),
        'layers in ["3"] is false for the tag layers=3 (number)',
    )

    # 2. Mixed and/or: evaluated strictly left to right, (a or b) and c
    result = createFilter('a = "x" or b = "y" and c = "z"')(
        info({"a": "x", "b": "n", "c": "n"})
    )
    report(
        not result,
        'a = "x" or b = "y" and c = "z" is false with a=x '
        "(usual precedence a or (b and c) gives true)",
    )

    # 3. The help says tags are alphanumeric, the grammar only takes letters
    try:
        createFilter('model2 = "x"')
        report(False, "tag name with a digit is rejected")
    except Exception as e:
        report(True, f"tag name with a digit is rejected: {str(e)[:60]}")

sys.exit(1 if observed else 0)
