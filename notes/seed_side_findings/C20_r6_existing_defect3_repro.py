"""C20 - third situation in the UNMODIFIED tree (previously linked workspace)

`deprecated list --fix --cleanup` starts by removing EVERY link left by an
earlier repair (first pass of fix_deprecated), and only then tries to load the
job folders in order to move them. When a folder cannot be loaded any more
(load_job() catches the exception, logs it and the folder is skipped), the
link that made it reachable is gone and nothing replaces it: a job that was
reachable under the new identifier before the command is not reachable after.

Typical reason for a folder that cannot be loaded: once the workspace had been
repaired (link mode), the deprecated class was deleted from the code -- this
is what one does with deprecated classes after a while.  (Another one: the
classes live in a plain python file, see existing_defect_repro.py.)

Scenario
- a job recorded as OldLearner(...) has a result; OldLearner is deprecated;
  `deprecated list --fix` links it: resubmitting Learner(...) finds the result
- OldLearner is removed from the module
- `deprecated list --fix --cleanup` is run (e.g. to get rid of the links)
- resubmitting Learner(...) does not find the result any more

Exit code 1 when the defect shows, 0 otherwise.
"""

import logging
import shutil
import sys
import tempfile
import textwrap
from pathlib import Path

tmp = Path(tempfile.mkdtemp(prefix="c20existing3-"))
failures = []


def check(condition, message):
    if condition:
        print(f"[ok]   {message}")
    else:
        print(f"[FAIL] {message}")
        failures.append(message)


try:
    pkg = tmp / "code" / "c20existing3pkg"
    pkg.mkdir(parents=True)
    (pkg / "__init__.py").write_text("")
    (pkg / "model.py").write_text(
        textwrap.dedent(
            """
            from experimaestro import Task, Param

            class Learner(Task):
                __xpmid__ = "c20existing3.learner"
                x: Param[int]

                def execute(self):
                    pass

            class OldLearner(Learner):
                __xpmid__ = "c20existing3.oldlearner"
            """
        )
    )
    sys.path.insert(0, str(pkg.parent))

    import c20existing3pkg.model as model
    from experimaestro import RunMode, experiment
    from experimaestro.tools.jobs import fix_deprecated

    logging.basicConfig(level=logging.CRITICAL)
    workspace = tmp / "workspace"

    with experiment(workspace, "before", run_mode=RunMode.GENERATE_ONLY):
        task = model.OldLearner(x=1)
        task.submit()
        job = task.__xpm__.job
        job.donepath.touch()
        (job.path / "output.bin").write_text("precious")

    def resubmission_finds_result(name):
        with experiment(workspace, name, run_mode=RunMode.DRY_RUN):
            task = model.Learner(x=1)
            task.submit()
            job = task.__xpm__.job
            print("resubmission looks at", job.path)
            return job.donepath.exists()

    # Link mode repair
    model.OldLearner.__xpmtype__.deprecate()
    fix_deprecated(workspace, True, False)
    check(
        resubmission_finds_result("after-link"),
        "after --fix: resubmitting finds the existing result",
    )

    # The deprecated class is removed from the code
    del model.OldLearner

    # Cleanup
    fix_deprecated(workspace, True, True)
    check(
        resubmission_finds_result("after-cleanup"),
        "after --fix --cleanup: resubmitting still finds the existing result",
    )
finally:
    shutil.rmtree(tmp, ignore_errors=True)

if failures:
    print(f"\nC20 VIOLATED in the unmodified tree ({len(failures)} failed checks)")
    sys.exit(1)
print("\nC20 holds in this scenario")
