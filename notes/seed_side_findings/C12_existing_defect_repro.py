"""Reproducer for situations where the UNMODIFIED code already violates C12

Run with: PYTHONPATH=<tree>/src python existing_defect_repro.py
Prints one line per situation (DEFECT / ok); exit code 1 if any defect shows.
"""

import json
import sys
import tempfile
import textwrap
import traceback
from pathlib import Path

PKG = "c12existingpkg"
tmp = Path(tempfile.mkdtemp(prefix="c12existing"))
(tmp / PKG).mkdir()
(tmp / PKG / "__init__.py").write_text("")
(tmp / PKG / "defs.py").write_text(
    textwrap.dedent(
        """
        from typing import Dict
        from experimaestro import Config, Param, DataPath


        class Labels(Config):
            mapping: Param[Dict[str, str]]


        class Weights(Config):
            name: Param[str]
            weights: DataPath


        class Pair(Config):
            first: Param[Weights]
            second: Param[Weights]
        """
    )
)
# A module that is NOT in a package (as a script would be)
(tmp / "c12toplevel.py").write_text(
    textwrap.dedent(
        """
        from experimaestro import Config, Param


        class Inner(Config):
            x: Param[int]


        class Outer(Config):
            inner: Param[Inner]
        """
    )
)
sys.path.insert(0, str(tmp))

from experimaestro import state_dict, from_state_dict, save, load  # noqa: E402
from experimaestro.core.context import SerializationContext  # noqa: E402
from experimaestro.core.objects import ConfigInformation  # noqa: E402
from c12existingpkg.defs import Labels, Weights, Pair  # noqa: E402
from c12toplevel import Inner, Outer  # noqa: E402

defects = 0


def report(name, ok, detail=""):
    global defects
    if not ok:
        defects += 1
    print(f"{'ok    ' if ok else 'DEFECT'} {name}{': ' + detail if detail else ''}")


def attempt(name, fn):
    try:
        ok, detail = fn()
        report(name, ok, detail)
    except Exception as e:
        report(name, False, f"raised {e!r}")


def roundtrip(config, **kwargs):
    state = json.loads(json.dumps(state_dict(SerializationContext(), config)))
    return from_state_dict(state, **kwargs)


# 1. A dictionary value with a "type" key is taken for a typed value
def dict_type_key():
    c = Labels(mapping={"type": "path", "value": "some/thing"})
    loaded = roundtrip(c)
    return loaded.mapping == c.mapping, f"loaded {loaded.mapping!r}"


attempt('1. Dict[str, str] value {"type": "path", "value": ...}', dict_type_key)


def dict_type_key_instance():
    c = Labels(mapping={"type": "path", "value": "some/thing"})
    loaded = roundtrip(c, as_instance=True)
    return loaded.mapping == c.mapping, f"the task would see {loaded.mapping!r}"


attempt("1b. the same, loaded as the job process does", dict_type_key_instance)


# 2. Two configurations with a data path of the same name: the files collide
(tmp / "w1.bin").write_text("ONE")
(tmp / "w2.bin").write_text("TWO")


def datapath_collision():
    c = Pair(
        first=Weights(name="a", weights=tmp / "w1.bin"),
        second=Weights(name="b", weights=tmp / "w2.bin"),
    )
    directory = tmp / "saved-pair"
    directory.mkdir()
    c.__xpm__.serialize(directory)
    loaded = ConfigInformation.deserialize(directory)
    contents = (loaded.first.weights.read_text(), loaded.second.weights.read_text())
    return contents == ("ONE", "TWO"), f"contents of the loaded files: {contents}"


attempt("2. serialize() of two configurations with a DataPath", datapath_collision)


# 3. serialization.load does not give the directory to from_state_dict
def load_datapath():
    directory = tmp / "saved-one"
    directory.mkdir()
    save(Weights(name="a", weights=tmp / "w1.bin"), directory)
    loaded = load(directory)
    return loaded.weights.read_text() == "ONE", ""


attempt("3. save() then load() of a configuration with a DataPath", load_datapath)


# 4. In the job process (no data loader) a DataPath is a str
def datapath_type():
    c = Weights(name="a", weights=tmp / "w1.bin")
    task = ConfigInformation.fromParameters(json.loads(c.__xpm__.__json__()))
    return isinstance(task.weights, Path), f"type is {type(task.weights).__name__}"


attempt("4. DataPath value observed by the job process", datapath_type)


# 5. Configurations defined in a file that is not in a package: the file is
# executed again for each object
def toplevel_config_mode():
    loaded = roundtrip(Outer(inner=Inner(x=1)))
    return loaded.inner.x == 1, ""


attempt("5. module outside a package, configuration mode", toplevel_config_mode)


def toplevel_instance_mode():
    loaded = roundtrip(Outer(inner=Inner(x=1)), as_instance=True)
    expected = type(loaded).__xpmtype__.arguments["inner"].type.basetype
    return (
        isinstance(loaded.inner, expected),
        "loaded.inner is not an instance of the Inner class that Outer refers to",
    )


attempt("5b. module outside a package, instance mode", toplevel_instance_mode)


# 6. return_tasks=True
def return_tasks():
    c = Labels(mapping={"a": "b"})
    ConfigInformation.fromParameters(
        json.loads(c.__xpm__.__json__()), as_instance=False, return_tasks=True
    )
    return True, ""


attempt("6. fromParameters(..., return_tasks=True)", return_tasks)

sys.exit(1 if defects else 0)
