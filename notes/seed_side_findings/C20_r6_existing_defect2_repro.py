"""C20 - second situation in the UNMODIFIED tree (previously linked workspace)

`deprecated list --fix` (link mode) keeps the link created by an earlier repair
even when it leads to a folder WITHOUT result while another folder holding the
same configuration (stored under another former identifier) HAS the result.

The repair looks first at the folders holding a result (fix 52ab266) so that
the result gets the new identifier when several folders hold the same
configuration -- but only among the folders that are not linked yet: a link
left by a previous run is never reconsidered in link mode (it is in
--cleanup mode, which starts by removing every link).

Scenario: the task was renamed twice, V1 -> V2 -> V3
- the workspace holds a V2 job without result (it failed); V2 is deprecated and
  the workspace is repaired: jobs/v3/<new id> -> jobs/v2/<id2>
- the V1 era folder (same parameters, WITH a result) is then made visible to the
  repair (V1 is declared deprecated too, as `@deprecate class V1(V2)`)
- the workspace is repaired again: the V1 folder is reported "not reachable",
  the link still leads to the resultless V2 folder
- resubmitting V3 does not find the existing result

Exit code 1 when the defect shows, 0 otherwise.
"""

import logging
import shutil
import sys
import tempfile
import textwrap
from pathlib import Path

tmp = Path(tempfile.mkdtemp(prefix="c20existing2-"))
failures = []


def check(condition, message):
    if condition:
        print(f"[ok]   {message}")
    else:
        print(f"[FAIL] {message}")
        failures.append(message)


try:
    pkg = tmp / "code" / "c20existing2pkg"
    pkg.mkdir(parents=True)
    (pkg / "__init__.py").write_text("")
    (pkg / "model.py").write_text(
        textwrap.dedent(
            """
            from experimaestro import Task, Param

            class V3(Task):
                __xpmid__ = "c20existing2.v3"
                x: Param[int]

                def execute(self):
                    pass

            class V2(V3):
                __xpmid__ = "c20existing2.v2"

            class V1(V2):
                __xpmid__ = "c20existing2.v1"
            """
        )
    )
    sys.path.insert(0, str(pkg.parent))

    from c20existing2pkg.model import V1, V2, V3
    from experimaestro import RunMode, experiment
    from experimaestro.tools.jobs import fix_deprecated

    logging.basicConfig(level=logging.WARNING)
    workspace = tmp / "workspace"

    with experiment(workspace, "before", run_mode=RunMode.GENERATE_ONLY):
        # V1 era: the job ran and has a result
        task = V1(x=1)
        task.submit()
        v1job = task.__xpm__.job
        v1job.donepath.touch()
        (v1job.path / "output.bin").write_text("precious")

        # V2 era: run again (e.g. on another cluster), failed
        task = V2(x=1)
        task.submit()
        v2job = task.__xpm__.job
        v2job.failedpath.write_text("1")

    # First repair: only V2 is declared deprecated
    V2.__xpmtype__.deprecate()
    fix_deprecated(workspace, True, False)

    # Second repair: V1 is declared deprecated as well
    V1.__xpmtype__.deprecate()
    fix_deprecated(workspace, True, False)

    with experiment(workspace, "after", run_mode=RunMode.DRY_RUN):
        task = V3(x=1)
        task.submit()
        job = task.__xpm__.job
        print("resubmission looks at", job.path, "->", job.path.resolve())
        check(job.path.exists(), "a folder is reachable under the new identifier")
        check(
            job.donepath.exists(),
            "resubmitting finds the existing result (held by the V1 folder)",
        )
finally:
    shutil.rmtree(tmp, ignore_errors=True)

if failures:
    print(f"\nC20 VIOLATED in the unmodified tree ({len(failures)} failed checks)")
    sys.exit(1)
print("\nC20 holds in this scenario")
