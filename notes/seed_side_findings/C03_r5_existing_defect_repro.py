"""Unmodified code: a task output that is `==` to the (Config-valued) default of
the parameter it is given to is skipped by the hash, together with its task
mark: the producing task no longer takes part in the identifier.

Exit code 0: property holds; 1: violated."""
import sys

sys._called_from_test = True

from typing import List  # noqa: E402
from experimaestro import Config, Param, Task  # noqa: E402
from experimaestro.scheduler.workspace import RunMode  # noqa: E402


class Model(Config):
    v: Param[int]


class Learn(Task):
    epochs: Param[int]

    def task_outputs(self, dep):
        return dep(Model(v=1))


class Evaluate(Task):
    model: Param[Model] = Model(v=1)


class EvaluateAll(Task):
    models: Param[List[Model]] = [Model(v=1)]


def ident(c):
    return c.__xpm__.identifier.all.hex()[:16]


def learn(epochs):
    return Learn(epochs=epochs).submit(run_mode=RunMode.DRY_RUN)


ids = {
    "Evaluate()": ident(Evaluate()),
    "Evaluate(model=Learn(epochs=1))": ident(Evaluate(model=learn(1))),
    "Evaluate(model=Learn(epochs=50))": ident(Evaluate(model=learn(50))),
    "EvaluateAll()": ident(EvaluateAll()),
    "EvaluateAll(models=[Learn(epochs=1)])": ident(EvaluateAll(models=[learn(1)])),
    "EvaluateAll(models=[Learn(epochs=50)])": ident(EvaluateAll(models=[learn(50)])),
}
for k, v in ids.items():
    print(f"{v}  {k}")

bad = len(set(list(ids.values())[:3])) != 3 or len(set(list(ids.values())[3:])) != 3
print("VIOLATED" if bad else "OK")
sys.exit(1 if bad else 0)
