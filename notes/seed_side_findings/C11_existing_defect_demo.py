"""Reproducer for a behaviour of the UNMODIFIED code (see existing_defect.md)

The experiment process dies right after it has spawned the process of job a
and before it has written its pid file (simulated: the experiment script kills
itself with SIGKILL at that point, in the first run only). The job process
runs as an orphan without a pid file. The same experiment is run again: the
job cannot be adopted, it is launched again once the orphan has released the
job lock. The new process does nothing (the job is done), but launching it
truncates the standard output / error files of the job: what the only
execution of the body has printed is lost.

Usage: PYTHONPATH=<tree>/src python existing_defect_demo.py
Exit code 0 = the standard output of the job is kept, 1 = it is lost
"""

import os
import shutil
import signal
import subprocess
import sys
import tempfile
import time
from pathlib import Path

from experimaestro import Task, Param, Meta, experiment


class Work(Task):
    name: Param[str]
    logdir: Meta[Path]

    def execute(self):
        with open(self.logdir / f"{self.name}.runs", "a") as fp:
            fp.write(f"{os.getpid()}\n")
        print(f"output of {self.name}", flush=True)
        while not (self.logdir / f"{self.name}.go").is_file():
            time.sleep(0.05)


def run_experiment(workdir: str, logdir: str, die: bool):
    logdir = Path(logdir)
    if die:
        # Crash point: process spawned, pid file not written yet
        from experimaestro.connectors.local import LocalProcessBuilder

        start = LocalProcessBuilder.start

        def start_and_die(self, *args, **kwargs):
            start(self, *args, **kwargs)
            os.kill(os.getpid(), signal.SIGKILL)

        LocalProcessBuilder.start = start_and_die

    with experiment(workdir, "c11existing", port=-1) as xp:
        xp.workspace.launcher.setenv("PYTHONPATH", os.environ["PYTHONPATH"])
        task = Work(name="a", logdir=logdir)
        task.submit()
        (logdir / "stdout-path").write_text(str(task.stdout()))
        (logdir / "submitted").touch()
    (logdir / "finished").touch()


def wait_until(condition, what: str, timeout=60):
    t0 = time.time()
    while not condition():
        if time.time() - t0 > timeout:
            raise TimeoutError(f"Timeout while waiting for {what}")
        time.sleep(0.05)


def main():
    root = Path(tempfile.mkdtemp(prefix="c11existing-"))
    work, log = root / "ws", root / "log"
    log.mkdir()
    procs = []
    code = 1

    def start(die):
        p = subprocess.Popen(
            [sys.executable, __file__, "--xp", str(work), str(log), str(int(die))],
            stdout=open(root / "xp.log", "a"),
            stderr=subprocess.STDOUT,
            start_new_session=True,
        )
        procs.append(p)
        return p

    try:
        p = start(True)
        print("first run ended with", p.wait(60))
        wait_until((log / "a.runs").exists, "the orphan job to run")
        time.sleep(0.5)
        print("pid files:", list((work / "jobs").glob("**/*.pid")))

        (log / "submitted").unlink(missing_ok=True)
        p = start(False)
        wait_until((log / "submitted").exists, "the second run to submit")
        stdout = Path((log / "stdout-path").read_text())
        time.sleep(1)
        print("stdout of a while it runs:", repr(stdout.read_text()))
        (log / "a.go").touch()
        wait_until((log / "finished").exists, "the second run to finish")
        p.wait(30)

        runs = (log / "a.runs").read_text().split()
        content = stdout.read_text()
        print("executions of the body of a:", len(runs))
        print("stdout of a at the end:", repr(content))
        code = 0 if "output of a" in content else 1
    finally:
        (log / "a.go").touch()
        time.sleep(0.5)
        for p in procs:
            if p.poll() is None:
                p.kill()
        shutil.rmtree(root, ignore_errors=True)

    print("standard output kept" if code == 0 else "standard output of the job LOST")
    return code


if __name__ == "__main__":
    if len(sys.argv) > 1 and sys.argv[1] == "--xp":
        run_experiment(sys.argv[2], sys.argv[3], sys.argv[4] == "1")
        sys.exit(0)
    sys.exit(main())
