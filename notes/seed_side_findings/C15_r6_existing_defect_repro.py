"""Situations in which the UNMODIFIED tree violates C15 (parameters only ever
hold values of their declared type; submit fails fast).

Run: PYTHONPATH=<tree>/src python existing_defect_repro.py
Exit code 1 when at least one defect shows, 0 when none does.
"""
import logging
import sys
import tempfile
from pathlib import Path
from typing import Dict, List, Union

sys._called_from_test = True
logging.disable(logging.CRITICAL)

from experimaestro import Config, Param, Task, experiment  # noqa: E402
from experimaestro.core.arguments import field  # noqa: E402
from experimaestro.scheduler.workspace import RunMode  # noqa: E402

shown = []


def report(tag, ok, message):
    print(f"{'ok    ' if ok else 'DEFECT'} [{tag}] {message}")
    if not ok:
        shown.append(tag)


def outcome(fn):
    """Returns ("raised", exception) or ("value", value)"""
    try:
        return "value", fn()
    except Exception as e:
        return "raised", e


# --- D1: a Union-typed parameter silently stores None when given a dict


class WithUnion(Config):
    u: Param[Union[int, str]]


for candidate in ({}, {"a": 1}):
    kind, v = outcome(lambda: WithUnion(u=candidate).u)
    report(
        "D1",
        kind == "raised",
        f"Param[Union[int, str]] <- {candidate!r}: "
        + (f"raised {type(v).__name__}" if kind == "raised" else f"holds {v!r}"),
    )

kind, v = outcome(lambda: WithUnion(u={"a": 1}).__xpm__.validate())
report(
    "D1",
    kind == "raised",
    "validation of WithUnion(u={'a': 1}) (required u holds None): "
    + ("raised" if kind == "raised" else "accepted"),
)


# --- D2: None is stored in a non-Optional parameter that has a default


class WithDefault(Config):
    n: Param[int] = 3
    l: Param[List[int]] = [1]


kind, v = outcome(lambda: WithDefault(n=None).n)
report(
    "D2",
    kind == "raised" or isinstance(v, int),
    "Param[int] = 3 built with n=None: "
    + (f"raised {type(v).__name__}" if kind == "raised" else f"holds {v!r}"),
)


def assign_none():
    c = WithDefault()
    c.l = None
    return c.l


kind, v = outcome(assign_none)
report(
    "D2",
    kind == "raised" or isinstance(v, list),
    "Param[List[int]] = [1] assigned None: "
    + (f"raised {type(v).__name__}" if kind == "raised" else f"holds {v!r}"),
)


# --- D3: the list / dict read back from a parameter is the stored object:
# changing it in place puts values of any type in the parameter (also once
# the configuration is sealed), and submission does not notice


class WithContainers(Task):
    l: Param[List[int]]
    d: Param[Dict[str, int]]

    def execute(self):
        pass


c = WithContainers(l=[1, 2], d={"a": 1})
c.l.append("not an int")
c.d["b"] = "neither"
report("D3", all(isinstance(x, int) for x in c.l), f"List[int] after c.l.append(str): {c.l!r}")
report(
    "D3",
    all(isinstance(x, int) for x in c.d.values()),
    f"Dict[str, int] after c.d['b'] = str: {c.d!r}",
)

with tempfile.TemporaryDirectory(prefix="c15existing") as tmp:
    with experiment(Path(tmp), "c15existing", port=-1, run_mode=RunMode.DRY_RUN):
        kind, v = outcome(lambda: c.submit())
        report(
            "D3",
            kind == "raised",
            "submit of the task holding these values: "
            + (f"rejected ({type(v).__name__})" if kind == "raised" else "accepted"),
        )

        class TaskWithDefault(Task):
            n: Param[int] = 3

            def execute(self):
                pass

        t = TaskWithDefault(n=None)
        kind, v = outcome(lambda: t.submit())
        report(
            "D2",
            kind == "raised",
            f"submit of TaskWithDefault(n=None) holding n={t.n!r}: "
            + (f"rejected ({type(v).__name__})" if kind == "raised" else "accepted"),
        )

        sealed = WithContainers(l=[1], d={})
        sealed.submit()
        kind, v = outcome(lambda: sealed.l.append("after seal"))
        report(
            "D3",
            kind == "raised",
            f"in-place change of a sealed (submitted) task's list: now {sealed.l!r}",
        )


# --- D4: `= field()` without default nor default_factory makes a non-Optional
# parameter silently optional; it holds None


class WithBareField(Config):
    n: Param[int] = field()


kind, v = outcome(lambda: WithBareField().__xpm__.validate() or WithBareField().n)
report(
    "D4",
    kind == "raised",
    "Param[int] = field(): WithBareField() validated, "
    + (f"raised {type(v).__name__}" if kind == "raised" else f"n holds {v!r}"),
)


print()
if shown:
    print(f"existing defects shown: {sorted(set(shown))}")
    sys.exit(1)
print("no existing defect shown")
