"""Unmodified code: a workspace whose path contains a character that
shlex.quote() quotes (here a space) -> the job ends on its own (it fails) but
leaves its pid file behind and writes no marker at all.

Run: PYTHONPATH=<tree>/src python existing_defect_repro.py   (exit 1 = defect shown)
"""
import os
import sys
import shutil
import tempfile
import logging
from pathlib import Path
from experimaestro import Task, Param, experiment


class Quick(Task):
    x: Param[int]

    def execute(self):
        print("ran")


if __name__ == "__main__":
    logging.basicConfig(level=logging.CRITICAL)
    base = Path(tempfile.mkdtemp(prefix="c10existing"))
    try:
        ws = base / "my ws"
        ws.mkdir()
        try:
            with experiment(ws, "probe") as xp:
                xp.setenv(
                    "PYTHONPATH",
                    os.environ.get("PYTHONPATH", "")
                    + os.pathsep
                    + str(Path(__file__).resolve().parent),
                )
                task = Quick(x=1).submit()
                xp.wait()
        except Exception as e:
            print(f"(experiment ended with {type(e).__name__}: {e})")
        job = task.__xpm__.job
        names = sorted(p.name for p in job.path.iterdir())
        print(names)
        print((job.path / "quick.py").read_text().splitlines()[-1])
        bad = job.pidpath.is_file()
        print("pid file left behind by a job that ended on its own:", bad)
    finally:
        shutil.rmtree(base, ignore_errors=True)
    sys.exit(1 if bad else 0)
