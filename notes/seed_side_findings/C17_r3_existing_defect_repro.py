import tempfile, logging
from pathlib import Path
from typing import List, Dict
from experimaestro import Config, Task, Param, Meta, field, PathGenerator, experiment, LightweightTask
from experimaestro.scheduler.workspace import RunMode

class A(Config):
    x: Param[int] = 0
    p: Meta[Path] = field(default_factory=PathGenerator("p.txt"))

class T(Task):
    a: Param[A] = A(x=1)
    out: Meta[Path] = field(default_factory=PathGenerator("out.txt"))
    def execute(self): pass

with tempfile.TemporaryDirectory() as d:
    with experiment(d, "x", run_mode=RunMode.DRY_RUN) as xp:
        t = T()
        print(t.__xpm__.identifier)
        t.submit()
        job = t.__xpm__.job
        print(job.path)
        print(t.a.p, t.out)
