"""Existing defect (unmodified code): a submitted task whose class defines
__len__ (or __bool__) and is "falsy" is not registered as a dependency.

ConfigInformation.updatedependencies tests `if self.task and not self.loaded`
(truthiness of the task *object*) instead of `self.task is not None`.

Run: PYTHONPATH=<tree>/src python existing_defect_repro.py
Exit code 0: property holds; 1: property violated.
"""

import logging
import os
import shutil
import sys
import tempfile
import time
from pathlib import Path
from typing import List

from experimaestro import Param, Meta, Task, experiment
from experimaestro.scheduler.base import JobDependency


class Dataset(Task):
    """A task that builds a collection (empty when nothing is given)"""

    items: Param[List[str]] = []
    go: Meta[Path]

    def __len__(self):
        return len(self.items)

    def execute(self):
        for _ in range(1200):
            if self.go.is_file():
                return
            time.sleep(0.1)
        raise AssertionError("never released")


class Consumer(Task):
    dataset: Param[Dataset]
    marker: Meta[Path]

    def execute(self):
        self.marker.write_text("launched")


def main():
    workdir = Path(tempfile.mkdtemp(prefix="xpm-c04-existing-"))
    go = workdir / "go"
    marker = workdir / "consumer-launched"
    failures = []
    try:
        with experiment(workdir / "ws", "existing", port=-1) as xp:
            xp.workspace.launcher.setenv("PYTHONPATH", os.environ.get("PYTHONPATH", ""))
            try:
                dataset = Dataset(go=go)
                d = dataset.submit()
                consumer = Consumer(dataset=d, marker=marker)
                consumer.submit()
                cjob = consumer.__xpm__.job
                origins = {
                    dep.origin
                    for dep in cjob.dependencies
                    if isinstance(dep, JobDependency)
                }
                print("Consumer depends on:", sorted(o.name for o in origins))
                if dataset.__xpm__.job not in origins:
                    failures.append("Dataset job is not a dependency of Consumer")

                deadline = time.time() + 8
                while time.time() < deadline and not marker.is_file():
                    time.sleep(0.1)
                if marker.is_file():
                    failures.append(
                        "Consumer was launched while Dataset was still running"
                        f" (state {dataset.__xpm__.job.state})"
                    )
            finally:
                go.write_text("go")
    finally:
        shutil.rmtree(workdir, ignore_errors=True)

    for failure in failures:
        print("C04 VIOLATED:", failure)
    if not failures:
        print("C04 holds")
    return 1 if failures else 0


if __name__ == "__main__":
    logging.basicConfig(level=logging.ERROR)
    sys.exit(main())
