"""Existing defect (unmodified tree) - C05: after `deprecated list --fix`, a
renamed task that is still RUNNING under its former name is launched a second
time, in the same job folder, by an experiment that submits it under its new
name: the two bodies run at the same time.

The job folder is shared (jobs/<new id>/<hash> is a link to
jobs/<old id>/<hash>), but the lock file, the pid file and the markers are
named after the task (`learn.lock` / `train.lock`, `learn.pid` / `train.pid`):
the second scheduler sees no process and no marker, and its job process locks
another file.

Exit code 1 = defect shown (two bodies of the same job at the same time),
0 = not shown.

Run with: PYTHONPATH=<tree>/src python existing_defect_repro.py
"""

import os
import shutil
import subprocess
import sys
import tempfile
import time
from pathlib import Path

MODULE_NAME = "c05_existing_tasks"

BODY = '''
    x: Param[int]

    def execute(self):
        demodir = Path(os.environ["C05_DEMO_DIR"])
        with (demodir / "events").open("a") as fp:
            fp.write("start %d %s\\n" % (os.getpid(), Path.cwd().resolve()))
        deadline = time.time() + 60
        while not (demodir / "go").exists() and time.time() < deadline:
            time.sleep(0.05)
        with (demodir / "events").open("a") as fp:
            fp.write("end %d\\n" % os.getpid())
'''

HEADER = '''
import os
import time
from pathlib import Path
from experimaestro import Task, Param, deprecate
'''

# The former code: the task is named Learn
OLD_MODULE_SOURCE = (
    HEADER
    + '''

class Learn(Task):
'''
    + BODY
)

# The current code: the task is named Train, Learn is a deprecated alias
NEW_MODULE_SOURCE = (
    HEADER
    + '''

class Train(Task):
'''
    + BODY
    + '''

@deprecate
class Learn(Train):
    pass
'''
)


def events(tmp: Path, kind: str):
    path = tmp / "events"
    if not path.exists():
        return []
    return [
        line.split()
        for line in path.read_text().split("\n")
        if line.startswith(kind + " ")
    ]


def run_experiment(name: str, taskname: str, tmp: Path):
    """Runs an experiment that submits the task (x=1) and waits for it"""
    import importlib
    import experimaestro
    from experimaestro import experiment

    tasks = importlib.import_module(MODULE_NAME)
    src = Path(experimaestro.__file__).parents[1]
    with experiment(tmp / "ws", name, port=-1) as xp:
        xp.workspace.launcher.setenv(
            "PYTHONPATH", os.pathsep.join([str(src), str(tmp / "mod")])
        )
        xp.setenv("C05_DEMO_DIR", str(tmp))
        getattr(tasks, taskname)(x=1).submit()


def spawn(role: str, taskname: str, tmp: Path):
    env = dict(os.environ)
    env["PYTHONPATH"] = os.pathsep.join(
        [str(tmp / "mod")]
        + [p for p in env.get("PYTHONPATH", "").split(os.pathsep) if p]
    )
    return subprocess.Popen(
        [sys.executable, __file__, role, taskname, str(tmp)],
        env=env,
        stdout=subprocess.DEVNULL,
        stderr=(tmp / ("%s.log" % role)).open("w"),
    )


def main():
    tmp = Path(tempfile.mkdtemp(prefix="c05existing-"))
    procs = []
    try:
        (tmp / "mod").mkdir()
        (tmp / "mod" / (MODULE_NAME + ".py")).write_text(OLD_MODULE_SOURCE)
        sys.path.insert(0, str(tmp / "mod"))

        # 1. An experiment running the former code starts the job
        old = spawn("old", "Learn", tmp)
        procs.append(old)
        deadline = time.time() + 60
        while len(events(tmp, "start")) < 1:
            assert old.poll() is None, "the old experiment ended too early"
            assert time.time() < deadline, "the job did not start"
            time.sleep(0.05)

        # 2. The code is updated (Learn renamed Train) and the workspace fixed
        from experimaestro.tools.jobs import fix_deprecated

        (tmp / "mod" / (MODULE_NAME + ".py")).write_text(NEW_MODULE_SOURCE)
        fix_deprecated(tmp / "ws", True, False)
        links = [p for p in (tmp / "ws" / "jobs").glob("*/*") if p.is_symlink()]
        assert links, "deprecated list --fix created no link"
        print("link: %s -> %s" % (links[0], os.readlink(links[0])))  # noqa: T201

        # 3. Another experiment submits the same configuration (new name)
        # while the job is running
        new = spawn("new", "Train", tmp)
        procs.append(new)
        deadline = time.time() + 15
        while time.time() < deadline and len(events(tmp, "start")) < 2:
            time.sleep(0.05)

        starts, ends = events(tmp, "start"), events(tmp, "end")
        if len(starts) >= 2 and not ends:
            print("Bodies started (pid, job folder):")  # noqa: T201
            for _, pid, cwd in starts:
                print("   %s in %s" % (pid, cwd))  # noqa: T201
            print(  # noqa: T201
                "C05 VIOLATED (unmodified tree): the body of the job runs twice "
                "at the same time, in the same job folder"
            )
            return 1

        print("OK: the running job was not launched a second time")  # noqa: T201
        return 0
    finally:
        (tmp / "go").touch()
        for p in procs:
            if p.poll() is None:
                try:
                    p.wait(20)
                except subprocess.TimeoutExpired:
                    p.kill()
        shutil.rmtree(tmp, ignore_errors=True)


if __name__ == "__main__":
    if len(sys.argv) == 4:
        run_experiment(sys.argv[1], sys.argv[2], Path(sys.argv[3]))
    else:
        sys.exit(main())
