"""Reproducer: on the UNMODIFIED tree, some in-place mutations of a submitted
task are accepted (exit code 1 when at least one is accepted)."""
import json, logging, sys, tempfile
from typing import List
from experimaestro import Config, Param, Task, LightweightTask
from experimaestro.core.context import SerializationContext
from experimaestro.scheduler import experiment
from experimaestro.scheduler.workspace import RunMode

logging.getLogger("xpm").setLevel(logging.ERROR)


class Model(Config):
    size: Param[int]


class Pre(LightweightTask):
    path: Param[str]

    def execute(self):
        pass


class Producer(Task):
    x: Param[int]

    def execute(self):
        pass


class Learn(Task):
    models: Param[List[Model]]
    sizes: Param[List[int]]

    def execute(self):
        pass


def serialized(task):
    objects = task.__xpm__.__get_objects__([], SerializationContext())
    return json.dumps(objects, sort_keys=True, default=str)


problems = []
with tempfile.TemporaryDirectory(prefix="xpm-c14-existing") as workdir:
    with experiment(workdir, "c14existing", run_mode=RunMode.DRY_RUN):
        producer = Producer(x=1).submit()
        task = Learn(models=[Model(size=1)], sizes=[1, 2])
        task.submit()
        ident, ref = task.__xpm__.identifier.all.hex(), serialized(task)

        def check(what, fn):
            global ref
            try:
                fn()
            except Exception as e:
                print(f"rejected: {what} [{type(e).__name__}]")
                return
            now = serialized(task)
            same_id = task.__xpm__.identifier.all.hex() == ident
            problems.append(
                f"{what}: accepted; serialized task changed: {now != ref}; "
                f"identifier unchanged: {same_id}"
            )
            ref = now

        check("task.sizes.append(3)", lambda: task.sizes.append(3))
        check("task.models.append(Model(size=9))", lambda: task.models.append(Model(size=9)))
        check("task.pre_tasks.append(Pre(path='x'))", lambda: task.pre_tasks.append(Pre(path="x")))
        check("task.models[0].copy_dependencies(producer)", lambda: task.models[0].copy_dependencies(producer))

for p in problems:
    print("ACCEPTED -", p)
sys.exit(1 if problems else 0)
