"""Reproducers for situations where the UNMODIFIED code already violates C12

Run with:  PYTHONPATH=<tree>/src /venv/bin/python existing_defect_repro.py
Prints one line per situation ("DEFECT ..." when the property is violated);
the exit code is the number of violated situations.
"""

import json
import subprocess
import sys
import tempfile
import textwrap
from pathlib import Path

PKG_DEFS = '''
from enum import Flag
from experimaestro import Config, Param, DataPath


class Inner(Config):
    path: DataPath


class Outer(Config):
    path: DataPath
    inner: Param[Inner]


class Access(Flag):
    READ = 1
    WRITE = 2


class File(Config):
    access: Param[Access]
'''

TOPLEVEL = '''
from experimaestro import Config, Param


class Sub(Config):
    x: Param[int]


class Top(Config):
    sub: Param[Sub]

    def sub_is_a_sub(self):
        return isinstance(self.sub, Sub)
'''

MAIN_SCRIPT = '''
import json, sys
from enum import Enum
from experimaestro import Config, Param


class Color(Enum):
    RED = 1


class Paint(Config):
    color: Param[Color]


if __name__ == "__main__":
    from experimaestro.core.context import SerializationContext

    c = Paint(color=Color.RED)
    print(json.dumps(c.__xpm__.__get_objects__([], SerializationContext())))
'''

MAIN_LOADER = '''
import json, sys
from experimaestro.core.objects import ConfigInformation

objects = json.loads(open(sys.argv[1]).read())
o = ConfigInformation.fromParameters(objects, as_instance=True, discard_id=True)
print("loaded", o.color)
'''


def main():
    tmp = Path(tempfile.mkdtemp(prefix="c12existing-"))
    pkg = tmp / "c12existing_pkg"
    pkg.mkdir()
    (pkg / "__init__.py").write_text("")
    (pkg / "defs.py").write_text(textwrap.dedent(PKG_DEFS))
    (tmp / "c12existing_top.py").write_text(textwrap.dedent(TOPLEVEL))
    sys.path.insert(0, str(tmp))

    from experimaestro import save, load, from_state_dict
    from experimaestro.core.context import SerializationContext
    from experimaestro.core.objects import ConfigInformation
    from c12existing_pkg import defs
    import c12existing_top as top

    defects = []

    def situation(name, fn):
        try:
            problem = fn()
        except Exception as e:
            problem = f"raised {type(e).__name__}: {e}"
        if problem:
            defects.append(name)
            print(f"DEFECT {name}: {problem}")
        else:
            print(f"ok     {name}")

    def roundtrip(config, as_instance):
        objects = config.__xpm__.__get_objects__([], SerializationContext())
        objects = json.loads(json.dumps(objects))
        return ConfigInformation.fromParameters(
            objects, as_instance=as_instance, discard_id=True
        )

    (tmp / "f1").write_text("one")
    (tmp / "f2").write_text("two")

    def outer():
        return defs.Outer(path=tmp / "f2", inner=defs.Inner(path=tmp / "f1"))

    # 1. DataPath read by the job process (no data loader): a str, not a Path
    def datapath_type():
        loaded = roundtrip(outer(), True)
        if not isinstance(loaded.path, Path):
            return f"the task reads path={loaded.path!r} ({type(loaded.path).__name__}), configured a Path"

    situation("1. DataPath of a runtime object", datapath_type)

    # 2. save() then load() of a graph holding a DataPath
    def save_load():
        directory = tmp / "saved"
        directory.mkdir()
        save(outer(), directory)
        load(directory)

    situation("2. save + load with a DataPath", save_load)

    # 3. two configurations with a DataPath of the same name: one file
    def data_collision():
        directory = tmp / "saved2"
        directory.mkdir()
        save(outer(), directory)
        state = json.loads((directory / "definition.json").read_text())
        loaded = from_state_dict(state, directory)
        contents = (loaded.path.read_text(), loaded.inner.path.read_text())
        if contents != ("two", "one"):
            return f"files hold {contents}, saved ('two', 'one'); directory: {sorted(p.name for p in directory.iterdir())}"

    situation("3. two DataPath with the same name", data_collision)

    # 4. a combination of flags
    def flags():
        config = defs.File(access=defs.Access.READ | defs.Access.WRITE)
        loaded = roundtrip(config, True)
        if loaded.access != defs.Access.READ | defs.Access.WRITE:
            return f"access is {loaded.access!r}"

    situation("4. Flag combination", flags)

    # 5. classes of a top-level module (no package): the file is executed
    #    again for each object
    def toplevel_instance():
        loaded = roundtrip(top.Top(sub=top.Sub(x=1)), True)
        if not loaded.sub_is_a_sub():
            return "in the task, isinstance(self.sub, Sub) is False"

    situation("5a. top-level module, runtime object", toplevel_instance)

    def toplevel_config():
        loaded = roundtrip(top.Top(sub=top.Sub(x=1)), False)
        if loaded.sub.x != 1:
            return "x differs"

    situation("5b. top-level module, configuration", toplevel_config)

    # 6. fromParameters(return_tasks=True)
    def return_tasks():
        config = defs.File(access=defs.Access.READ)
        objects = config.__xpm__.__get_objects__([], SerializationContext())
        ConfigInformation.fromParameters(
            json.loads(json.dumps(objects)), as_instance=False, return_tasks=True
        )

    situation("6. return_tasks=True", return_tasks)

    # 7. an enumeration defined in the experiment script (__main__), loaded by
    #    another process
    def main_enum():
        (tmp / "xp.py").write_text(textwrap.dedent(MAIN_SCRIPT))
        (tmp / "loader.py").write_text(textwrap.dedent(MAIN_LOADER))
        out = subprocess.run(
            [sys.executable, str(tmp / "xp.py")], capture_output=True, text=True
        )
        (tmp / "xp.json").write_text(out.stdout)
        out = subprocess.run(
            [sys.executable, str(tmp / "loader.py"), str(tmp / "xp.json")],
            capture_output=True,
            text=True,
        )
        if out.returncode != 0:
            return out.stderr.strip().split("\n")[-1]

    situation("7. Enum of the __main__ script", main_enum)

    print(f"\n{len(defects)} situation(s) violate C12 on this tree")
    sys.exit(len(defects))


if __name__ == "__main__":
    main()
