"""Situations in which the UNMODIFIED tree violates C14 (submitted / sealed
configurations are frozen together with their identity).

Run with:  PYTHONPATH=<tree>/src python existing_defect_repro.py
Exit code 1 when at least one defect shows, 0 when none does.

E1  a configuration produced at sealing time (field(default_factory=...) or a
    generator) is reachable from the sealed configuration but is not sealed
E2  the list handed out by `config.pre_tasks` BEFORE sealing is the internal
    list: kept by the caller, it adds pre-tasks to the submitted task
E3  the guard of set_meta is an `assert`: it vanishes with `python -O`
"""

import json
import logging
import os
import shutil
import subprocess
import sys
import tempfile
from pathlib import Path

from experimaestro import (
    Config,
    LightweightTask,
    Param,
    Task,
    experiment,
    field,
    setmeta,
)
from experimaestro.core.objects import ConfigWalkContext
from experimaestro.scheduler.workspace import RunMode

logging.basicConfig(level=logging.ERROR)


class Sub(Config):
    x: Param[int] = 1


class Prepare(LightweightTask):
    seed: Param[int] = 0

    def execute(self):
        pass


class WithFactory(Task):
    a: Param[int]
    sub: Param[Sub] = field(default_factory=lambda: Sub())

    def execute(self):
        pass


class Plain(Task):
    a: Param[int]
    sub: Param[Sub]

    def execute(self):
        pass


def snapshot(config):
    xpm = config.__xpm__
    return {
        "identifier": xpm.identifier.all.hex(),
        "definition": json.loads(xpm.__json__()),
        "jobpath": str(xpm.job.path) if xpm.job and xpm.job.workspace else None,
    }


def e3_child():
    """(run with python -O) setmeta on a sealed configuration"""
    sub = Sub(x=2)
    sub.__xpm__.seal(ConfigWalkContext())
    try:
        setmeta(sub, True)
    except AssertionError:
        print("E3 child: refused")
        return 0
    print("E3 child: ACCEPTED, meta =", sub.__xpm__.meta)
    return 1


if __name__ == "__main__" and sys.argv[1:] == ["--e3-child"]:
    sys.exit(e3_child())


defects = []

workdir = Path(tempfile.mkdtemp(prefix="c14existing"))
try:
    with experiment(workdir, "c14existing", run_mode=RunMode.DRY_RUN, port=-1):
        # --- E1
        print("E1: configuration produced by field(default_factory=...)")
        task = WithFactory(a=1)
        task.submit()
        before = snapshot(task)
        print("   task sealed:", task.__xpm__._sealed, "- task.sub sealed:", task.sub.__xpm__._sealed)
        try:
            task.sub.x = 5
            after = snapshot(task)
            print("   task.sub.x = 5 ACCEPTED after submit()")
            print(
                "   identifier unchanged:", before["identifier"] == after["identifier"],
                "- params.json content unchanged:", before["definition"] == after["definition"],
            )
            defects.append("E1")
        except AttributeError as e:
            print("   refused:", e)

        # --- E2
        print("E2: list obtained from .pre_tasks before submit()")
        task = Plain(a=1, sub=Sub(x=3))
        task.add_pretasks(Prepare(seed=1))
        held = task.pre_tasks
        task.submit()
        before = snapshot(task)
        try:
            held.append(Prepare(seed=2))
        except Exception as e:
            print("   refused:", type(e).__name__)
        after = snapshot(task)
        n = len(task.__xpm__.pre_tasks)
        print("   pre-tasks of the submitted task:", n)
        if n != 1:
            print(
                "   a pre-task was ADDED after submit(); identifier unchanged:",
                before["identifier"] == after["identifier"],
                "- params.json content unchanged:",
                before["definition"] == after["definition"],
            )
            # What a fresh, equal task would be identified as
            fresh = Plain(a=1, sub=Sub(x=3))
            fresh.add_pretasks(Prepare(seed=1), Prepare(seed=2))
            print(
                "   identifier of an equal fresh task is the same:",
                fresh.__xpm__.identifier.all.hex() == after["identifier"],
            )
            defects.append("E2")
finally:
    shutil.rmtree(workdir, ignore_errors=True)

# --- E3
print("E3: setmeta on a sealed configuration under python -O")
code = subprocess.run(
    [sys.executable, "-O", __file__, "--e3-child"], env=os.environ
).returncode
if code != 0:
    defects.append("E3")

if defects:
    print("\nExisting defects shown:", ", ".join(defects))
    sys.exit(1)
print("\nNo defect shown")
sys.exit(0)
