"""Reproducers for situations where the UNMODIFIED code violates C08

Run as: PYTHONPATH=<tree>/src /venv/bin/python existing_repro.py [E1|E2|E3|E4]
(no argument: all). Exit code: number of violations observed.
"""

import json
import logging
import os
import sys
import tempfile
import time
from pathlib import Path
from types import SimpleNamespace

from experimaestro import Task, Param, experiment
from experimaestro.tokens import CounterToken
from experimaestro.locking import LockError


class Hold(Task):
    x: Param[int]
    out: Param[Path]
    secs: Param[float]

    def execute(self):
        (self.out / f"{self.x}.start").write_text(str(time.time()))
        time.sleep(self.secs)
        (self.out / f"{self.x}.end").write_text(str(time.time()))


def peak(out: Path, counts):
    events = []
    for x, c in counts.items():
        events.append((float((out / f"{x}.start").read_text()), c))
        events.append((float((out / f"{x}.end").read_text()), -c))
    events.sort()
    current = best = 0
    for _, c in events:
        current += c
        best = max(best, current)
    return best


def fakejob(root: Path, name: str, pid: int, identifier=None):
    jobdir = root / "jobs" / name
    jobdir.mkdir(parents=True, exist_ok=True)
    (jobdir / f"{name}.pid").write_text(json.dumps({"type": "local", "pid": pid}))
    return SimpleNamespace(identifier=identifier or name, basepath=jobdir / name)


def e1():
    """One scheduler, one process: a job with two requests on the same token"""
    with tempfile.TemporaryDirectory(ignore_cleanup_errors=True) as d:
        d = Path(d)
        out = d / "out"
        out.mkdir()
        with experiment(d / "ws", "e1", port=-1) as xp:
            xp.workspace.launcher.setenv("PYTHONPATH", os.environ["PYTHONPATH"])
            token = CounterToken("e1", d / "token", 4)
            counts = {}

            # a: 2 + 1 = 3 of 4 for 4 s
            a = Hold(x=0, out=out, secs=4.0)
            a.add_dependencies(token.dependency(2), token.dependency(1))
            counts[0] = 3
            a.submit()
            # c: 1 of 4 for 1 s
            c = Hold(x=1, out=out, secs=1.0)
            c.add_dependencies(token.dependency(1))
            counts[1] = 1
            c.submit()
            time.sleep(0.5)
            # d: 2 of 4: must wait for a
            dd = Hold(x=2, out=out, secs=1.0)
            dd.add_dependencies(token.dependency(2))
            counts[2] = 2
            dd.submit()
            xp.wait()
        p = peak(out, counts)
        print(f"E1: peak of the amounts held by running jobs = {p} (total 4)")
        return p > 4


def e2():
    """The same task (same identifier) run in two workspaces sharing a token"""
    with tempfile.TemporaryDirectory(ignore_cleanup_errors=True) as d:
        d = Path(d)
        token = CounterToken("e2", d / "token", 2)
        pid = os.getpid()
        held = 0
        for ws in ("ws1", "ws2"):
            dep = token.dependency(1)
            dep.target = fakejob(d / ws, "job", pid, identifier="cafe")
            token.acquire(dep)
            held += 1
        dep = token.dependency(1)
        dep.target = fakejob(d / "ws1", "other", pid)
        try:
            token.acquire(dep)
            held += 1
        except LockError:
            pass
        print(f"E2: held {held} (total 2), files:", [p.name for p in (d / "token").glob("*.token")])
        return held > 2


def e3():
    """A request that is not an int (2.0): another scheduler removes the file"""
    with tempfile.TemporaryDirectory(ignore_cleanup_errors=True) as d:
        d = Path(d)
        pid = os.getpid()
        a = CounterToken("e3-a", d / "token", 2)
        dep = a.dependency(4 / 2)
        dep.target = fakejob(d, "joba", pid)
        a.acquire(dep)
        held = 2
        # Another scheduler (another object stands for another process here)
        b = CounterToken("e3-b", d / "token", 2)
        dep = b.dependency(1)
        dep.target = fakejob(d, "jobb", pid)
        try:
            b.acquire(dep)
            held += 1
        except LockError:
            pass
        print(f"E3: held {held} (total 2)")
        return held > 2


def e4():
    """A negative request"""
    with tempfile.TemporaryDirectory(ignore_cleanup_errors=True) as d:
        d = Path(d)
        pid = os.getpid()
        token = CounterToken("e4", d / "token", 1)
        held = 0
        for name, count in (("neg", -1), ("j1", 1), ("j2", 1)):
            dep = token.dependency(count)
            dep.target = fakejob(d, name, pid)
            try:
                token.acquire(dep)
                held += max(count, 0)
            except LockError:
                pass
        print(f"E4: held {held} (total 1)")
        return held > 1


if __name__ == "__main__":
    logging.basicConfig(level=logging.ERROR)
    logging.getLogger().setLevel(logging.CRITICAL)
    which = sys.argv[1:] or ["E1", "E2", "E3", "E4"]
    violations = 0
    for name in which:
        violations += bool(globals()[name.lower()]())
    print("violations:", violations)
    sys.stdout.flush()
    os._exit(violations)
