"""Reproducer for behaviours of the UNMODIFIED code that go against C17
(PYTHONPATH=<tree>/src python existing_defect_repro.py; exit 1 = reproduced)"""
import contextlib, io, logging, sys, tempfile
from pathlib import Path
from typing import List
from experimaestro import Annotated, Config, Param, Task, pathgenerator, setmeta
from experimaestro.scheduler import experiment
from experimaestro.scheduler.workspace import RunMode

logging.disable(logging.CRITICAL)


class Sub(Config):
    v: Param[int]
    out: Annotated[Path, pathgenerator("sub.txt")]


class T(Task):
    sub: Param[Sub]
    x: Param[int]

    def execute(self):
        pass


class L(Task):
    subs: Param[List[Sub]]

    def execute(self):
        pass


def submit(task):
    with contextlib.redirect_stderr(io.StringIO()):
        task.submit(run_mode=RunMode.DRY_RUN)
    return task.__xpm__.job.path


found = []
with tempfile.TemporaryDirectory() as wd:
    with experiment(wd, "existing", port=-1, run_mode=RunMode.DRY_RUN):
        # 1. A sub-configuration shared by two tasks: sealed by the first submit,
        # it keeps the path generated inside the FIRST job directory
        shared = Sub(v=1)
        t1, t2 = T(sub=shared, x=1), T(sub=shared, x=2)
        p1, p2 = submit(t1), submit(t2)
        if p2 not in t2.sub.out.parents:
            found.append(
                f"shared sub-configuration: t2.sub.out = {t2.sub.out.relative_to(wd)} "
                f"is not inside t2's job directory {p2.relative_to(wd)}"
            )
        # ... while a fresh, equal configuration gets a path inside its own directory
        t2b = T(sub=Sub(v=1), x=2)
        p2b = submit(t2b)
        if p2b == p2 and t2b.sub.out != t2.sub.out:
            found.append(
                "same configuration (same identifier), different generated paths: "
                f"{t2.sub.out.relative_to(wd)} vs {t2b.sub.out.relative_to(wd)}"
            )

        # 2. A meta-flagged list element is ignored by the identifier but counts
        # for the position of the following elements
        a = L(subs=[setmeta(Sub(v=0), True), Sub(v=1)])
        b = L(subs=[Sub(v=1)])
        pa, pb = submit(a), submit(b)
        if pa == pb and a.subs[1].out != b.subs[0].out:
            found.append(
                "same identifier/job directory, but Sub(v=1).out = "
                f"{a.subs[1].out.relative_to(pa)} vs {b.subs[0].out.relative_to(pb)}"
            )

for f in found:
    print("-", f)
sys.exit(1 if found else 0)
