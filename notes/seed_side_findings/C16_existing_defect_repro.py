import os, sys, subprocess, tempfile, shutil, logging
from pathlib import Path
from experimaestro import experiment
from experimaestro.tests.tasks.all import SimpleTask
logging.basicConfig(level=logging.ERROR)
workdir = Path(tempfile.mkdtemp(prefix="xpm-c16-slash-"))
try:
    with experiment(workdir, "group/demo", port=-1) as xp:
        xp.setenv("PYTHONPATH", os.environ.get("PYTHONPATH", ""))
        t = SimpleTask(x=1); t.submit(); t.__xpm__.job.wait()
    print(sorted(str(p.relative_to(workdir)) for p in (workdir/"xp").rglob("*")))
    out = subprocess.run([sys.executable, "-m", "experimaestro", "orphans", str(workdir)], capture_output=True, text=True).stdout
    print(out)
    ok = "1 jobs are not orphans" in out
finally:
    shutil.rmtree(workdir, ignore_errors=True)
sys.exit(0 if ok else 1)
