"""Reproducers for behaviours of the UNMODIFIED tree that look at odds with C13
(see existing_defect.md). Prints one line per case; always exits 0.

PYTHONPATH=<tree>/src /venv/bin/python existing_defect_repro.py
"""

import json
import sys
import tempfile
import textwrap
from pathlib import Path

DEFS = '''
from typing import Dict
from experimaestro import Config, Task, Param, LightweightTask

EVENTS = []


class Leaf(Config):
    x: Param[int] = 0

    def __post_init__(self):
        EVENTS.append(("post_init", f"leaf{self.x}"))


class Pre(LightweightTask):
    name: Param[str]

    def __post_init__(self):
        EVENTS.append(("post_init", self.name))

    def execute(self):
        EVENTS.append(("execute", self.name))


class Up(Task):
    leaf: Param[Leaf]

    def task_outputs(self, dep):
        return dep(Leaf(x=42))

    def __post_init__(self):
        EVENTS.append(("post_init", "up"))

    def execute(self):
        EVENTS.append(("body", "up"))


class Main(Task):
    leaf: Param[Leaf]

    def __post_init__(self):
        EVENTS.append(("post_init", "main"))

    def execute(self):
        EVENTS.append(("body", "main"))


class Named(Config):
    named: Param[Dict[str, Leaf]]
'''


def main():
    with tempfile.TemporaryDirectory(prefix="c13existing") as tmp:
        pkg = Path(tmp) / "c13existingpkg"
        pkg.mkdir()
        (pkg / "__init__.py").write_text("")
        (pkg / "defs.py").write_text(textwrap.dedent(DEFS))
        sys.path.insert(0, tmp)

        from c13existingpkg import defs
        from experimaestro.core.objects import ConfigInformation
        from experimaestro.core.context import SerializationContext
        from experimaestro.scheduler.workspace import RunMode
        from experimaestro.xpmutils import EmptyContext

        def dump(cfg):
            if not cfg.__xpm__._sealed:
                cfg.__xpm__.validate()
                cfg.__xpm__.seal(EmptyContext())
            for t in cfg.__xpm__.init_tasks:
                t.__xpm__.seal(EmptyContext())
            return json.loads(
                json.dumps(cfg.__xpm__.__get_objects__([], SerializationContext()))
            )

        def load(objects):
            defs.EVENTS.clear()
            o = ConfigInformation.fromParameters(objects, as_instance=True)
            o.execute()
            return list(defs.EVENTS)

        # 1. the task a configuration comes from (a dependency) is instantiated
        #    when loading the parameter file, and its pre-tasks are executed;
        #    not when converting directly
        def build():
            leaf = defs.Leaf(x=1)
            up = defs.Up(leaf=leaf).add_pretasks(defs.Pre(name="pre-of-up"))
            out = up.submit(
                run_mode=RunMode.DRY_RUN, init_tasks=[defs.Pre(name="init-of-up")]
            )
            return defs.Main(leaf=out)

        task = build()
        task.submit(run_mode=RunMode.DRY_RUN)
        print("1. parameter file:", load(dump(task)))
        defs.EVENTS.clear()
        build().instance()
        print("1. direct        :", list(defs.EVENTS))

        # 2. an init task listed twice / a task that is both a pre-task and an
        #    init task is executed twice
        task = defs.Main(leaf=defs.Leaf(x=2))
        init = defs.Pre(name="init")
        task.__xpm__.init_tasks = [init, init]  # = submit(init_tasks=[init, init])
        print("2. init task listed twice:", load(dump(task)))
        task = defs.Main(leaf=defs.Leaf(x=2))
        both = defs.Pre(name="both")
        task.add_pretasks(both)
        task.__xpm__.init_tasks = [both]
        print("2. pre-task and init task:", load(dump(task)))

        # 3. fromParameters(as_instance=False, return_tasks=True)
        task = defs.Main(leaf=defs.Leaf(x=3))
        try:
            r = ConfigInformation.fromParameters(
                dump(task), as_instance=False, return_tasks=True
            )
            print("3. return_tasks:", r)
        except Exception as e:
            print("3. return_tasks:", repr(e))

        # 4. a dictionary parameter with a key named "type"
        print("4. direct:", defs.Named(named={"type": defs.Leaf(x=4)}).instance().named)
        try:
            o = ConfigInformation.fromParameters(
                dump(defs.Named(named={"type": defs.Leaf(x=4)})), as_instance=True
            )
            print("4. parameter file:", o.named)
        except Exception as e:
            print("4. parameter file:", repr(e))

        # 5. direct conversion of a task with init tasks: the pre-tasks of the
        #    init task are run, the init task is not
        task = defs.Main(leaf=defs.Leaf(x=5))
        init = defs.Pre(name="init").add_pretasks(defs.Pre(name="pre-of-init"))
        task.__xpm__.init_tasks = [init]
        defs.EVENTS.clear()
        task.instance()
        print("5. direct, with init task:", list(defs.EVENTS))


if __name__ == "__main__":
    main()
