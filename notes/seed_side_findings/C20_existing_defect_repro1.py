"""Existing defect (unmodified code): a deprecated class used as the value of a
parameter whose default is an instance of the replacement does not yield the
identifier of the replacement.

PYTHONPATH=<tree>/src python existing_defect_repro1.py   (exit 1 = defect present)
"""
import sys

sys._called_from_test = True  # allows classes to be declared anywhere
from typing import List  # noqa: E402
from experimaestro import Config, Param, deprecate  # noqa: E402


class New(Config):
    __xpmid__ = "c20probe.new"
    x: Param[int] = 1


@deprecate
class Old(New):
    __xpmid__ = "c20probe.old"


class Holder(Config):
    __xpmid__ = "c20probe.holder"
    p: Param[New] = New()


class HolderList(Config):
    __xpmid__ = "c20probe.holderlist"
    p: Param[List[New]] = [New()]


def h(c):
    return c.__xpm__.identifier.all.hex()


assert h(New()) == h(Old()), "top level: OK in the unmodified code"
bad = []
if h(Holder(p=Old())) != h(Holder(p=New())):
    bad.append(f"Holder(p=Old()) {h(Holder(p=Old()))[:12]} != Holder(p=New()) {h(Holder(p=New()))[:12]}")
if h(HolderList(p=[Old()])) != h(HolderList(p=[New()])):
    bad.append("HolderList(p=[Old()]) != HolderList(p=[New()])")
for b in bad:
    print("C20 VIOLATED (unmodified code):", b)
sys.exit(1 if bad else 0)
