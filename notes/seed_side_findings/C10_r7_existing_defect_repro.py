"""Reproducer for two situations where the UNMODIFIED tree violates C10.

A. SIGTERM / SIGINT received by a relaunch of an already successful job, at any
   instant between the acquisition of the run lock and the end of the process
   (e.g. at the line `logger.info("Job already completed")` of
   TaskRunner.run): the handler writes <name>.failed next to <name>.done.

B. SIGTERM / SIGINT received while the task body runs inside a construct that
   swallows SystemExit (bare `except:`, `except BaseException`, `finally:
   continue/return`, a context manager whose __exit__ returns True, a
   __del__...): the handler writes .failed, removes the pid file and RELEASES
   THE RUN LOCK, then its sys.exit(1) is swallowed: the process goes on running
   the body without lock nor pid file, and ends by writing .done next to
   .failed.

Run with PYTHONPATH=<tree>/src. exit code 1 when a defect shows, 0 otherwise.
"""

import json
import os
import shutil
import signal
import subprocess
import sys
import tempfile
import textwrap
import time
from pathlib import Path

TASK_SOURCE = '''
import os, time
from pathlib import Path
from experimaestro import Task, Param


class C10Existing(Task):
    mode: Param[str]

    def execute(self):
        d = Path(os.getcwd())
        (d / "body.started").write_text(str(os.getpid()))
        if self.mode == "swallow":
            # Two units of work, each protected by a bare except (sloppy, but
            # legal and common)
            for i in range(2):
                try:
                    while not (d / ("go%d" % i)).exists():
                        time.sleep(0.02)
                except:
                    (d / "swallowed").write_text("unit %d" % i)
        (d / "body.ended").write_text(str(os.getpid()))
'''

# Runs the job script in-process and sends a signal to itself at the instant
# the runner logs a given message (= the signal arrives at that line)
INJECTOR = '''
import logging, os, signal, sys, runpy
script, target, signame = sys.argv[1:4]
class Inject(logging.Filter):
    def filter(self, record):
        if record.getMessage() == target:
            os.kill(os.getpid(), getattr(signal, signame))
        return True
logging.getLogger("xpm").addFilter(Inject())
sys.argv = [script]
runpy.run_path(script, run_name="__main__")
'''


def generate(workdir: Path, modes):
    moddir = workdir / "mods"
    moddir.mkdir()
    (moddir / "c10existing_task.py").write_text(textwrap.dedent(TASK_SOURCE))
    sys.path.insert(0, str(moddir))

    import experimaestro
    from experimaestro import experiment
    from experimaestro.scheduler.workspace import RunMode
    import c10existing_task

    srcdir = str(Path(experimaestro.__file__).parents[1])
    scripts = {}
    with experiment(workdir / "ws", "c10existing", run_mode=RunMode.GENERATE_ONLY) as xp:
        xp.workspace.launcher.setenv("PYTHONPATH", srcdir + ":" + str(moddir))
        for mode in modes:
            task = c10existing_task.C10Existing(mode=mode)
            task.submit()
            job = task.__xpm__.job
            scripts[mode] = job.path / (job.name + ".py")
    return scripts, srcdir + ":" + str(moddir)


def wait_for(condition, what, timeout=30):
    end = time.time() + timeout
    while time.time() < end:
        if condition():
            return
        time.sleep(0.02)
    raise TimeoutError("Timeout while waiting for: " + what)


def can_lock(path: Path) -> bool:
    """True if the run lock can be taken right now (checked in another process)"""
    code = (
        "import fasteners, sys; l = fasteners.InterProcessLock(sys.argv[1]);"
        "ok = l.acquire(blocking=False); ok and l.release(); sys.exit(0 if ok else 1)"
    )
    return subprocess.run([sys.executable, "-c", code, str(path)]).returncode == 0


def main():
    workdir = Path(tempfile.mkdtemp(prefix="c10existing-"))
    defects = []
    procs = []
    try:
        scripts, pythonpath = generate(workdir, ["plain", "swallow"])
        env = dict(os.environ, PYTHONPATH=pythonpath)
        injector = workdir / "injector.py"
        injector.write_text(INJECTOR)

        def popen(args, errname, script):
            err = (script.parent / errname).open("w")
            p = subprocess.Popen(
                args, stdout=err, stderr=err, env=env, cwd="/", start_new_session=True
            )
            procs.append(p)
            script.with_suffix(".pid").write_text(
                json.dumps({"type": "local", "pid": p.pid})
            )
            return p

        # ---- A: signal received by the relaunch of a successful job
        script = scripts["plain"]
        done, failed = script.with_suffix(".done"), script.with_suffix(".failed")
        assert popen([sys.executable, str(script)], "run1.err", script).wait(60) == 0
        assert done.is_file() and not failed.is_file()
        for signame in ("SIGTERM", "SIGINT"):
            p = popen(
                [sys.executable, str(injector), str(script), "Job already completed", signame],
                "relaunch-%s.err" % signame,
                script,
            )
            code = p.wait(60)
            print(
                "A/%s: relaunch of a successful job: exit code %s, .done=%s .failed=%s"
                % (signame, code, done.is_file(), failed.is_file())
            )
            if failed.is_file():
                defects.append(
                    "A/%s: failure marker (content %r) written next to the success "
                    "marker of a job whose body ran to completion"
                    % (signame, failed.read_text())
                )
                failed.unlink()

        # ---- B: the SystemExit of the signal handler is swallowed by the body
        script = scripts["swallow"]
        d = script.parent
        done, failed, pidfile, lock = (
            script.with_suffix(".done"),
            script.with_suffix(".failed"),
            script.with_suffix(".pid"),
            script.with_suffix(".lock"),
        )
        p = popen([sys.executable, str(script)], "run1.err", script)
        wait_for(lambda: (d / "body.started").is_file(), "the task body")
        time.sleep(0.2)
        assert not can_lock(lock), "the run lock should be held"
        os.kill(p.pid, signal.SIGTERM)
        wait_for(failed.is_file, "the failure marker")
        time.sleep(0.5)
        alive = p.poll() is None
        lockable = can_lock(lock)
        print(
            "B: after SIGTERM in the body: process alive=%s, run lock free=%s, "
            ".pid=%s .failed=%s" % (alive, lockable, pidfile.is_file(), failed.is_file())
        )
        if alive and lockable:
            defects.append(
                "B: the job process is alive and still runs the body, but its run "
                "lock is released and its pid file removed"
            )
        (d / "go0").write_text("")
        (d / "go1").write_text("")
        code = p.wait(60)
        print(
            "B: end of the process: exit code %s, .done=%s .failed=%s swallowed=%s"
            % (code, done.is_file(), failed.is_file(), (d / "swallowed").is_file())
        )
        if done.is_file():
            defects.append(
                "B: a termination signal was received while the body ran, and the "
                "job folder shows a success marker (.failed present: %s)"
                % failed.is_file()
            )
    finally:
        for p in procs:
            if p.poll() is None:
                p.kill()
                p.wait()
        shutil.rmtree(workdir, ignore_errors=True)

    if defects:
        print("EXISTING DEFECTS:")
        for defect in defects:
            print(" -", defect)
        return 1
    print("no defect shown")
    return 0


if __name__ == "__main__":
    sys.exit(main())
