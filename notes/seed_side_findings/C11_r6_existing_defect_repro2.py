"""Existing defect (unmodified tree): an empty pid file + a token make the
restarted experiment spin for ever while holding the lock of the job, whose
process can then never run

TokenFile.watch (tokens.py) does, while holding the lock of the job:

    s = ""
    while s == "":
        s = pidpath.read_text()

i.e. it waits for the scheduler that created the pid file to write it.  If that
scheduler was killed between `pidpath.open("w")` and the write (CommandLineJob.aio_run),
nobody will ever write it.

Scenario (jobs A, B, C each need the single unit of a counter token):

1. run 1 acquires the token for a job, spawns its process, opens its pid file
   and is killed before writing it (crash-point injection: SIGKILL to itself);
2. the job process is still starting and has not taken the job lock yet (it is
   frozen with SIGSTOP for a few seconds here, as a loaded machine would do);
3. run 2 starts: the watcher of the token file left by run 1 takes the free job
   lock, finds the empty pid file and spins (100% CPU) without ever releasing
   the lock;
4. the job process (resumed) waits for its lock for ever; in run 2 the job waits
   for the token that its own token file occupies, like the two other jobs.

Expected (C11): the body of every job is executed once, run 2 ends normally.
Observed: no body is ever executed, run 2 never ends.

usage: PYTHONPATH=<tree>/src python existing_defect_repro2.py
exit code 1 = the defect shows, 0 = run 2 completes with every body executed once
"""
import json
import logging
import os
import shutil
import signal
import subprocess
import sys
import tempfile
import time
from pathlib import Path

import psutil

import experimaestro
from experimaestro import Meta, Param, Task, experiment

SRC = str(Path(experimaestro.__file__).parents[1])
TAGS = "ABC"


class Step(Task):
    tag: Param[str]
    ctl: Meta[Path]

    def execute(self):
        with open(self.ctl / f"{self.tag}.runs", "a") as fp:
            fp.write(f"{os.getpid()}\n")
        while not (self.ctl / f"{self.tag}.go").exists():
            time.sleep(0.05)
        with open(self.ctl / f"{self.tag}.ends", "a") as fp:
            fp.write(f"{os.getpid()}\n")


def inject_crash():
    """The experiment process kills itself when it is about to write the
    content of the (already created) pid file of the first job it starts"""
    import experimaestro.commandline as commandline

    class Json:
        def __getattr__(self, name):
            return getattr(json, name)

        def dump(self, *args, **kwargs):
            os.kill(os.getpid(), signal.SIGKILL)

    commandline.json = Json()


def xp_main(workdir: str, ctl: str, crash: str):
    logging.basicConfig(level=logging.INFO)
    if crash == "crash":
        inject_crash()
    os.environ["XPM_WORKDIR"] = str(Path(workdir) / "xpm-local")
    with experiment(workdir, "c11existing2", port=-1) as xp:
        xp.workspace.launcher.setenv("PYTHONPATH", SRC)
        token = xp.workspace.connector.createtoken("c11existing2-token", 1)
        for tag in TAGS:
            Step(tag=tag, ctl=Path(ctl)).add_dependencies(token.dependency(1)).submit()
    print("EXPERIMENT-COMPLETED", flush=True)


def lines(path: Path):
    return path.read_text().split() if path.exists() else []


def start_xp(root: Path, n: int, crash: bool):
    env = dict(os.environ)
    env["PYTHONPATH"] = SRC
    log = open(root / f"run{n}.log", "w")
    return subprocess.Popen(
        [
            sys.executable,
            __file__,
            "xp",
            str(root / "ws"),
            str(root / "ctl"),
            "crash" if crash else "nocrash",
        ],
        env=env,
        stdout=log,
        stderr=subprocess.STDOUT,
    )


def main():
    root = Path(tempfile.mkdtemp(prefix="c11existing2-"))
    ctl = root / "ctl"
    ctl.mkdir()
    procs = []
    defect = None

    def state():
        return {t: (len(lines(ctl / f"{t}.runs")), len(lines(ctl / f"{t}.ends"))) for t in TAGS}

    try:
        p1 = start_xp(root, 1, True)
        procs.append(p1)
        code = p1.wait(120)
        assert code == -signal.SIGKILL, f"run 1 ended with code {code}"

        # Freezes the job process (it is still starting: no lock taken yet)
        orphans = []
        t0 = time.time()
        while not orphans and time.time() - t0 < 5:
            for process in psutil.process_iter(["pid", "cmdline"]):
                cmdline = " ".join(process.info["cmdline"] or [])
                if str(root) in cmdline and "step.py" in cmdline:
                    process.send_signal(signal.SIGSTOP)
                    orphans.append(process)
        assert orphans, "no job process found"
        pidfiles = list((root / "ws" / "jobs").glob("*/*/*.pid"))
        assert len(pidfiles) == 1 and pidfiles[0].read_text() == "", "crash point missed"
        print(f"run 1 killed; job process {orphans[0].pid} frozen; empty pid file {pidfiles[0].name}")

        p2 = start_xp(root, 2, False)
        procs.append(p2)
        time.sleep(8)
        for process in orphans:
            process.send_signal(signal.SIGCONT)
        print("job process resumed; every job may end")
        for t in TAGS:
            (ctl / f"{t}.go").write_text("")

        try:
            code = p2.wait(60)
            print(f"run 2 ended with code {code}: {state()}")
            if code != 0 or any(state()[t] != (1, 1) for t in TAGS):
                defect = f"run 2 ended with code {code}, bodies (started, ended): {state()}"
        except subprocess.TimeoutExpired:
            cpu = psutil.Process(p2.pid).cpu_percent(interval=2)
            defect = (
                f"run 2 never ends (cpu {cpu:.0f}%), bodies (started, ended): {state()};"
                f" job process alive: {orphans[0].is_running()}"
            )
    finally:
        for p in procs:
            if p.poll() is None:
                p.kill()
        for t in TAGS:
            (ctl / f"{t}.go").write_text("")
        for process in psutil.process_iter(["pid", "cmdline"]):
            try:
                if str(root) in " ".join(process.info["cmdline"] or []):
                    process.kill()
            except psutil.Error:
                pass
        time.sleep(0.5)
        if os.environ.get("C11DEMO_KEEP") != "1":
            shutil.rmtree(root, ignore_errors=True)

    if defect:
        print("DEFECT:", defect)
        sys.exit(1)
    print("OK: run 2 completed, every body executed once")


if __name__ == "__main__":
    if len(sys.argv) > 1 and sys.argv[1] == "xp":
        xp_main(*sys.argv[2:])
    else:
        main()
