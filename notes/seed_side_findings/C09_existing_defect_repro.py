"""Reproducer for a C09 violation of the UNMODIFIED code

State on disk = a scheduler was killed while two of its jobs (still running)
held one unit each of a token of capacity 2. A new scheduler process creates
the CounterToken: it must watch the two jobs and give the units back when the
jobs end.

Run: PYTHONPATH=<tree>/src /venv/bin/python existing_defect_repro.py
Exit code 0 = both units came back, 1 = a unit was never given back
"""

import json
import shutil
import subprocess
import sys
import tempfile
import time
import os
from pathlib import Path


def main():
    from experimaestro.tokens import CounterToken

    root = Path(tempfile.mkdtemp(prefix="c09existing"))
    tokdir = root / "token"
    tokdir.mkdir()
    sleepers = []
    for name in ("a", "b"):
        jobdir = root / "jobs" / name
        jobdir.mkdir(parents=True)
        p = subprocess.Popen([sys.executable, "-c", "import time; time.sleep(60)"])
        sleepers.append(p)
        (jobdir / f"{name}.pid").write_text(json.dumps({"type": "local", "pid": p.pid}))
        (tokdir / f"{name}.token").write_text(f"1\n{jobdir / name}\n")

    # The new scheduler
    token = CounterToken("c09-existing", tokdir, 2)
    time.sleep(1)
    print(f"jobs running: token shows {token.available}/{token.capacity}", flush=True)

    # The jobs end (their pid files are removed by the job process when it ends)
    for name, p in zip(("a", "b"), sleepers):
        (root / "jobs" / name / f"{name}.pid").unlink()
        p.kill()

    deadline = time.time() + 15
    while time.time() < deadline:
        left = [p.name for p in tokdir.glob("*.token")]
        if not left and token.available == token.capacity:
            break
        time.sleep(0.1)

    left = [p.name for p in tokdir.glob("*.token")]
    print(
        f"jobs ended: token shows {token.available}/{token.capacity}, "
        f"token files left: {left}",
        flush=True,
    )
    ok = not left and token.available == token.capacity
    shutil.rmtree(root, ignore_errors=True)
    print("OK" if ok else "C09 VIOLATED: a unit held by an ended job was not given back")
    sys.stdout.flush()
    os._exit(0 if ok else 1)


if __name__ == "__main__":
    main()
