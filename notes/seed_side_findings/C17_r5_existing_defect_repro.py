"""Reproducers for situations where the UNMODIFIED code does not give what C17 states"""
import logging, sys
from pathlib import Path
from typing import Optional
from experimaestro import (Annotated, Config, LightweightTask, Meta, Param, Task,
                           pathgenerator)
from experimaestro.xpmutils import DirectoryContext

logging.disable(logging.CRITICAL)

class A(Config):
    x: Param[int]
    path: Annotated[Path, pathgenerator("f.txt")]

# --- E2: a meta parameter holding a shared sub-configuration moves its paths
class T2(Task):
    m: Meta[Optional[A]]
    p: Param[A]

def e2():
    s = A(x=1)
    t1 = T2(m=s, p=s)
    t2 = T2(p=A(x=1))
    assert t1.__xpm__.identifier.all == t2.__xpm__.identifier.all
    base = Path("/tmp/base")
    t1.__xpm__.validate_and_seal(DirectoryContext(base))
    t2.__xpm__.validate_and_seal(DirectoryContext(base))
    print("E2 same identifier; p.path =", t1.p.path, "vs", t2.p.path)
    return t1.p.path != t2.p.path

# --- E3: the full identifier does not say which configuration holds a pre-task
class P(LightweightTask):
    state: Annotated[Path, pathgenerator("state.pt")]
    def execute(self): pass

class B(Config):
    y: Param[int]

class T3(Task):
    a: Param[B]
    b: Param[B]

def e3():
    p1, p2 = P(), P()
    t1 = T3(a=B(y=1).add_pretasks(p1), b=B(y=2))
    t2 = T3(a=B(y=1), b=B(y=2).add_pretasks(p2))
    assert t1.__xpm__.identifier.all == t2.__xpm__.identifier.all
    base = Path("/tmp/base")
    t1.__xpm__.validate_and_seal(DirectoryContext(base))
    t2.__xpm__.validate_and_seal(DirectoryContext(base))
    print("E3 same identifier; pre-task path =", p1.state, "vs", p2.state)
    return p1.state != p2.state

r = {"E2": e2(), "E3": e3()}
print(r)
sys.exit(1 if any(r.values()) else 0)
