"""C20 - defect present in the UNMODIFIED tree

`deprecated list --fix` cannot load (hence does not repair) a job whose classes
are defined in a plain python file (a module that is not part of a package,
e.g. the experiment script itself or a helper file next to it) as soon as the
job holds a sub-configuration.

params.json records such classes with a "file" entry; load_objects() executes
that file again FOR EACH object of the job, so each object gets its own copy
of the classes: the sub-configuration is an instance of copy #1 of `Model`,
the task expects copy #2 of `Model`, and the validation done when loading
configurations (as_instance=False, the mode used by the repair command) raises
"... is not a subtype of ...". load_job() logs the error and returns None: the
folder is skipped, it is neither linked nor moved, and the resubmission under
the new class starts from scratch.

(The job process itself loads with as_instance=True, which does not validate:
this is why running such jobs works.)

Exit code 1 when the defect shows, 0 otherwise.
"""

import importlib
import logging
import shutil
import sys
import tempfile
import textwrap
from pathlib import Path

tmp = Path(tempfile.mkdtemp(prefix="c20existing-"))
failures = []

SOURCE = '''
from experimaestro import Config, Task, Param, deprecate

class Model(Config):
    __xpmid__ = "c20existing.model"
    layers: Param[int]

class Learner(Task):
    """The replacement class"""
    __xpmid__ = "c20existing.learner"
    model: Param[Model]

    def execute(self):
        pass

#DEPRECATE
class OldLearner(Learner):
    """The former class"""
    __xpmid__ = "c20existing.oldlearner"

class FlatLearner(Task):
    """Same story, without sub-configuration (control)"""
    __xpmid__ = "c20existing.flatlearner"
    layers: Param[int]

    def execute(self):
        pass

#DEPRECATE
class OldFlatLearner(FlatLearner):
    __xpmid__ = "c20existing.oldflatlearner"
'''


def check(condition, message):
    if condition:
        print(f"[ok]   {message}")
    else:
        print(f"[FAIL] {message}")
        failures.append(message)


try:
    # A plain file next to the experiment script: not a package
    codedir = tmp / "code"
    codedir.mkdir()
    source = codedir / "c20existing_tasks.py"
    source.write_text(SOURCE)
    sys.path.insert(0, str(codedir))
    sys.dont_write_bytecode = True

    import c20existing_tasks as tasks
    from experimaestro import RunMode, experiment
    from experimaestro.tools.jobs import fix_deprecated

    logging.basicConfig(level=logging.ERROR)
    workspace = tmp / "workspace"

    # --- Before the deprecation: jobs recorded under the former classes
    with experiment(workspace, "before", run_mode=RunMode.GENERATE_ONLY):
        oldpaths = []
        for task in (
            tasks.OldLearner(model=tasks.Model(layers=2)),
            tasks.OldFlatLearner(layers=2),
        ):
            task.submit()
            job = task.__xpm__.job
            assert (job.path / "params.json").is_file()
            job.donepath.touch()
            oldpaths.append(job.path)

    # --- The code is updated: the former classes are now deprecated
    source.write_text(SOURCE.replace("#DEPRECATE", "@deprecate"))
    importlib.invalidate_caches()
    tasks = importlib.reload(tasks)
    assert tasks.OldLearner.__xpmtype__.deprecated

    # --- Repair
    fix_deprecated(workspace, True, False)

    # --- Resubmission with the new classes
    with experiment(workspace, "after", run_mode=RunMode.DRY_RUN):
        for title, task, oldpath in (
            ("task with a sub-configuration", tasks.Learner(model=tasks.Model(layers=2)), oldpaths[0]),
            ("task without sub-configuration (control)", tasks.FlatLearner(layers=2), oldpaths[1]),
        ):
            task.submit()
            job = task.__xpm__.job
            check(
                job.path.exists() and job.path.resolve() == oldpath.resolve(),
                f"{title}, classes defined in a plain file: the folder stored under "
                "the former identifier is reachable under the new one",
            )
            check(job.donepath.exists(), f"{title}: resubmitting finds the result")
finally:
    shutil.rmtree(tmp, ignore_errors=True)

if failures:
    print(f"\nC20 VIOLATED in the unmodified tree ({len(failures)} failed checks)")
    sys.exit(1)
print("\nC20 holds in this scenario")
