"""Reproducers on the UNMODIFIED tree (see existing_defect.md)

usage: PYTHONPATH=<tree>/src python existing_defect_repro.py [same-id|two-requests]
exit code 1 = more than the total of the token was held by running jobs
"""
import logging
import os
import sys
import tempfile
import time
from pathlib import Path

import experimaestro
from experimaestro import experiment
from experimaestro.scheduler import JobState
from experimaestro.tests.task_tokens import TokenTask

SRC = str(Path(experimaestro.__file__).parents[1])


def running(tasks):
    return [t for t in tasks if t.__xpm__.job.state == JobState.RUNNING]


def same_identifier():
    """The same task (same identifier) submitted in two workspaces that share a
    token of total 3: the token file <identifier>.token of the first job is
    overwritten by the second one, and 1 is counted for both of them as soon as
    the state is read again from the directory (here: when job Z ends)"""
    root = Path(tempfile.mkdtemp(prefix="c08same-"))
    os.environ["XPM_WORKDIR"] = str(root / "xpmhome")
    gate = root / "gate"
    with experiment(root / "ws1", "xp1") as xp1:
        xp1.workspace.launcher.setenv("PYTHONPATH", SRC)
        tok = xp1.token("c08-same", 3)
        z = TokenTask(path=root / "gate.z", x=0)
        z.add_dependencies(tok.dependency(1)).submit()
        t1 = TokenTask(path=gate, x=1)
        t1.add_dependencies(tok.dependency(1)).submit()
        time.sleep(2)
        with experiment(root / "ws2", "xp2") as xp2:
            xp2.workspace.launcher.setenv("PYTHONPATH", SRC)
            tok = xp2.token("c08-same", 3)
            t2 = TokenTask(path=gate, x=1)  # same identifier as t1, other workspace
            t2.add_dependencies(tok.dependency(1)).submit()
            time.sleep(2)
            others = []
            for x in (3, 4):
                t = TokenTask(path=gate, x=x)
                t.add_dependencies(tok.dependency(1)).submit()
                others.append(t)
            time.sleep(2)
            print("[same-id] total 3, before the end of Z: %d running" % len(running([z, t1, t2] + others)))
            (root / "gate.z").write_text("go")
            time.sleep(3)
            n = len(running([z, t1, t2] + others))
            files = [p.name[:8] for p in tok.path.glob("*.token")]
            print("[same-id] total 3, after the end of Z: running jobs (1 token each): %d, token files %s" % (n, files))
            gate.write_text("go")
            xp2.wait()
        xp1.wait()
    return n > 3


def two_requests():
    """A job X with two requests (1 and 2) on the same token of total 4: its
    second request overwrites the token file written for the first one; once
    the state is read again from the directory (when job Z ends) less than 3
    is counted for X"""
    root = Path(tempfile.mkdtemp(prefix="c08two-"))
    os.environ["XPM_WORKDIR"] = str(root / "xpmhome")
    gate = root / "gate"
    with experiment(root / "ws", "xp") as xp:
        xp.workspace.launcher.setenv("PYTHONPATH", SRC)
        tok = xp.token("c08-two", 4)
        z = TokenTask(path=root / "gate.z", x=0)
        z.add_dependencies(tok.dependency(1)).submit()
        x = TokenTask(path=gate, x=1)
        x.add_dependencies(tok.dependency(1), tok.dependency(2)).submit()
        time.sleep(2)
        ys = []
        for i in (2, 3):
            y = TokenTask(path=gate, x=i)
            y.add_dependencies(tok.dependency(1)).submit()
            ys.append(y)
        time.sleep(2)
        (root / "gate.z").write_text("go")
        time.sleep(3)
        r = running([z, x] + ys)
        held = 3 * (x in r) + 1 * (z in r) + sum(1 for y in ys if y in r)
        files = {p.name[:8]: p.read_text().split("\n")[0] for p in tok.path.glob("*.token")}
        print("[two-requests] total 4, held by running jobs: %d, token files %s" % (held, files))
        gate.write_text("go")
        xp.wait()
    return held > 4


if __name__ == "__main__":
    logging.basicConfig(level=logging.ERROR)
    which = sys.argv[1] if len(sys.argv) > 1 else "same-id"
    violated = same_identifier() if which == "same-id" else two_requests()
    print("VIOLATION" if violated else "OK")
    sys.exit(1 if violated else 0)
