"""C20 - fourth situation in the UNMODIFIED tree (scheduler side)

A deprecated task class yields the identifier of its replacement -- and the
scheduler does not cope with it: when one experiment submits the same job once
through the new class and once through the deprecated one (e.g. the user script
has been migrated, a library it calls still uses the former name), the second
submit() dies with a bare AssertionError.

Scheduler.aio_registerJob() finds the job already registered under the same
identifier and then asserts `job.type == other.type`: the two ObjectType differ
(deprecated class / replacement) although, by C20, they stand for the same job.
The experiment is aborted ("Not waiting since an exception was thrown").

The same submission made twice through the same class is (correctly) answered
with the first job.

This starts one real (empty) job.  Exit code 1 when the defect shows.
"""

import logging
import shutil
import sys
import tempfile
import textwrap
from pathlib import Path

tmp = Path(tempfile.mkdtemp(prefix="c20existing4-"))
failures = []


def check(condition, message):
    if condition:
        print(f"[ok]   {message}")
    else:
        print(f"[FAIL] {message}")
        failures.append(message)


try:
    pkg = tmp / "code" / "c20existing4pkg"
    pkg.mkdir(parents=True)
    (pkg / "__init__.py").write_text("")
    (pkg / "model.py").write_text(
        textwrap.dedent(
            """
            from experimaestro import Task, Param, deprecate

            class Learner(Task):
                __xpmid__ = "c20existing4.learner"
                x: Param[int]

                def execute(self):
                    pass

            @deprecate
            class OldLearner(Learner):
                __xpmid__ = "c20existing4.oldlearner"
            """
        )
    )
    sys.path.insert(0, str(pkg.parent))

    import experimaestro
    from c20existing4pkg.model import Learner, OldLearner
    from experimaestro import experiment

    logging.basicConfig(level=logging.ERROR)

    assert (
        Learner(x=1).__xpm__.identifier == OldLearner(x=1).__xpm__.identifier
    ), "deprecated class and replacement should have the same identifier"

    first = None
    try:
        with experiment(tmp / "workspace", "plan", port=-1) as xp:
            xp.setenv(
                "PYTHONPATH",
                f"{pkg.parent}:{Path(experimaestro.__file__).parents[1]}",
            )
            first = Learner(x=1)
            first.submit()

            again = Learner(x=1)
            again.submit()
            check(
                again.__xpm__.job is first.__xpm__.job,
                "same class submitted twice: answered with the first job",
            )

            try:
                old = OldLearner(x=1)
                old.submit()
                check(
                    old.__xpm__.job is first.__xpm__.job,
                    "deprecated class submitted after its replacement: answered "
                    "with the first job",
                )
            except AssertionError:
                import traceback

                traceback.print_exc()
                check(
                    False,
                    "deprecated class submitted after its replacement (same "
                    "identifier): submit() raised AssertionError",
                )
    finally:
        if first is not None and first.__xpm__.job._future is not None:
            print("first job:", first.__xpm__.job.wait())
finally:
    shutil.rmtree(tmp, ignore_errors=True)

if failures:
    print(f"\nDefect present in the unmodified tree ({len(failures)} failed checks)")
    sys.exit(1)
print("\nNo defect in this scenario")
