"""Reproducer for a C01 violation of the UNMODIFIED code

A task whose task_outputs() marks one of its own parameters as its output
(`return dep(self.x)`): mark_output() sets x.__xpm__.task on a configuration
that is already sealed, without dropping the identifiers cached on it (and on
the task). The identifier of x - and of everything built on x afterwards -
then depends on whether an identifier of x was requested between the moment x
was sealed and the moment it was marked (in NORMAL mode the scheduler thread
does exactly that when it writes params.json: __get_objects__ requests the
identifier of every sub-configuration; so it is a race with the main thread).

Run with:  PYTHONPATH=<tree>/src /venv/bin/python existing_defect_repro.py
exit code 0 = property holds, 1 = violated (it is violated on the unmodified
tree)
"""

import sys
from experimaestro import Config, Task, Param
from experimaestro.core.objects import ConfigWalkContext
from experimaestro.scheduler.workspace import RunMode


class X(Config):
    __xpmid__ = "c01existing.x"
    a: Param[int]


class T(Task):
    __xpmid__ = "c01existing.t"
    x: Param[X]

    def task_outputs(self, dep):
        return dep(self.x)


class U(Config):
    __xpmid__ = "c01existing.u"
    x: Param[X]


def run(request_first: bool):
    x = X(a=1)
    t = T(x=x)
    if request_first:
        # what the scheduler thread does when it writes params.json: the task is
        # sealed and the identifier of each sub-configuration is requested
        t.__xpm__.seal(ConfigWalkContext())
        x.__xpm__.identifier
    out = t.submit(run_mode=RunMode.DRY_RUN)
    assert out is x
    return {
        "x": x.__xpm__.identifier.all.hex(),
        "U(x=x)": U(x=out).__xpm__.identifier.all.hex(),
    }


a = run(False)
b = run(True)
failed = False
for key in a:
    same = a[key] == b[key]
    failed |= not same
    print(("ok      " if same else "VIOLATED"), key, a[key][:16], b[key][:16])  # noqa: T201
sys.exit(1 if failed else 0)
