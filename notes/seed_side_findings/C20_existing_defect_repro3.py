# E2: --fix --cleanup on a linked workspace where a params.json cannot be loaded any more
import os, sys, tempfile, shutil, logging, json
from pathlib import Path
from experimaestro import Task, Param, Meta, experiment, deprecate

class NewTask(Task):
    __xpmid__ = "c20probe.newtask"
    x: Param[int]
    def execute(self):
        pass

class OldTask(NewTask):
    __xpmid__ = "c20probe.oldtask"

if os.environ.get("C20PROBE_DEPRECATED") == "1":
    deprecate(OldTask)

if __name__ == "__main__":
    import experimaestro
    from experimaestro.tools.jobs import fix_deprecated
    workdir = Path(tempfile.mkdtemp(prefix="c20probe-"))
    try:
        with experiment(workdir, "probe", port=None) as xp:
            xp.workspace.launcher.setenv("PYTHONPATH", str(Path(experimaestro.__file__).parents[1]))
            t = OldTask(x=1); t.submit()
            xp.wait()
        old_path = t.__xpm__.job.path
        os.environ["C20PROBE_DEPRECATED"] = "1"
        deprecate(OldTask)
        fix_deprecated(workdir, True, False)
        new_path = workdir / "jobs" / "c20probe.newtask" / NewTask(x=1).__xpm__.identifier.all.hex()
        assert new_path.is_symlink() and new_path.resolve() == old_path.resolve()
        # the deprecated class is then removed from the code: params.json cannot be loaded
        p = old_path / "params.json"
        params = json.loads(p.read_text())
        params["objects"][-1]["type"] = "RemovedTask"
        p.write_text(json.dumps(params))
        fix_deprecated(workdir, True, True)
        print("reachable under new id after --fix --cleanup:", new_path.exists(), "| old data still there:", old_path.is_dir())
    finally:
        shutil.rmtree(workdir, ignore_errors=True)
