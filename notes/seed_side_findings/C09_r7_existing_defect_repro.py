"""Situations in which the UNMODIFIED tree violates C09 (tokens are given back,
waiting jobs eventually run).

Usage: PYTHONPATH=<tree>/src python existing_defect_repro.py [shared|dirname|abandoned]

Without argument, every scenario is run in its own process; the exit code is 1
if at least one of them shows the defect (0 if none does).

- shared: a token dependency object shared by two tasks (what
  `task.copy_dependencies(other)` does with the token dependencies of `other`)
- dirname: a CounterToken whose directory name ends with ".token"
- abandoned: an experiment left through an exception while a job holds the
  token, then a second experiment in the same process
"""

import json
import logging
import os
import shutil
import subprocess
import sys
import tempfile
import time
from pathlib import Path

TIMEOUT = 15


def finish(workdir, problems):
    sys.stdout.flush()
    shutil.rmtree(workdir, ignore_errors=True)
    if problems:
        print("C09 VIOLATED:")
        for p in problems:
            print("  -", p)
    else:
        print("C09 holds")
    sys.stdout.flush()
    os._exit(1 if problems else 0)


def wait_finished(tasks, timeout=TIMEOUT):
    t0 = time.time()
    while time.time() - t0 < timeout:
        if all(t.__xpm__.job.state.finished() for t in tasks):
            return True
        time.sleep(0.2)
    return False


def shared():
    """One CounterTokenDependency object in the dependencies of two jobs"""
    from experimaestro.tests.utils import TemporaryExperiment
    from experimaestro.tests.task_tokens import TokenTask
    from experimaestro.tokens import CounterToken
    from experimaestro.scheduler import JobState

    workdir = Path(tempfile.mkdtemp(prefix="xpm-c09-shared-"))
    problems = []
    with TemporaryExperiment("shared", workdir=workdir, maxwait=0) as xp:
        token = CounterToken("c09-shared", workdir / "tokens" / "shared", 1)
        go = workdir / "go"
        a = TokenTask(path=go, x=1)
        a.add_dependencies(token.dependency(1))
        a.submit()
        while a.__xpm__.job.state != JobState.RUNNING:
            time.sleep(0.05)

        # b needs what a needs
        b = TokenTask(path=go, x=2)
        b.copy_dependencies(a)
        b.submit()
        time.sleep(0.5)
        print("a", a.__xpm__.job.state, "b", b.__xpm__.job.state)

        go.write_text("go")
        wait_finished([a, b])
        files = sorted(p.name for p in token.path.glob("*.token"))
        print(
            "a",
            a.__xpm__.job.state,
            "b",
            b.__xpm__.job.state,
            f"available {token.available}/{token.capacity} token files {files}",
        )
        if a.__xpm__.job.state == JobState.DONE and files:
            problems.append(
                "job a is over but its token file is still there "
                f"(available {token.available}/{token.capacity})"
            )
        if b.__xpm__.job.state != JobState.DONE:
            problems.append(
                f"job b is {b.__xpm__.job.state.name}: never launched although"
                " no job is running"
            )
        finish(workdir, problems)


def dirname():
    """The directory of the token is named <something>.token"""
    from experimaestro.tests.utils import TemporaryExperiment
    from experimaestro.tests.task_tokens import TokenTask
    from experimaestro.tokens import CounterToken
    from experimaestro.scheduler import JobState
    from experimaestro.ipc import ipcom

    workdir = Path(tempfile.mkdtemp(prefix="xpm-c09-dirname-"))
    problems = []
    name = os.environ.get("C09_TOKEN_DIRNAME", "gpu.token")
    with TemporaryExperiment("dirname", workdir=workdir, maxwait=0) as xp:
        token = CounterToken("c09-dirname", workdir / "tokens" / name, 1)

        # The unit is held by the job of another scheduler (that died): a
        # token file, the pid file of the job and its (live) process
        jobdir = workdir / "jobs" / "other.task" / "0123"
        jobdir.mkdir(parents=True)
        process = subprocess.Popen(["sleep", "1000"])
        (jobdir / "task.pid").write_text(
            json.dumps({"type": "local", "pid": process.pid})
        )
        (token.path / "0123.token").write_text(f"1\n{jobdir / 'task'}\n")
        time.sleep(1)

        go = workdir / "go"
        go.write_text("go")
        k = TokenTask(path=go, x=1)
        token(1, k).submit()
        time.sleep(1)
        print("k", k.__xpm__.job.state, "available", token.available)

        # The other job ends
        process.kill()
        wait_finished([k])
        files = sorted(p.name for p in token.path.glob("*.token"))
        print(
            "k",
            k.__xpm__.job.state,
            f"available {token.available}/{token.capacity} token files {files}",
            "observer thread alive:",
            ipcom().observer.is_alive(),
        )
        if not files and token.available != token.capacity:
            problems.append(
                f"no token file left but available is {token.available}"
                f"/{token.capacity}"
            )
        if k.__xpm__.job.state != JobState.DONE:
            problems.append(f"job k is {k.__xpm__.job.state.name}: never launched")
        if not ipcom().observer.is_alive():
            problems.append("the file system observer thread of the process died")
        finish(workdir, problems)


def abandoned():
    """Experiment left through an exception while its job holds the token"""
    from experimaestro.tests.utils import TemporaryExperiment
    from experimaestro.tests.task_tokens import TokenTask
    from experimaestro.tokens import CounterToken
    from experimaestro.scheduler import JobState

    workdir = Path(tempfile.mkdtemp(prefix="xpm-c09-abandoned-"))
    problems = []
    token = CounterToken("c09-abandoned", workdir / "tokens" / "abandoned", 1)
    go = workdir / "go"

    class Stop(Exception):
        pass

    try:
        with TemporaryExperiment("first", workdir=workdir, maxwait=0):
            a = TokenTask(path=go, x=1)
            token(1, a).submit()
            while a.__xpm__.job.state != JobState.RUNNING:
                time.sleep(0.05)
            raise Stop()
    except Stop:
        print("first experiment left; job a still runs, available", token.available)

    # Job a ends by itself
    go.write_text("go")
    t0 = time.time()
    while not a.__xpm__.job.donepath.exists() and time.time() - t0 < TIMEOUT:
        time.sleep(0.1)
    time.sleep(2)
    files = sorted(p.name for p in token.path.glob("*.token"))
    print(
        "job a done:",
        a.__xpm__.job.donepath.exists(),
        f"available {token.available}/{token.capacity} token files {files}",
    )

    with TemporaryExperiment("second", workdir=workdir, maxwait=0):
        b = TokenTask(path=go, x=2)
        token(1, b).submit()
        wait_finished([b])
        files = sorted(p.name for p in token.path.glob("*.token"))
        print(
            "b",
            b.__xpm__.job.state,
            f"available {token.available}/{token.capacity} token files {files}",
        )
        if files:
            problems.append("job a is over but its token file is still there")
        if b.__xpm__.job.state != JobState.DONE:
            problems.append(f"job b is {b.__xpm__.job.state.name}: never launched")
        finish(workdir, problems)


SCENARIOS = {"shared": shared, "dirname": dirname, "abandoned": abandoned}

if __name__ == "__main__":
    logging.basicConfig(level=logging.ERROR)
    if len(sys.argv) > 1:
        SCENARIOS[sys.argv[1]]()
    else:
        shown = []
        for name in SCENARIOS:
            print(f"=== {name}")
            sys.stdout.flush()
            code = subprocess.call([sys.executable, __file__, name])
            if code != 0:
                shown.append(name)
        print("defect shown in:", shown)
        sys.exit(1 if shown else 0)
