"""Unmodified tree: (1) a regex filter never matches a tag whose value is the
empty string, even when the regular expression matches ""; (2) `jobs list
--ready` crashes on an entry of jobs/<task>/ that is not a directory."""
import json, sys, tempfile
from pathlib import Path
from click.testing import CliRunner
from experimaestro.cli import cli
import experimaestro.cli.jobs  # noqa
from experimaestro.cli.filter import createFilter, JobInformation

bad = 0
with tempfile.TemporaryDirectory() as tmp:
    ws = Path(tmp) / "ws"
    job = ws / "jobs" / "demo.train" / "h1"
    job.mkdir(parents=True)
    (ws / ".__experimaestro__").write_text("")
    (job / "params.json").write_text(json.dumps({"tags": {"suffix": "", "model": "bert"}}))
    (job / "train.done").write_text("")
    for e in ['suffix ~ ".*"', 'suffix ~ "^$"', 'suffix ~ "(v2)?$"']:
        got = bool(createFilter(e)(JobInformation(job, "train")))
        print(f'tags suffix="": `{e}` -> {got} (the regular expression matches "")')
        bad += not got
    # while equality sees the empty value
    print('`suffix = ""` ->', bool(createFilter('suffix = ""')(JobInformation(job, "train"))))

    (ws / "jobs" / "demo.train" / "stray.txt").write_text("not a job")
    r = CliRunner().invoke(cli, ["jobs", "--workdir", str(ws), "list", "--ready"])
    print("jobs list --ready with a stray file: exit", r.exit_code, repr(r.exception))
    bad += r.exit_code != 0
sys.exit(1 if bad else 0)
