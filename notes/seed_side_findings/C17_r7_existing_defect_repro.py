"""Situations where the UNMODIFIED tree violates C17 (generated paths are
private to the job, distinct and reproducible)

Run with: PYTHONPATH=<tree>/src python existing_defect_repro.py
Exit code 1 when at least one of the defects shows, 0 otherwise. Each case
prints DEFECT or ok.
"""

import sys
import tempfile
from pathlib import Path
from typing import Optional

from experimaestro import (
    Config,
    Task,
    Param,
    Meta,
    Annotated,
    LightweightTask,
    PathGenerator,
    field,
    pathgenerator,
    experiment,
)
from experimaestro.scheduler.workspace import RunMode
from experimaestro.xpmutils import DirectoryContext


def inside(path: Path, task) -> bool:
    try:
        path.resolve().relative_to(task.__xpm__.job.path.resolve())
        return True
    except ValueError:
        return False


class Model(Config):
    __xpmid__ = "c17existing.model"
    n: Param[int]


class Sub(Config):
    __xpmid__ = "c17existing.sub"
    x: Param[int]
    path: Meta[Path] = field(default_factory=PathGenerator("file.txt"))


class Loader(LightweightTask):
    __xpmid__ = "c17existing.loader"
    model: Param[Model]
    cache: Meta[Path] = field(default_factory=PathGenerator("cache.bin"))

    def execute(self):
        pass


class Learn(Task):
    """Returns its own `model` parameter, marked as its output"""

    __xpmid__ = "c17existing.learn"
    model: Param[Model]
    epochs: Param[int]
    log: Meta[Path] = field(default_factory=PathGenerator("log.txt"))

    def task_outputs(self, dep):
        return dep(self.model)

    def execute(self):
        pass


class LearnSub(Task):
    """Same, without top-level generated path"""

    __xpmid__ = "c17existing.learnsub"
    sub: Param[Sub]
    model: Param[Model]

    def task_outputs(self, dep):
        return dep(self.model)

    def execute(self):
        pass


def named(context, config):
    return config.name + ".txt"


class Named(Task):
    __xpmid__ = "c17existing.named"
    sub: Param[Sub]
    name: Param[Optional[str]]
    out: Annotated[Path, pathgenerator(named)]

    def execute(self):
        pass


class WithMeta(Task):
    __xpmid__ = "c17existing.withmeta"
    m: Meta[Optional[Sub]]
    p: Param[Sub]

    def execute(self):
        pass


class Holder(Config):
    __xpmid__ = "c17existing.holder"


class WithHolder(Task):
    __xpmid__ = "c17existing.withholder"
    h: Param[Holder]

    def execute(self):
        pass


class Two(Task):
    __xpmid__ = "c17existing.two"
    a: Param[Sub]
    y: Param[int] = 0
    out: Meta[Path] = field(default_factory=PathGenerator("out.txt"))

    def execute(self):
        pass


defects = []


def report(name: str, ok: bool, details: str):
    print(f"[{'ok' if ok else 'DEFECT'}] {name}\n      {details}")  # noqa: T201
    if not ok:
        defects.append(name)


def main():
    with tempfile.TemporaryDirectory() as workdir:
        with experiment(workdir, "c17existing", port=-1, run_mode=RunMode.DRY_RUN):
            # --- 1. Chain of tasks that each return dep(self.model)
            model = Model(n=1)
            out1 = Learn(model=model, epochs=1).submit()
            t2 = Learn(model=out1, epochs=2)
            t2.submit()
            report(
                "1. task given the output of another task, returning dep(self.model)",
                inside(t2.log, t2),
                f"log={t2.log} job={t2.__xpm__.job.path}",
            )

            # --- 2. Own parameter marked as output + pre-task / init task on it
            for mode in ("pre-task", "init task"):
                model = Model(n=2)
                t = LearnSub(sub=Sub(x=1), model=model)
                if mode == "pre-task":
                    t.add_pretasks(Loader(model=model))
                    t.submit()
                    loader = t.__xpm__.pre_tasks[0]
                else:
                    loader = Loader(model=model)
                    t.submit(init_tasks=[loader])
                report(
                    f"2. task returning dep(self.model) with a {mode} using the model",
                    inside(t.sub.path, t) and inside(loader.cache, t),
                    f"sub.path={t.sub.path} job={t.__xpm__.job.path}",
                )

            # --- 3. A submission that fails while generating, then succeeds
            t = Named(sub=Sub(x=1))
            try:
                t.submit()
            except TypeError:
                pass
            t.name = "hello"
            t.submit()
            report(
                "3. submit() failing in a generator, parameter fixed, submit() again",
                inside(t.sub.path, t),
                f"sub.path={t.sub.path} job={t.__xpm__.job.path}",
            )

            # --- 4. Same identifier (same job directory), different paths
            s = Sub(x=1)
            ta = WithMeta(m=s, p=s)
            ta.submit()
            s = Sub(x=1)
            tb = WithMeta(p=s)
            tb.submit()
            same_job = ta.__xpm__.job.path == tb.__xpm__.job.path
            report(
                "4a. configuration shared by an ignored (Meta) parameter and a parameter",
                not same_job or ta.p.path == tb.p.path,
                f"same job directory={same_job}: p.path={ta.p.path} vs {tb.p.path}",
            )

            ta = WithHolder(h=Holder()).add_pretasks(Loader(model=Model(n=3)))
            ta.submit()
            tb = WithHolder(h=Holder().add_pretasks(Loader(model=Model(n=3))))
            tb.submit()
            same_job = ta.__xpm__.job.path == tb.__xpm__.job.path
            pa = ta.__xpm__.pre_tasks[0].cache
            pb = tb.h.__xpm__.pre_tasks[0].cache
            report(
                "4b. pre-task attached to the task or to one of its parameters",
                not same_job or pa == pb,
                f"same job directory={same_job}: cache={pa} vs {pb}",
            )

            # --- 5. Configurations sealed before the submission
            s = Sub(x=3)
            Two(a=s).submit()
            tb = Two(a=s, y=1)
            tb.submit()
            report(
                "5a. sub-configuration given to two tasks",
                inside(tb.a.path, tb),
                f"a.path={tb.a.path} job={tb.__xpm__.job.path}",
            )

            tc = Two(a=Sub(x=5), y=7)
            tc.instance(DirectoryContext(Path(workdir) / "elsewhere"))
            tc.submit()
            report(
                "5b. task.instance(DirectoryContext(...)) then task.submit()",
                inside(tc.out, tc) and inside(tc.a.path, tc),
                f"out={tc.out} job={tc.__xpm__.job.path}",
            )

    print(f"{len(defects)} defect(s) shown")  # noqa: T201
    return 1 if defects else 0


if __name__ == "__main__":
    sys.exit(main())
