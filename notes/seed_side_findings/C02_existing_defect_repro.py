"""Situations where the UNMODIFIED code already departs from C02
(PYTHONPATH=<tree>/src python existing_defect_repro.py; prints one line per case,
exit code 1 when at least one of them is observed)"""
import sys
from pathlib import Path
from typing import List, Optional

from experimaestro import Config, Task, LightweightTask, Param, Meta
from experimaestro.core.objects import setmeta
from experimaestro.scheduler.workspace import RunMode


def ident(x):
    return x.__xpm__.identifier.all.hex()[:16]


observed = []


def case(name, a, b):
    same = a == b
    print(f"[{'same' if same else 'DIFFERENT'}] {name}: {a} / {b}")
    if not same:
        observed.append(name)


class Pre(LightweightTask):
    def execute(self):
        pass


class Sub(Config):
    x: Param[int] = 1


class Holder(Config):
    s: Param[Optional[Sub]]
    m: Meta[Optional[Sub]]
    l: Param[List[Sub]] = []


# 1. pre-tasks carried by configurations that are excluded from the signature
case(
    "Meta parameter: value with / without a pre-task",
    ident(Holder(m=Sub())),
    ident(Holder(m=Sub().add_pretasks(Pre()))),
)
case(
    "meta-flagged sub-configuration with a pre-task vs unset",
    ident(Holder()),
    ident(Holder(s=setmeta(Sub().add_pretasks(Pre()), True))),
)
case(
    "meta-flagged list element with a pre-task vs empty list",
    ident(Holder()),
    ident(Holder(l=[setmeta(Sub().add_pretasks(Pre()), True)])),
)


# 2. a NaN default is never equal to itself: never elided
class N0(Config):
    __xpmid__ = "c02.existing.nan"
    a: Param[int]


class N1(Config):
    __xpmid__ = "c02.existing.nan"
    a: Param[int]
    f: Param[float] = float("nan")


case("new parameter with default NaN", ident(N0(a=1)), ident(N1(a=1)))


# 3. copy_dependencies ("Add all the dependencies from other configuration")
class Out(Config):
    a: Param[int]


class Producer(Task):
    x: Param[int]

    def task_outputs(self, dep):
        return dep(Out(a=1))


class User(Config):
    b: Param[int]


out = Producer(x=1).submit(run_mode=RunMode.DRY_RUN)
u = User(b=1)
before = ident(u)
u.copy_dependencies(out)
case("copy_dependencies(task output)", before, ident(u))


# 4. a list of paths is neither ignored nor hashable
class Paths(Config):
    a: Param[int]
    files: Param[List[Path]]


try:
    ident(Paths(a=1, files=["/a"]))
    print("[ok] List[Path] hashed or ignored")
except NotImplementedError as e:
    print("[ERROR] List[Path]:", e)
    observed.append("List[Path]")

sys.exit(1 if observed else 0)
