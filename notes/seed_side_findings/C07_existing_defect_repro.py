"""Reproducer for existing_defect.md (UNMODIFIED code): a job that transitively
depends on a failed job - through a job that succeeded in an earlier run - is
launched.

Run with: PYTHONPATH=<tree>/src python existing_defect_repro.py
Exit code 0 = C is not launched, 1 = C is launched although A failed.
"""

import os
import shutil
import signal
import sys
import tempfile
from pathlib import Path

import experimaestro
from experimaestro import Task, Param, Meta, experiment
from experimaestro.scheduler import FailedExperiment

XPM_SRC = str(Path(experimaestro.__file__).resolve().parents[1])


class A(Task):
    failflag: Meta[Path]

    def execute(self):
        if self.failflag.is_file():
            raise AssertionError("Failing")


class B(Task):
    a: Param[A]


    def execute(self):
        pass


class C(Task):
    b: Param[B]
    marker: Meta[Path]

    def execute(self):
        self.marker.write_text("launched")


def main():
    workdir = Path(tempfile.mkdtemp(prefix="c07existing-"))
    try:
        # Run 1: A and B succeed
        with experiment(workdir, "xp", port=-1) as xp:
            xp.workspace.launcher.setenv("PYTHONPATH", XPM_SRC)
            a = A(failflag=workdir / "fail").submit()
            B(a=a).submit()
        ajob = a.__xpm__.job

        # A has to be computed again (its result was removed), and now fails
        shutil.rmtree(ajob.path)
        (workdir / "fail").write_text("fail")

        failed = False
        try:
            with experiment(workdir, "xp", port=-1) as xp:
                xp.workspace.launcher.setenv("PYTHONPATH", XPM_SRC)
                a = A(failflag=workdir / "fail").submit()
                b = B(a=a).submit()
                c = C(b=b, marker=workdir / "c.launched").submit()
        except FailedExperiment:
            failed = True

        print("A:", a.__xpm__.job.state)
        print("B:", b.__xpm__.job.state, "(succeeded in run 1)")
        print("C:", c.__xpm__.job.state)
        print("C launched:", (workdir / "c.launched").is_file())
        print("experiment failure:", failed)
        return 1 if (workdir / "c.launched").is_file() else 0
    finally:
        shutil.rmtree(workdir, ignore_errors=True)


if __name__ == "__main__":
    signal.alarm(120)
    code = main()
    sys.stdout.flush()
    os._exit(code)
