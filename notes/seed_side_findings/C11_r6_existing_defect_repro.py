"""Existing defect (unmodified tree): a job that ends while the restarted
experiment looks for its process makes the restarted experiment hang for ever

CommandLineJob.aio_process does

    if self.pidpath.is_file():
        ...
        pinfo = json.loads(self.pidpath.read_text())      # only JSONDecodeError is caught

The job process removes its pid file when it ends.  If that happens between
the two calls, read_text() raises FileNotFoundError; the exception leaves
Scheduler.aio_submit, the job never reaches a final state, the count of
unfinished jobs is never decremented and experiment.wait() (hence the `with
experiment(...)` block) never returns, although the job has completed.

The window is a few microseconds wide, so this reproducer forces the
interleaving: in the second run, Path.is_file() on the pid file (called from
aio_process) lets the job end (writes the file it is waiting for and waits
until the pid file is gone) before returning the answer it had computed.
Nothing else is altered.

usage: PYTHONPATH=<tree>/src python existing_defect_repro.py
exit code 1 = the defect shows (second run hangs), 0 = second run completes
"""
import logging
import os
import shutil
import signal
import subprocess
import sys
import tempfile
import time
from pathlib import Path

import psutil

import experimaestro
from experimaestro import Meta, Param, Task, experiment

SRC = str(Path(experimaestro.__file__).parents[1])


class Step(Task):
    tag: Param[str]
    ctl: Meta[Path]

    def execute(self):
        with open(self.ctl / f"{self.tag}.runs", "a") as fp:
            fp.write(f"{os.getpid()}\n")
        while not (self.ctl / f"{self.tag}.go").exists():
            time.sleep(0.05)
        with open(self.ctl / f"{self.tag}.ends", "a") as fp:
            fp.write(f"{os.getpid()}\n")


def force_interleaving(ctl: Path):
    """The job ends between pidpath.is_file() and pidpath.read_text()"""
    import sys as _sys

    original = Path.is_file
    state = {"done": False}

    def is_file(self, *args, **kwargs):
        result = original(self, *args, **kwargs)
        caller = _sys._getframe(1).f_code.co_name
        if (
            result
            and not state["done"]
            and self.name.endswith(".pid")
            and caller == "aio_process"
        ):
            state["done"] = True
            # ... the job ends now
            (ctl / "A.go").write_text("")
            while original(self):
                time.sleep(0.01)
            print("INTERLEAVING-FORCED", flush=True)
        return result

    Path.is_file = is_file


def xp_main(workdir: str, ctl: str, mode: str):
    logging.basicConfig(level=logging.INFO)
    if mode == "interleave":
        force_interleaving(Path(ctl))
    with experiment(workdir, "c11existing", port=-1) as xp:
        xp.workspace.launcher.setenv("PYTHONPATH", SRC)
        task = Step(tag="A", ctl=Path(ctl)).submit()
        if mode == "interleave":
            # What became of the coroutine that handles the job (Scheduler.aio_submit)
            exception = task.__xpm__.job._future.exception(timeout=40)
            print("AIO_SUBMIT-EXCEPTION:", repr(exception), flush=True)
    print("EXPERIMENT-COMPLETED", flush=True)


def lines(path: Path):
    return path.read_text().split() if path.exists() else []


def start_xp(root: Path, n: int, mode: str):
    env = dict(os.environ)
    env["PYTHONPATH"] = SRC
    log = open(root / f"run{n}.log", "w")
    return subprocess.Popen(
        [sys.executable, __file__, "xp", str(root / "ws"), str(root / "ctl"), mode],
        env=env,
        stdout=log,
        stderr=subprocess.STDOUT,
    )


def main():
    root = Path(tempfile.mkdtemp(prefix="c11existing-"))
    ctl = root / "ctl"
    ctl.mkdir()
    procs = []
    defect = None
    try:
        p1 = start_xp(root, 1, "plain")
        procs.append(p1)
        t0 = time.time()
        while not lines(ctl / "A.runs"):
            assert time.time() - t0 < 120, "job A did not start"
            time.sleep(0.05)
        time.sleep(1)
        p1.send_signal(signal.SIGTERM)
        p1.wait(60)
        print("run 1 terminated while A runs")

        p2 = start_xp(root, 2, "interleave")
        procs.append(p2)
        try:
            code = p2.wait(60)
            print(f"run 2 ended with code {code}")
            if code != 0:
                defect = f"run 2 ended with code {code}"
        except subprocess.TimeoutExpired:
            done = list((root / "ws" / "jobs").glob("*/*/*.done"))
            defect = (
                "run 2 hangs although job A has completed"
                f" (bodies started {len(lines(ctl / 'A.runs'))},"
                f" ended {len(lines(ctl / 'A.ends'))}, done marker: {bool(done)})"
            )
        log = (root / "run2.log").read_text()
        print("interleaving forced:", "INTERLEAVING-FORCED" in log)
        for line in log.splitlines():
            if "AIO_SUBMIT-EXCEPTION" in line:
                print("run 2 log:", line[:300])
    finally:
        for p in procs:
            if p.poll() is None:
                p.kill()
        (ctl / "A.go").write_text("")
        for process in psutil.process_iter(["pid", "cmdline"]):
            try:
                if str(root) in " ".join(process.info["cmdline"] or []):
                    process.kill()
            except psutil.Error:
                pass
        time.sleep(0.5)
        if os.environ.get("C11DEMO_KEEP") != "1":
            shutil.rmtree(root, ignore_errors=True)

    if defect:
        print("DEFECT:", defect)
        sys.exit(1)
    print("OK: run 2 completed")


if __name__ == "__main__":
    if len(sys.argv) > 1 and sys.argv[1] == "xp":
        xp_main(*sys.argv[2:])
    else:
        main()
