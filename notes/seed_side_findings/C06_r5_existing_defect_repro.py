"""Reproducer for behaviours of the UNMODIFIED code that violate C06
(see existing_defect.md).

Usage: PYTHONPATH=<tree>/src python existing_defect_repro.py [thread|listener]
exit 0 = the job became final and experiment.wait() returned; 1 = hang
"""

import logging
import os
import shutil
import sys
import tempfile
import threading
from pathlib import Path

import experimaestro
from experimaestro import Task, Param
from experimaestro.scheduler import FailedExperiment, Listener, experiment

logging.getLogger().setLevel(logging.CRITICAL)


class Simple(Task):
    x: Param[int]

    def execute(self):
        pass


class BrokenWatcher:
    def update(self):
        raise RuntimeError("watched output callback failed")


class BrokenListener(Listener):
    def __init__(self):
        self.calls = 0

    def job_state(self, job):
        self.calls += 1
        raise RuntimeError("listener failed")


def main(mode):
    workdir = Path(tempfile.mkdtemp(prefix="xpm-c06-existing-"))
    xp = experiment(workdir, "existing")
    xp.__enter__()
    xp.workspace.launcher.setenv(
        "PYTHONPATH", str(Path(experimaestro.__file__).parents[1])
    )
    listener = None
    if mode == "listener":
        listener = BrokenListener()
        xp.scheduler.addlistener(listener)

    task = Simple(x=1)
    if mode == "thread":
        # registered before the job can end: submit() only registers the job,
        # so we hook the job class's done_handler through a watcher right away
        task.submit()
        task.__xpm__.job.watched_outputs["broken"] = BrokenWatcher()
    else:
        task.submit()
    job = task.__xpm__.job

    result = {}

    def waiter():
        try:
            xp.wait()
            result["r"] = "returned"
        except FailedExperiment as e:
            result["r"] = f"FailedExperiment {e}"

    t = threading.Thread(target=waiter, daemon=True)
    t.start()
    t.join(15)
    hang = t.is_alive()
    print(
        f"mode={mode}: job.state={job.state}, job.wait() answered={job._future.done()}, "
        f"experiment.wait() {'STILL BLOCKED after 15s' if hang else result['r']}"
        + (f", listener calls={listener.calls}" if listener else "")
    )
    shutil.rmtree(workdir, ignore_errors=True)
    sys.stdout.flush()
    os._exit(1 if hang else 0)


if __name__ == "__main__":
    main(sys.argv[1] if len(sys.argv) > 1 else "thread")
