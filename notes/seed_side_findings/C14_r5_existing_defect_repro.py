"""Reproducer (UNMODIFIED tree): values held in lists / dictionaries of a
sealed configuration, and its list of pre-tasks, can be modified in place.

Exit code 1 when the (existing) defect shows, 0 otherwise.
"""
import sys
import tempfile
import logging
from typing import List, Dict

from experimaestro import Config, Task, Param, RunMode, LightweightTask
from experimaestro.scheduler import experiment

logging.basicConfig(level=logging.ERROR)


class Item(Config):
    x: Param[int]


class Pre(LightweightTask):
    def execute(self):
        pass


class Learn(Task):
    sizes: Param[List[int]]
    options: Param[Dict[str, int]]
    items: Param[List[Item]]

    def execute(self):
        pass


def content_identifier(config) -> str:
    return config.copy().__xpm__.identifier.all.hex()


problems = []
with tempfile.TemporaryDirectory(prefix="xpm-c14-existing") as workdir:
    with experiment(workdir, "c14existing", run_mode=RunMode.DRY_RUN):
        task = Learn(sizes=[1, 2], options={"a": 1}, items=[Item(x=1)])
        task.submit()
        identifier = task.__xpm__.identifier.all.hex()

        # In-place modifications: none of them is rejected
        task.sizes.append(3)
        task.options["b"] = 2
        task.items.append(Item(x=2))  # an unsealed configuration, modifiable
        task.items[1].x = 5
        task.pre_tasks.append(Pre())  # bypasses the guard of add_pretasks

        print("sizes", task.sizes, "options", task.options, "items", task.items)
        print("pre-tasks", task.__xpm__.pre_tasks)
        if task.sizes != [1, 2] or task.options != {"a": 1} or len(task.items) != 1:
            problems.append("list / dict parameter values modified after submission")
        if task.__xpm__.pre_tasks:
            problems.append("pre-task added after submission (through .pre_tasks)")
        if task.__xpm__.identifier.all.hex() == identifier != content_identifier(task):
            problems.append(
                "identifier unchanged but no longer the one of the parameters "
                "that will be written to params.json"
            )

for problem in problems:
    print("EXISTING DEFECT:", problem)
sys.exit(1 if problems else 0)
