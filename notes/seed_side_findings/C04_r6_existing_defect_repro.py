"""C04: situations in which the UNMODIFIED tree launches a job before a job it
depends on has finished (see existing_defect.md)

Run with: PYTHONPATH=<tree>/src python existing_defect_repro.py
Exit code 1 when (at least) one of the defects shows, 0 otherwise
"""

import sys
import time
from pathlib import Path
from typing import Optional

from experimaestro import Config, Param, Meta, Task


class Slow(Task):
    """Runs until it is released"""

    name: Param[str]
    control: Meta[Path]

    def execute(self):
        (self.control / f"{self.name}.started").write_text(str(time.time()))
        start = time.time()
        while not (self.control / "release").exists():
            if time.time() - start > 60:
                raise RuntimeError("never released")
            time.sleep(0.02)
        (self.control / f"{self.name}.finished").write_text(str(time.time()))


class Quick(Task):
    def execute(self):
        pass


class Holder(Config):
    slow: Param[Slow]


class Consumer1(Task):
    """Scenario 1: the upstream task is a direct parameter"""

    slow: Param[Slow]
    control: Meta[Path]

    def execute(self):
        (self.control / "consumer1.started").write_text(str(time.time()))


class Consumer2(Task):
    """Scenario 2: the upstream task is inside a nested configuration"""

    holder: Param[Holder]
    control: Meta[Path]

    def execute(self):
        (self.control / "consumer2.started").write_text(str(time.time()))


class Consumer3(Task):
    """Scenario 3: the parameter is declared with a base type"""

    anything: Param[Config]
    control: Meta[Path]

    def execute(self):
        (self.control / "consumer3.started").write_text(str(time.time()))


class Result(Config):
    extra: Param[Optional[Slow]] = None


class Maker(Task):
    def task_outputs(self, dep):
        return dep(Result())

    def execute(self):
        pass


class Consumer4(Task):
    """Scenario 4: the upstream task is a parameter of a task output"""

    result: Param[Result]
    control: Meta[Path]

    def execute(self):
        (self.control / "consumer4.started").write_text(str(time.time()))


def jobdeps(task):
    from experimaestro.scheduler.base import JobDependency

    return sorted(
        "%s(%s)"
        % (
            type(dep.origin.config).__name__.split(".")[0],
            dep.origin.config.__xpm__.values.get("name", ""),
        )
        for dep in task.__xpm__.job.dependencies
        if isinstance(dep, JobDependency)
    )


def main():
    from experimaestro.tests.utils import TemporaryDirectory, TemporaryExperiment

    shown = []
    with TemporaryDirectory(prefix="xpm", suffix="c04existing") as control:
        with TemporaryExperiment("c04existing", maxwait=180):
            slow = Slow(name="slow", control=control).submit()
            quick = Quick().submit()

            # --- 1. copy_dependencies on the task itself
            consumer1 = Consumer1(slow=slow, control=control)
            consumer1.copy_dependencies(quick)
            consumer1.submit()
            print("1. dependencies of Consumer1(slow=slow) + copy_dependencies(quick):",
                  jobdeps(consumer1))

            # --- 2. copy_dependencies on a nested configuration
            holder = Holder(slow=slow)
            holder.copy_dependencies(quick)
            consumer2 = Consumer2(holder=holder, control=control)
            consumer2.submit()
            print("2. dependencies of Consumer2(holder=Holder(slow=slow) + copy_dependencies(quick)):",
                  jobdeps(consumer2))

            # --- 3. task that is not submitted yet, given through a
            # parameter declared with a base type (Param[Config])
            late = Slow(name="late", control=control)
            accepted = True
            try:
                consumer3 = Consumer3(anything=late, control=control)
                consumer3.submit()
                print("3. Consumer3(anything=<Slow task, not submitted>) accepted, dependencies:",
                      jobdeps(consumer3))
            except ValueError as e:
                accepted = False
                print("3. rejected:", e)
            # ... the task is submitted afterwards
            if accepted:
                late.submit()

            # --- 4. the output of a task (not sealed) is completed by the
            # caller with the output of another task
            result = Maker().submit()
            result.extra = slow
            consumer4 = Consumer4(result=result, control=control)
            consumer4.submit()
            print("4. dependencies of Consumer4(result=<output of Maker, with extra=slow>):",
                  jobdeps(consumer4))

            # Wait for the slow task to run, then leave some time
            deadline = time.time() + 30
            while not (control / "slow.started").exists() and time.time() < deadline:
                time.sleep(0.05)
            deadline = time.time() + 5
            while time.time() < deadline:
                if all(
                    (control / f"consumer{i}.started").exists() for i in (1, 2, 3, 4)
                ):
                    break
                time.sleep(0.05)

            print("slow job:", slow.__xpm__.job.state,
                  "- finished marker:", (control / "slow.finished").exists())
            for i, upstream in ((1, "slow"), (2, "slow"), (3, "late"), (4, "slow")):
                if (control / f"consumer{i}.started").exists() and not (
                    control / f"{upstream}.finished"
                ).exists():
                    shown.append(
                        f"scenario {i}: the Consumer{i} process was launched while "
                        f"the task '{upstream}' reachable from its parameters had "
                        "not finished"
                    )

            (control / "release").write_text("go")

    if shown:
        for s in shown:
            print("DEFECT:", s)
        sys.exit(1)
    print("No defect shown")
    sys.exit(0)


if __name__ == "__main__":
    main()
