"""Behaviour of the UNMODIFIED tree that goes against C18 (see existing_defect.md).

Run:  PYTHONPATH=<tree>/src python existing_defect_repro.py
exit 1 = the defect (E1) shows; exit 0 = it does not.
The observations E2-E4 are printed for information only (they do not make a
request match a host that does not satisfy it).
"""
import sys
import tempfile
import warnings
from pathlib import Path

warnings.filterwarnings("ignore")

from humanfriendly import parse_size  # noqa: E402
from experimaestro.launcherfinder import LauncherRegistry, parse  # noqa: E402
from experimaestro.launcherfinder.specs import (  # noqa: E402
    CPUSpecification,
    CudaSpecification,
    HostSpecification,
    cuda_gpu,
)

defects = []

# --- E1: a launchers.py whose function is misspelt (or no launchers.py at all):
# every request, whatever it asks for, is "matched" to the local host
huge = "duration=1000 days & cuda(mem=80G) * 8 & cpu(mem=4000G, cores=1000)"

with tempfile.TemporaryDirectory() as d:
    config_dir = Path(d)

    # (a) launchers.py defines find_launchers (typo) instead of find_launcher
    (config_dir / "launchers.py").write_text(
        "def find_launchers(requirements, tags=set()):\n"
        "    # knows no host at all\n"
        "    return None\n"
    )
    registry = LauncherRegistry(config_dir)
    launcher = registry.find(huge)
    print(f"E1a  misspelt find_launcher: find({huge!r}) -> {launcher}")
    if launcher is not None:
        defects.append("E1a: request for 8 x 80G GPUs matched to the local host")

    launcher = registry.find(cuda_gpu(mem="80G") * 8)
    print(f"E1a  programmatic cuda_gpu(mem='80G') * 8 -> {launcher}")
    if launcher is not None:
        defects.append("E1a: programmatic 8-GPU request matched to the local host")

    # (b) the text is not even parsed on that path
    launcher = registry.find("this is not a specification")
    print(f"E1b  find('this is not a specification') -> {launcher}")
    if launcher is not None:
        defects.append("E1b: a text that is no specification gets a launcher")

with tempfile.TemporaryDirectory() as d:
    # (c) empty configuration directory
    registry = LauncherRegistry(Path(d))
    launcher = registry.find(huge)
    print(f"E1c  no launchers.py: find(huge request) -> {launcher}")
    if launcher is not None:
        defects.append("E1c: no launchers.py: any request matched to the local host")

# --- E2 (information): white space other than blank, tab, CR, LF is refused
for ws in ("\f", "\v", " "):
    try:
        parse(f"cuda(mem=4G){ws}*{ws}2")
        print(f"E2   {ws!r}: parsed")
    except Exception as e:  # noqa: BLE001
        print(f"E2   {ws!r} between the tokens: {type(e).__name__} (refused)")

# --- E3 (information): * 0 and * -2 ask for one GPU
print("E3   cuda_gpu(mem='4G') * 0  ->", cuda_gpu(mem="4G") * 0)
print("E3   cuda_gpu(mem='4G') * -2 ->", cuda_gpu(mem="4G") * -2)
print("E3   text cuda(mem=4G) * 0   ->", parse("cuda(mem=4G) * 0"))

# --- E4 (information): false rejections. HostSpecification is an attrs class,
# its __post_init__ (a dataclass hook) never runs, host GPUs stay unsorted, and
# the pairing is positional
host = HostSpecification(
    cpu=CPUSpecification(parse_size("64G"), 16),
    cuda=[CudaSpecification(parse_size("8G")), CudaSpecification(parse_size("48G"))],
)
print("E4   host GPUs as stored:", host.cuda)
print(
    "E4   cuda(mem=24G) on a host with GPUs [8G, 48G] ->",
    cuda_gpu(mem="24G").match(host),
    "(the host has a 48G GPU)",
)

if defects:
    print("\nEXISTING DEFECT SHOWS:")
    for defect in defects:
        print("  -", defect)
    sys.exit(1)
print("\nno existing defect shown")
