"""Situations in which the UNMODIFIED tree already violates C13

Run with:  PYTHONPATH=<tree>/src python existing_defect_repro.py
Exit code 1 when at least one of the defects shows (each one is reported).
"""

import gc
import importlib
import json
import sys
import tempfile
from pathlib import Path

DEFS = '''
from typing import List, Optional
from experimaestro import Config, Param, Task, LightweightTask, copyconfig

LOG = []


class Model(Config):
    size: Param[int]

    def __post_init__(self):
        self.loaded = 0


class Loader(LightweightTask):
    name: Param[str]
    model: Param[Model]

    def execute(self):
        LOG.append(("exec", self.name))
        self.model.loaded += 1


class Setup(LightweightTask):
    name: Param[str]

    def execute(self):
        LOG.append(("exec", self.name))


class Learn(Task):
    model: Param[Model]

    def execute(self):
        LOG.append(("exec", "Learn"))


class LearnWithOutput(Task):
    model: Param[Model]

    def task_outputs(self, dep):
        model = copyconfig(self.model)
        return dep(model)

    def execute(self):
        LOG.append(("exec", "LearnWithOutput"))


class Evaluate(Task):
    model: Param[Model]

    def execute(self):
        LOG.append(("exec", "Evaluate"))


class Pipeline(Task):
    learn: Param[Learn]

    def execute(self):
        LOG.append(("exec", "Pipeline"))


class Ring(Config):
    name: Param[str]
    other: Param[Optional["Ring"]] = None

    def __init__(self):
        self.listeners = []

    def __post_init__(self):
        # registers itself to its neighbour
        self.other.listeners.append(self.name)
'''

found = []


def report(name, flag, detail):
    print(("DEFECT  " if flag else "ok      ") + name + ": " + detail)
    if flag:
        found.append(name)


def main():
    from experimaestro import (
        ObjectStore,
        RunMode,
        load,
        save,
        state_dict,
        from_state_dict,
        from_task_dir,
    )
    from experimaestro.core.context import SerializationContext
    from experimaestro.core.objects import ConfigInformation

    def definitions_of(config):
        return json.loads(
            json.dumps(config.__xpm__.__get_objects__([], SerializationContext()))
        )

    with tempfile.TemporaryDirectory() as tmp:
        tmp = Path(tmp)
        pkg = tmp / "c13existingpkg"
        pkg.mkdir()
        (pkg / "__init__.py").write_text("")
        (pkg / "defs.py").write_text(DEFS)
        sys.path.insert(0, str(tmp))
        defs = importlib.import_module("c13existingpkg.defs")
        LOG = defs.LOG

        # ------------------------------------------------------------------
        # D1. load / from_state_dict / from_task_dir (as_instance=True) build
        # and post-initialise the runtime objects but never run the pre-tasks
        # (nor the init tasks of a task directory); fromParameters (used by
        # the job process and by deserialize) does
        model = defs.Model(size=1)
        task = defs.Learn(model=model)
        task.add_pretasks(defs.Loader(name="pre", model=model))
        task.submit(run_mode=RunMode.DRY_RUN, init_tasks=[defs.Setup(name="init")])
        definitions = definitions_of(task)

        LOG.clear()
        reference = ConfigInformation.fromParameters(definitions)
        report(
            "D1-control fromParameters",
            LOG != [("exec", "pre"), ("exec", "init")] or reference.model.loaded != 1,
            f"executed {LOG}",
        )

        LOG.clear()
        state = json.loads(json.dumps(state_dict(SerializationContext(), task)))
        o = from_state_dict(state, as_instance=True)
        report(
            "D1a from_state_dict(as_instance=True)",
            o.model.loaded != 1,
            f"executed {LOG}, model.loaded={o.model.loaded} (pre-task never run)",
        )

        LOG.clear()
        savedir = tmp / "saved"
        savedir.mkdir()
        save(task, savedir)
        o = load(savedir, as_instance=True)
        report(
            "D1b load(as_instance=True)",
            o.model.loaded != 1,
            f"executed {LOG}, model.loaded={o.model.loaded} (pre-task never run)",
        )

        LOG.clear()
        taskdir = tmp / "taskdir"
        taskdir.mkdir()
        (taskdir / "params.json").write_text(
            json.dumps(
                {"workspace": str(tmp), "tags": {}, "version": 2, "objects": definitions}
            )
        )
        o = from_task_dir(taskdir, as_instance=True)
        report(
            "D1c from_task_dir(as_instance=True) on params.json",
            LOG != [("exec", "pre"), ("exec", "init")],
            f"executed {LOG} (neither the pre-task nor the init task is run)",
        )

        # ------------------------------------------------------------------
        # D2. one ObjectStore shared by two instance() calls: a pre-task that
        # is attached to both configurations is ONE runtime object, executed twice
        m1, m2 = defs.Model(size=1), defs.Model(size=2)
        shared = defs.Model(size=3)
        loader = defs.Loader(name="shared-loader", model=shared)
        m1.add_pretasks(loader)
        m2.add_pretasks(loader)
        store = ObjectStore()
        LOG.clear()
        m1.instance(objects=store)
        m2.instance(objects=store)
        report(
            "D2 shared ObjectStore, pre-task attached to two configurations",
            LOG.count(("exec", "shared-loader")) != 1,
            f"executed {LOG}",
        )

        # ------------------------------------------------------------------
        # D3. the ObjectStore is keyed by id(config) but does not keep the
        # configuration alive: a new configuration that gets the address of a
        # dead one is given the runtime object of the dead one
        store = ObjectStore()
        wrong = None
        for i in range(5000):
            config = defs.Model(size=i)
            o = config.instance(objects=store)
            if o.size != i:
                wrong = (i, o.size)
                break
            del config, o
            gc.collect()
        report(
            "D3 shared ObjectStore, id() of a dead configuration reused",
            wrong is not None,
            f"Model(size={wrong[0]}).instance() returned the object of Model(size={wrong[1]})"
            if wrong
            else "not observed",
        )

        # ------------------------------------------------------------------
        # D4. a submitted task given as a parameter: its init tasks are written
        # in the parameter file of the outer task, but never run when the outer
        # task is loaded (only the init tasks of the last definition are)
        inner = defs.Learn(model=defs.Model(size=4))
        inner.submit(run_mode=RunMode.DRY_RUN, init_tasks=[defs.Setup(name="inner-init")])
        outer = defs.Pipeline(learn=inner)
        outer.submit(run_mode=RunMode.DRY_RUN, init_tasks=[defs.Setup(name="outer-init")])
        definitions = definitions_of(outer)
        written = [d.get("init-tasks") for d in definitions if "init-tasks" in d]
        LOG.clear()
        ConfigInformation.fromParameters(definitions)
        report(
            "D4 init task attached to a nested (parameter) task",
            ("exec", "inner-init") not in LOG,
            f"{len(written)} definitions carry init-tasks, executed {LOG}",
        )

        # ------------------------------------------------------------------
        # D5. submit() keeps the caller's list of init tasks: an init task
        # appended to that list afterwards (e.g. a list grown while submitting
        # several tasks) is written in the parameter file of the first task (the
        # file is written when the job starts) and run by it, while the job
        # identifier was computed without it
        init_tasks = [defs.Setup(name="first")]
        task = defs.Learn(model=defs.Model(size=5))
        task.submit(run_mode=RunMode.DRY_RUN, init_tasks=init_tasks)
        identifier = task.__xpm__.identifier.all.hex()
        init_tasks.append(defs.Setup(name="second"))  # meant for the next task
        LOG.clear()
        ConfigInformation.fromParameters(definitions_of(task))
        report(
            "D5 init task list aliased by submit()",
            ("exec", "second") in LOG,
            f"executed {LOG}; identifier unchanged: "
            f"{task.__xpm__.identifier.all.hex() == identifier}",
        )

        # ------------------------------------------------------------------
        # D6. pre-tasks of the task behind an output configuration (`task` link):
        # run when the parameter file is loaded, not run by instance()
        learner = defs.LearnWithOutput(model=defs.Model(size=6))
        learner.add_pretasks(defs.Setup(name="learner-pre"))
        output = learner.submit(run_mode=RunMode.DRY_RUN)
        evaluate = defs.Evaluate(model=output)
        evaluate.submit(run_mode=RunMode.DRY_RUN)
        LOG.clear()
        evaluate.instance()
        direct = list(LOG)
        LOG.clear()
        ConfigInformation.fromParameters(definitions_of(evaluate))
        loaded = list(LOG)
        report(
            "D6 pre-task of the task an output configuration comes from",
            direct != loaded,
            f"instance() executed {direct}, loading the parameter file executed {loaded}",
        )

        # ------------------------------------------------------------------
        # D7. cyclic graph and parameter-less __init__: instance() calls __init__
        # when the object is created (before anything refers to it), the loader
        # calls it after other objects were post-initialised: what their
        # __post_init__ did to the object is wiped
        a = defs.Ring(name="a")
        b = defs.Ring(name="b", other=a)
        a.other = b
        ia = a.instance()
        direct = (ia.listeners, ia.other.listeners)
        try:
            la = ConfigInformation.fromParameters(definitions_of(a))
            loaded = (la.listeners, la.other.listeners)
        except AttributeError as e:
            # __post_init__ of b ran while __init__ of a had not been called
            loaded = f"AttributeError: {e}"
        report(
            "D7 cyclic graph: __init__ of the loader runs after a neighbour's __post_init__",
            direct != loaded,
            f"instance(): {direct}; loaded from parameters: {loaded}",
        )

        # ------------------------------------------------------------------
        # D8. a cyclic graph cannot be submitted at all (no parameter file can be
        # produced for it): updatedependencies() follows the cycle for ever. The
        # cycle below is the documented pre-task pattern
        # model.add_pretasks(Loader(model=model)) when the loader is not the
        # output of a task
        import logging

        model = defs.Model(size=8)
        model.add_pretasks(defs.Loader(name="self-loader", model=model))
        task = defs.Learn(model=model)
        logging.disable(logging.CRITICAL)
        try:
            task.submit(run_mode=RunMode.DRY_RUN)
            error = None
        except RecursionError as e:
            error = e
        finally:
            logging.disable(logging.NOTSET)
        report(
            "D8 submit() of a task whose graph has a cycle (config <-> its pre-task)",
            error is not None,
            "RecursionError in updatedependencies" if error else "submitted",
        )

    if found:
        print(f"\n{len(found)} defect(s) of the unmodified tree observed")
        sys.exit(1)
    print("\nno defect observed")


if __name__ == "__main__":
    main()
