"""Reproducer for existing_defect.md (UNMODIFIED code): a token dependency object
that is used again for the re-submission of a failed job never makes the new
job ready. Exit code 0: no hang; 1: the re-submitted job never becomes final.

Run with: PYTHONPATH=<tree>/src python existing_defect_repro.py
"""

import logging
import os
import shutil
import sys
import tempfile
import threading
import time
from pathlib import Path

from experimaestro import Task, Param, Meta


class Flaky(Task):
    x: Param[int]
    marker: Meta[Path]

    def execute(self):
        if not self.marker.is_file():
            sys.exit(1)


def call_with_timeout(fn, seconds):
    result = {}

    def run():
        try:
            result["value"] = fn()
        except BaseException as e:
            result["exception"] = e

    thread = threading.Thread(target=run, daemon=True)
    thread.start()
    thread.join(seconds)
    return (not thread.is_alive()), result


def main():
    from experimaestro import experiment
    from experimaestro.scheduler import JobState
    from experimaestro.tokens import CounterToken
    import experimaestro

    logging.basicConfig(level=logging.WARNING)
    workdir = Path(tempfile.mkdtemp(prefix="xpm-c06-existing-"))
    marker = workdir / "marker"
    xp = experiment(workdir, "reuse", port=-1)
    xp.__enter__()
    xp.workspace.launcher.setenv(
        "PYTHONPATH", str(Path(experimaestro.__file__).parents[1])
    )
    token = CounterToken("c06-existing", xp.workdir / "token", 1)
    dependency = token.dependency(1)

    first = Flaky(x=1, marker=marker)
    first.add_dependencies(dependency)
    first.submit()
    assert first.__xpm__.job.wait() == JobState.ERROR
    print("first submission: ERROR; token units available:", token.available)

    marker.write_text("ok")
    second = Flaky(x=1, marker=marker)
    second.add_dependencies(dependency)  # same dependency object
    second.submit()
    job2 = second.__xpm__.job
    returned, result = call_with_timeout(job2.wait, 15)
    print(
        "re-submission:",
        result if returned else f"still {job2.state} after 15s",
        "- token units available:",
        token.available,
        "- unsatisfied:",
        job2.unsatisfied,
    )
    sys.stdout.flush()
    shutil.rmtree(workdir, ignore_errors=True)
    os._exit(0 if returned and result.get("value") == JobState.DONE else 1)


if __name__ == "__main__":
    main()
