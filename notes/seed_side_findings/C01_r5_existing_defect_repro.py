"""Existing defect (UNMODIFIED code): a task that marks one of its own
parameters as its output changes identifier when it is submitted.

exit code 0 = property holds, non-zero = violated
"""
import sys
import tempfile
from pathlib import Path
from experimaestro import Config, Task, Param, Meta, field, PathGenerator, experiment
from experimaestro.scheduler.workspace import RunMode


class Model(Config):
    __xpmid__ = "c01.existing.model"
    x: Param[int]


class Learn(Task):
    __xpmid__ = "c01.existing.learn"
    model: Param[Model]
    out: Meta[Path] = field(default_factory=PathGenerator("out.txt"))

    def task_outputs(self, dep):
        # the (trained) model itself is what depends on this task
        return dep(self.model)


with tempfile.TemporaryDirectory() as d:
    with experiment(d, "probe", run_mode=RunMode.DRY_RUN):
        reference = Learn(model=Model(x=1)).__xpm__.identifier.all.hex()

        task = Learn(model=Model(x=1))
        before = task.__xpm__.identifier.all.hex()
        task.submit()
        after = task.__xpm__.identifier.all.hex()
        jobdir = task.__xpm__.job.path
        generated = task.out

print("identifier of an equal, not submitted task:", reference)
print("identifier before submit:                  ", before)
print("identifier after submit:                   ", after)
print("job directory: ", jobdir)
print("generated path:", generated)

ok = before == after == reference and generated.parent == jobdir
print("C01 holds" if ok else "C01 VIOLATED")
sys.exit(0 if ok else 1)
