"""Situations where the UNMODIFIED code gives the same identifier to
configurations that differ in a signature-relevant respect (C03).

PYTHONPATH=<tree>/src /venv/bin/python existing_defect_repro.py
Prints one line per situation; exit code = number of collisions observed.
"""
import sys
from typing import Union

from experimaestro import Config, Param, Task, LightweightTask, copyconfig
from experimaestro.core.types import Identifier
from experimaestro.scheduler.workspace import RunMode


def ident(x):
    return x.__xpm__.identifier.all.hex()


collisions = 0


def report(name, a, b, extra=""):
    global collisions
    same = ident(a) == ident(b)
    collisions += same
    print(f"[{'COLLISION' if same else 'ok'}] {name} {extra}")


# --- 1. An Identifier-valued __xpmid__ is inherited by the subclasses
ns = Identifier("repro")


class Base(Config):
    __xpmid__ = ns.base
    a: Param[int]


class Derived(Base):  # no __xpmid__ of its own
    pass


class StrBase(Config):
    __xpmid__ = "repro.strbase"
    a: Param[int]


class StrDerived(StrBase):  # same thing with a str: gets its own identifier
    pass


report(
    "1. Base(a=1) vs Derived(a=1), __xpmid__ = Identifier(...) on Base only",
    Base(a=1),
    Derived(a=1),
    f"(type identifiers {Base.__getxpmtype__().identifier} / {Derived.__getxpmtype__().identifier})",
)
report(
    "1'. StrBase(a=1) vs StrDerived(a=1), __xpmid__ = 'str' on StrBase only",
    StrBase(a=1),
    StrDerived(a=1),
    f"(type identifiers {StrBase.__getxpmtype__().identifier} / {StrDerived.__getxpmtype__().identifier})",
)


# --- 2. A boolean is hashed as the integer 0/1
class U(Config):
    x: Param[Union[bool, int]]


report("2. U(x=True) vs U(x=1) with x: Param[Union[bool, int]]", U(x=True), U(x=1))


# --- 3. The init tasks of the task that produced a task output
class Out(Config):
    a: Param[int]


class Learn(Task):
    x: Param[int]

    def task_outputs(self, dep):
        return dep(Out(a=1))


class Init1(LightweightTask):
    pass


class Init2(LightweightTask):
    pass


class Evaluate(Task):
    model: Param[Out]


l1, l2 = Learn(x=1), Learn(x=1)
o1 = l1.submit(run_mode=RunMode.DRY_RUN, init_tasks=[Init1()])
o2 = l2.submit(run_mode=RunMode.DRY_RUN, init_tasks=[Init2()])
report("3a. Learn(x=1) submitted with init_tasks=[Init1()] vs [Init2()] (the two jobs)", l1, l2)
e1, e2 = Evaluate(model=o1), Evaluate(model=o2)
e1.submit(run_mode=RunMode.DRY_RUN)
e2.submit(run_mode=RunMode.DRY_RUN)
report(
    "3b. Evaluate(model=<output of the first>) vs Evaluate(model=<output of the second>)",
    e1,
    e2,
    f"(job directories {e1.__xpm__.job.relpath} / {e2.__xpm__.job.relpath})",
)

# --- 4. copyconfig() / Config.copy() forget the task that produced the output
o1 = Learn(x=1).submit(run_mode=RunMode.DRY_RUN)
o2 = Learn(x=2).submit(run_mode=RunMode.DRY_RUN)
report("4a. output of Learn(x=1) vs output of Learn(x=2)", o1, o2)
report("4b. copyconfig(output of Learn(x=1)) vs copyconfig(output of Learn(x=2))", copyconfig(o1), copyconfig(o2))
report("4c. Evaluate(model=copyconfig(...)) for the two", Evaluate(model=copyconfig(o1)), Evaluate(model=copyconfig(o2)))

sys.exit(collisions)
