"""Situations in which the UNMODIFIED tree violates C16.

Usage: PYTHONPATH=<tree>/src python existing_defect_repro.py [scenario ...]
(no argument: every scenario). Exit code 1 when at least one defect shows.

Scenarios:
  reenter  the same `experiment` object is entered twice
  slash    the experiment name contains a "/"
  nested   the same experiment is entered twice, nested, in one process: the
           inner exit drops the process's lock, a second process enters
  generate a generate-only run creates job folders that no index references
  resubmit a failed job submitted again with success still fails the run
           (jobs.bak remains although every job of the plan is done)
"""

import logging
import subprocess
import sys
import tempfile
import textwrap
from pathlib import Path

from experimaestro import Param, RunMode, Task, experiment


class Touch(Task):
    x: Param[int]

    def execute(self):
        pass


class FailUnless(Task):
    """Fails unless the file exists"""

    x: Param[int]
    flag: Param[str]

    def execute(self):
        if not Path(self.flag).exists():
            raise RuntimeError("flag is missing")


def links(path: Path):
    return sorted(
        str(p.relative_to(path)) for p in path.glob("*/*") if p.is_symlink()
    )


def orphans(workdir: Path, *args):
    from click.testing import CliRunner
    from experimaestro.cli import cli

    result = CliRunner().invoke(cli, ["orphans", *args, str(workdir)])
    assert result.exit_code == 0, result.output
    lines = [line.strip() for line in result.output.splitlines() if line.strip()]
    return [line for line in lines if not line.endswith("are not orphans")]


def xp(workdir, name="demo", run_mode=RunMode.NORMAL):
    e = experiment(workdir, name, port=-1, run_mode=run_mode)
    e.workspace.launcher.setenv("PYTHONPATH", ":".join(p for p in sys.path if p))
    return e


def newdir():
    return Path(tempfile.mkdtemp(prefix="c16existing-")).resolve()


def scenario_reenter():
    """run 0 and run 1 use the same experiment object, both submit A and end
    normally: after run 1 the index is empty, there is no backup, A is an orphan"""
    workdir = newdir()
    e = xp(workdir)
    with e:
        a = Touch(x=1)
        a.submit()
    rel = str(a.__xpm__.job.relpath)
    assert links(workdir / "xp/demo/jobs") == [rel]

    with e:
        Touch(x=1).submit()

    index = links(workdir / "xp/demo/jobs")
    backup = (workdir / "xp/demo/jobs.bak").exists()
    reported = orphans(workdir)
    print(f"  index after run 1: {index}; jobs.bak exists: {backup}")
    print(f"  orphans: {reported}")
    return index != [rel] or any(rel in line for line in reported)


def scenario_slash():
    """one completed run of the experiment "group/demo" """
    workdir = newdir()
    with xp(workdir, "group/demo"):
        a = Touch(x=1)
        a.submit()
    rel = str(a.__xpm__.job.relpath)
    index = links(workdir / "xp/group/demo/jobs")
    reported = orphans(workdir)
    print(f"  index xp/group/demo/jobs: {index}")
    print(f"  orphans: {reported}")
    return any(rel in line for line in reported)


def scenario_nested():
    """with experiment(ws, "demo"): with experiment(ws, "demo"): pass; <here>
    at <here> the outer block is still running, but another process can enter"""
    workdir = newdir()
    script = textwrap.dedent(
        """
        import sys
        from experimaestro import experiment
        with experiment(sys.argv[1], "demo", port=-1):
            print("ENTERED", flush=True)
        """
    )
    def second_process_enters():
        try:
            out = subprocess.run(
                [sys.executable, "-c", script, str(workdir)],
                capture_output=True,
                text=True,
                timeout=8,
            ).stdout
        except subprocess.TimeoutExpired as e:
            out = e.stdout or ""
            if isinstance(out, bytes):
                out = out.decode()
        return "ENTERED" in out

    with xp(workdir):
        # Control: the experiment is held, the second process waits
        before = second_process_enters()
        print(f"  [control] second process entered before the nested block: {before}")
        assert not before

        with xp(workdir):
            pass

        # Still inside the outer block
        entered = second_process_enters()
    print(f"  second process entered while the first one holds the experiment: {entered}")
    return entered


def scenario_generate():
    """a generate-only run on a new workspace, ending normally"""
    workdir = newdir()
    with xp(workdir, run_mode=RunMode.GENERATE_ONLY):
        a = Touch(x=1)
        a.submit()
    rel = str(a.__xpm__.job.relpath)
    index = links(workdir / "xp/demo/jobs") if (workdir / "xp/demo/jobs").is_dir() else []
    (workdir / ".__experimaestro__").touch()
    reported = orphans(workdir)
    print(f"  job folder exists: {(workdir / 'jobs' / rel).is_dir()}; index: {index}")
    print(f"  orphans: {reported}")
    return any(rel in line for line in reported)


def scenario_resubmit():
    """a job fails, is submitted again in the same block and succeeds: the
    block ends without exception, but __exit__ raises and jobs.bak remains"""
    workdir = newdir()
    flag = workdir / "flag"
    raised = None
    try:
        with xp(workdir):
            t = FailUnless(x=1, flag=str(flag))
            t.submit()
            t.__xpm__.job.wait()
            flag.touch()
            t2 = FailUnless(x=1, flag=str(flag))
            t2.submit()
            state = t2.__xpm__.job.wait()
            print(f"  second submission ended in state {state}")
    except Exception as e:
        raised = e
    backup = (workdir / "xp/demo/jobs.bak").exists()
    print(f"  __exit__ raised: {raised!r}; jobs.bak exists: {backup}")
    return raised is not None or backup


if __name__ == "__main__":
    logging.basicConfig(level=logging.CRITICAL)
    names = sys.argv[1:] or ["reenter", "slash", "nested", "generate", "resubmit"]
    shown = []
    for name in names:
        print(f"[{name}] {globals()['scenario_' + name].__doc__.strip()}")
        if globals()["scenario_" + name]():
            print("  => DEFECT SHOWN")
            shown.append(name)
        else:
            print("  => not shown")
    print("defects shown:", shown)
    sys.exit(1 if shown else 0)
