"""Reproducer (UNMODIFIED code): a duplicate submitted from another thread
while the first submission is still computing its output does not get "the
first submission's output": it gets None.

ConfigInformation.submit registers the job in the scheduler (from this point a
duplicate is answered with `other.config.__xpm__._taskoutput`) *before* it
computes and stores `_taskoutput` (call to the user-defined `task_outputs`).

Run with: PYTHONPATH=<tree>/src python existing_defect_repro.py
(exit code 1 = defect reproduced)
"""

import logging
import shutil
import sys
import tempfile
import threading
import time
from pathlib import Path

from experimaestro import Config, Task, Param, experiment


class Output(Config):
    pass


class SlowOutputs(Task):
    x: Param[int]

    def task_outputs(self, dep):
        # e.g. builds a large output configuration
        time.sleep(1.0)
        return dep(Output())

    def execute(self):
        pass


def main():
    import experimaestro

    logging.basicConfig(level=logging.ERROR)
    workdir = Path(tempfile.mkdtemp(prefix="xpm-c05-existing-"))
    results = {}
    try:
        with experiment(workdir, "threads", port=-1) as xp:
            xp.workspace.launcher.setenv(
                "PYTHONPATH", str(Path(experimaestro.__file__).parents[1])
            )

            def submit(name):
                results[name] = SlowOutputs(x=1).submit()

            t1 = threading.Thread(target=submit, args=("first",))
            t2 = threading.Thread(target=submit, args=("duplicate",))
            t1.start()
            time.sleep(0.3)  # the first submission is inside task_outputs
            t2.start()
            t1.join()
            t2.join()
    finally:
        shutil.rmtree(workdir, ignore_errors=True)

    print("first     ->", repr(results["first"]))  # noqa: T201
    print("duplicate ->", repr(results["duplicate"]))  # noqa: T201
    if results["duplicate"] is not results["first"]:
        print("DEFECT: the duplicate did not get the first submission's output")  # noqa: T201
        sys.exit(1)
    print("OK")  # noqa: T201


if __name__ == "__main__":
    main()
