# E3: both the deprecated class and its replacement submitted in the same experiment
import os, sys, tempfile, shutil, logging
from pathlib import Path
from experimaestro import Task, Param, Meta, experiment, deprecate

class NewTask(Task):
    __xpmid__ = "c20probe.newtask"
    x: Param[int]
    def execute(self):
        pass

@deprecate
class OldTask(NewTask):
    __xpmid__ = "c20probe.oldtask"

if __name__ == "__main__":
    import experimaestro
    workdir = Path(tempfile.mkdtemp(prefix="c20probe-"))
    try:
        with experiment(workdir, "probe", port=None) as xp:
            xp.workspace.launcher.setenv("PYTHONPATH", str(Path(experimaestro.__file__).parents[1]))
            a = NewTask(x=1).submit()
            b = OldTask(x=1).submit()
            xp.wait()
        print("OK both submitted")
    finally:
        shutil.rmtree(workdir, ignore_errors=True)
