"""Reproducers for behaviours of the UNMODIFIED code that sit at the edge of C15"""
import logging
import sys
from enum import Enum
from typing import Dict, List, Union

logging.disable(logging.CRITICAL)
sys._called_from_test = True
from experimaestro import Config, Param  # noqa: E402


class Color(Enum):
    RED = 1


class U(Config):
    x: Param[Union[int, str]]


class E(Config):
    x: Param[Color]


class I(Config):
    x: Param[int]


class F(Config):
    x: Param[float]


class LI(Config):
    x: Param[List[int]]


def attempt(label, fn):
    try:
        print(f"{label}: stored {fn()!r}")
    except BaseException as e:
        print(f"{label}: raised {type(e).__name__}")


attempt("Union[int,str] <- {'a': 1}", lambda: U(x={"a": 1}).x)
attempt("Enum <- 'RED' (assert: try python -O)", lambda: E(x="RED").x)
attempt("int <- True", lambda: I(x=True).x)
attempt("float <- True", lambda: F(x=True).x)
attempt("List[int] <- [True]", lambda: LI(x=[True]).x)
attempt("int <- float('inf')", lambda: I(x=float("inf")).x)
