"""Situations where the UNMODIFIED tree departs from C19 (see existing_defect.md)

Run with: PYTHONPATH=<tree>/src python existing_defect_repro.py
Exit code 1 when at least one of the defects shows, 0 otherwise.
"""
import json
import os
import subprocess
import sys
import tempfile
from pathlib import Path


def mkws(root: Path) -> Path:
    ws = root / "ws"
    (ws / "jobs").mkdir(parents=True)
    (ws / "xp").mkdir()
    (ws / ".__experimaestro__").touch()
    return ws


def mkjob(ws: Path, task: str, jobid: str, tags, state, xps):
    d = ws / "jobs" / task / jobid
    d.mkdir(parents=True)
    name = task.rsplit(".", 1)[-1]
    (d / "params.json").write_text(
        json.dumps({"workspace": str(ws), "tags": tags, "version": 2, "objects": []})
    )
    if state == "done":
        (d / f"{name}.done").touch()
    elif state == "failed":
        (d / f"{name}.failed").write_text("1")
    for xp in xps:
        link = ws / "xp" / xp / "jobs" / task / jobid
        link.parent.mkdir(parents=True, exist_ok=True)
        link.symlink_to(d)
    return d


def xpm(*args):
    return subprocess.run(
        [sys.executable, "-m", "experimaestro", *args],
        capture_output=True,
        text=True,
        env=dict(os.environ),
    )


def listed(out: str):
    return sorted(
        line.split()[1] for line in out.splitlines() if line.strip() and "/" in line
    )


def relocated_job_folder(root: Path):
    """A. A finished job whose folder was moved to another disk, with a link
    left in jobs/<task>/ (a usual way to free space): the jobs commands read
    the task name from the *resolved* path, hence look for markers named after
    the folder that holds the data (`store.done`), find none, and give the job
    no state; @name is wrong too"""
    ws = mkws(root / "A")
    task = "demo.models.learn"
    mkjob(ws, task, "j0", {"model": "a"}, "done", ["xp1"])
    moved = mkjob(ws, task, "j1", {"model": "a"}, "done", ["xp1"])
    store = root / "A" / "bigdisk" / "store"
    store.mkdir(parents=True)
    moved.rename(store / "j1")
    moved.symlink_to(store / "j1")

    problems = []
    r = xpm("jobs", "--workdir", str(ws), "list", "--filter", '@state = "DONE"')
    if listed(r.stdout) != [f"{task}/j0", f"{task}/j1"]:
        problems.append(
            f"""@state = "DONE" selects {listed(r.stdout)}: the finished job j1 is missing"""
        )
    r = xpm(
        "jobs", "--workdir", str(ws), "list", "--filter", '@name = "demo.models.learn"'
    )
    if listed(r.stdout) != [f"{task}/j0", f"{task}/j1"]:
        problems.append(
            f"""@name = "demo.models.learn" selects {listed(r.stdout)}: j1 is missing"""
        )
    r = xpm(
        "jobs", "--workdir", str(ws), "clean", "--filter", 'model = "a"', "--perform"
    )
    if (store / "j1").is_dir():
        problems.append(
            """jobs clean --filter 'model = "a"' --perform leaves the finished """
            "and selected job j1 in place"
        )
    return problems


def equality_of_missing_tags(root: Path):
    """B. `a = b` compares two tags; when a job has neither, None == None and
    the job is selected: forgetting the quotes in `model = bm25` selects (and
    clean removes) every finished job without a model tag"""
    ws = mkws(root / "B")
    task = "demo.models.learn"
    mkjob(ws, task, "j0", {"model": "bm25"}, "done", ["xp1"])
    mkjob(ws, task, "j1", {"seed": 1}, "done", ["xp1"])
    r = xpm("jobs", "--workdir", str(ws), "list", "--filter", "model = bm25")
    if listed(r.stdout):
        return [
            f"model = bm25 (no tag bm25 anywhere) selects {listed(r.stdout)}: "
            "two missing tags are equal"
        ]
    return []


def kill_commands(root: Path):
    """C. (beside C19, same command group) jobs kill stops on a running job:
    UnboundLocalError without --perform, NotImplementedError with it"""
    ws = mkws(root / "C")
    d = mkjob(ws, "demo.models.learn", "j0", {}, None, ["xp1"])
    p = subprocess.Popen([sys.executable, "-c", "import time; time.sleep(120)"])
    problems = []
    try:
        (d / "learn.pid").write_text(json.dumps({"type": "local", "pid": p.pid}))
        r = xpm("jobs", "--workdir", str(ws), "kill")
        if r.returncode != 0:
            problems.append(
                "jobs kill (no --perform) fails: " + r.stderr.strip().splitlines()[-1]
            )
        r = xpm("jobs", "--workdir", str(ws), "kill", "--perform")
        if r.returncode != 0:
            problems.append(
                "jobs kill --perform fails: " + r.stderr.strip().splitlines()[-1]
            )
        elif p.poll() is None:
            try:
                p.wait(5)
            except subprocess.TimeoutExpired:
                problems.append("jobs kill --perform did not kill the process")
    finally:
        if p.poll() is None:
            p.kill()
        p.wait()
    return problems


def main():
    status = 0
    with tempfile.TemporaryDirectory() as tmp:
        root = Path(tmp).resolve()
        for check in (relocated_job_folder, equality_of_missing_tags, kill_commands):
            problems = check(root)
            print(f"[{'DEFECT' if problems else 'ok'}] {check.__name__}")
            for problem in problems:
                print("   -", problem)
            if problems:
                status = 1
    return status


if __name__ == "__main__":
    sys.exit(main())
