import sys, time, logging, tempfile, os
from pathlib import Path
from experimaestro import Task, Param, experiment
from experimaestro.tokens import CounterToken
from experimaestro.scheduler import JobState

class WaitTask(Task):
    path: Param[Path]
    x: Param[int]
    def execute(self):
        while not self.path.is_file():
            time.sleep(0.05)

if __name__ == "__main__":
    logging.basicConfig(level=logging.WARNING)
    wd = Path(tempfile.mkdtemp(prefix="c09demo"))
    src = [p for p in os.environ["PYTHONPATH"].split(":") if p][0]
    go = wd / "go"
    token = None
    try:
        with experiment(wd, "demo", port=0) as xp:
            xp.workspace.launcher.setenv("PYTHONPATH", src)
            token = CounterToken.create("tok", wd / "tok", 1)
            t = WaitTask(path=go, x=1)
            t.add_dependencies(token.dependency(1))
            t.submit()
            while t.__xpm__.job.state != JobState.RUNNING: time.sleep(0.05)
            raise RuntimeError("user error in the experiment script")
    except RuntimeError:
        pass
    print("after failed experiment: available", token.available)
    go.write_text("x")
    time.sleep(3)
    print("job ended: available", token.available, list((wd/"tok").glob("*.token")))
    with experiment(wd, "demo2", port=0) as xp:
        xp.workspace.launcher.setenv("PYTHONPATH", src)
        token2 = CounterToken.create("tok", wd / "tok", 1)
        assert token2 is token
        t = WaitTask(path=go, x=2)
        t.add_dependencies(token.dependency(1))
        t.submit()
        time.sleep(5)
        print("state", t.__xpm__.job.state, "available", token.available)
        if t.__xpm__.job.state != JobState.DONE:
            print("LEAK"); os._exit(1)
