"""Situations in which the UNMODIFIED tree violates C02

Run: PYTHONPATH=<tree>/src python existing_defect_repro.py
Exit code 1 when at least one defect shows (0 if none does).
"""

import sys

sys._called_from_test = True  # allows configurations local to this script

from typing import Dict, List  # noqa: E402
from experimaestro import (  # noqa: E402
    Config,
    Param,
    Meta,
    LightweightTask,
    Task,
    setmeta,
)
from experimaestro.scheduler.workspace import RunMode  # noqa: E402


def ident(config):
    return config.__xpm__.identifier.all.hex()


shown = []


def expect_equal(defect, label, a, b):
    ia, ib = ident(a), ident(b)
    status = "ok     " if ia == ib else "DEFECT "
    print(f"[{status}] {defect}: {label}\n           {ia}\n           {ib}")
    if ia != ib and defect not in shown:
        shown.append(defect)


class Sub(Config):
    __xpmid__ = "repro.sub"
    x: Param[int] = 1


# --------------------------------------------------------------------------
# ED1 - the default value holds a meta-flagged configuration in a list / dict
#
# TypeConfig.__init__ initialises an unset parameter with clone(default);
# clone() builds the nested configurations again with type(v)(**kwargs) and
# loses their meta flag. The value of the parameter left unset is then not
# hashed like its default (the flagged element now counts)
# --------------------------------------------------------------------------


class V1(Config):
    __xpmid__ = "repro.ed1"
    a: Param[int]


class V2List(Config):
    __xpmid__ = "repro.ed1"
    a: Param[int]
    subs: Param[List[Sub]] = [setmeta(Sub(x=2), True)]


class V2Dict(Config):
    __xpmid__ = "repro.ed1"
    a: Param[int]
    subs: Param[Dict[str, Sub]] = {"k": setmeta(Sub(x=2), True)}


expect_equal(
    "ED1",
    "list default with a meta element: class extended with the defaulted parameter",
    V1(a=1),
    V2List(a=1),
)
expect_equal(
    "ED1",
    "list default with a meta element: left unset == explicitly set to the default",
    V2List(a=1),
    V2List(a=1, subs=[setmeta(Sub(x=2), True)]),
)
expect_equal(
    "ED1",
    "dict default with a meta value: class extended with the defaulted parameter",
    V1(a=1),
    V2Dict(a=1),
)

# --------------------------------------------------------------------------
# ED2 - the default value is NaN (a legal float): `default == value` is never
# true, the parameter is never elided
# --------------------------------------------------------------------------


class N1(Config):
    __xpmid__ = "repro.ed2"
    a: Param[int]


class N2(Config):
    __xpmid__ = "repro.ed2"
    a: Param[int]
    clip: Param[float] = float("nan")  # "no clipping"


class N3(Config):
    __xpmid__ = "repro.ed2"
    a: Param[int]
    clips: Param[List[float]] = [float("nan")]


expect_equal(
    "ED2", "NaN default: class extended with the defaulted parameter", N1(a=1), N2(a=1)
)
expect_equal(
    "ED2",
    "[NaN] default: left unset == explicitly set to the default",
    N3(a=1),
    N3(a=1, clips=[float("nan")]),
)

# --------------------------------------------------------------------------
# ED3 - the pre-tasks of a configuration that is outside the signature (value
# of a Meta parameter, meta-flagged list element) enter the (full) identifier:
# collect_pre_tasks() walks every value, ignored or not
# --------------------------------------------------------------------------


class Loader(LightweightTask):
    __xpmid__ = "repro.loader"
    v: Param[int]

    def execute(self):
        pass


class Main(Config):
    __xpmid__ = "repro.ed3"
    a: Param[int]
    monitor: Meta[Sub]
    extras: Param[List[Sub]] = []


expect_equal(
    "ED3",
    "changing the value of a Meta parameter (to a configuration with a pre-task)",
    Main(a=1, monitor=Sub(x=1)),
    Main(a=1, monitor=Sub(x=1).add_pretasks(Loader(v=1))),
)
expect_equal(
    "ED3",
    "adding a meta-flagged list element (that has a pre-task)",
    Main(a=1, monitor=Sub(x=1)),
    Main(
        a=1,
        monitor=Sub(x=1),
        extras=[setmeta(Sub(x=2).add_pretasks(Loader(v=1)), True)],
    ),
)

# --------------------------------------------------------------------------
# ED4 - copy() (clone) loses the meta flags of the nested configurations: the
# copy of a configuration has another identifier
# --------------------------------------------------------------------------


class Holder(Config):
    __xpmid__ = "repro.ed4"
    sub: Param[Sub]
    subs: Param[List[Sub]] = []


holder = Holder(sub=setmeta(Sub(x=5), True), subs=[setmeta(Sub(x=3), True)])
expect_equal("ED4", "config.copy() keeps the identifier", holder, holder.copy())

# --------------------------------------------------------------------------
# ED5 (debatable) - copy_dependencies() is documented as adding dependencies
# ("Add all the dependencies from other configuration"), and dependencies
# are outside the signature; but it copies the task mark, which is hashed
# --------------------------------------------------------------------------


class Out(Config):
    __xpmid__ = "repro.out"
    a: Param[int]


class Producer(Task):
    __xpmid__ = "repro.producer"
    x: Param[int]

    def task_outputs(self, dep):
        return dep(Out(a=1))


class User(Config):
    __xpmid__ = "repro.user"
    v: Param[int]


out = Producer(x=1).submit(run_mode=RunMode.DRY_RUN)
plain, dependent = User(v=1), User(v=1)
dependent.copy_dependencies(out)
expect_equal(
    "ED5", "copy_dependencies (explicit dependency) keeps the identifier", plain, dependent
)

print()
if shown:
    print("Defects shown on this tree:", ", ".join(shown))
    sys.exit(1)
print("No defect shown")
