"""C08 - situations where the UNMODIFIED tree lets the jobs running under a
file based token hold more than its total.

Usage: PYTHONPATH=<tree>/src python existing_defect_repro.py [scenario ...]

Scenarios (all of them by default):

  workspaces   the same task (same identifier) runs in two workspaces sharing
               the token directory: one token file for two jobs
  twice        a job with two dependencies on the same token: the second
               request overwrites the token file of the first one
  newline      the workspace path contains a newline: the token file cannot be
               read back by the other processes, which remove it
  shared       one dependency object given to two tasks submitted in a row
  orphans      `experimaestro orphans --clean` removes the folder of a job that
               is still running (its experiment was run again without it)

Exit code 1 when at least one defect shows, 0 otherwise (2: a scenario could
not be played).
"""

import os
import subprocess
import sys
import tempfile
import time
from pathlib import Path

TASKS_SOURCE = '''
from pathlib import Path
import os
import time
from experimaestro import Task, Param


class Hold(Task):
    """Says when it starts, runs until it is told to stop"""

    key: Param[str]
    ctrl: Param[Path]

    def execute(self):
        pid = os.getpid()
        (self.ctrl / f"{self.key}.{pid}.started").write_text(str(time.time()))
        deadline = time.time() + 120
        while not (self.ctrl / f"{self.key}.go").exists() and time.time() < deadline:
            time.sleep(0.05)
        (self.ctrl / f"{self.key}.{pid}.ended").write_text(str(time.time()))
'''

TOKEN_NAME = "c08-demo"


def wait_until(condition, timeout: float) -> bool:
    deadline = time.time() + timeout
    while time.time() < deadline:
        if condition():
            return True
        time.sleep(0.02)
    return condition()


# --- Scheduler process


def worker(role: str, root: Path, workspace: str, total: int, xpname: str):
    import logging

    logging.basicConfig(
        level=getattr(logging, os.environ.get("C08_LOGLEVEL", "WARNING")),
        format="%(asctime)s %(levelname)s %(name)s %(threadName)s: %(message)s",
        force=True,
    )
    ctrl = root / "ctrl"
    sys.path.insert(0, str(root / "tasks"))
    import experimaestro
    from experimaestro import experiment
    from c08demo_tasks import Hold

    src = Path(experimaestro.__file__).parents[1]

    try:
        with experiment(root / workspace, xpname) as xp:
            xp.workspace.launcher.setenv("PYTHONPATH", f"{src}:{root / 'tasks'}")
            token = xp.workspace.connector.createtoken(TOKEN_NAME, total)
            (ctrl / f"{role}.ready").touch()

            ix = 0
            while True:
                cmdpath = ctrl / f"{role}.cmd.{ix}"
                if not wait_until(cmdpath.exists, 120):
                    break
                command = cmdpath.read_text().split()
                if command[0] == "exit":
                    break
                if command[0] == "submit":
                    # submit KEY count [count...]: one dependency per count
                    task = Hold(key=command[1], ctrl=ctrl)
                    for count in command[2:]:
                        task.add_dependencies(token.dependency(int(count)))
                    task.submit()
                if command[0] == "submitshared":
                    # submitshared count KEY [KEY...]: one dependency object
                    dependency = token.dependency(int(command[1]))
                    tasks = [Hold(key=key, ctrl=ctrl) for key in command[2:]]
                    for task in tasks:
                        task.add_dependencies(dependency)
                    for task in tasks:
                        task.submit()
                (ctrl / f"{role}.ack.{ix}").touch()
                ix += 1
    except Exception as e:
        print(f"[{role}] experiment ended with {e!r}", file=sys.stderr)

    # (the process itself only ends with the last token file watcher thread)
    (ctrl / f"{role}.closed").touch()


# --- Orchestration


class Scheduler:
    def __init__(
        self, role: str, root: Path, workspace: str, total: int, xpname=None
    ):
        self.role = role
        self.root = root
        self.ix = 0
        env = dict(os.environ)
        env["XPM_WORKDIR"] = str(root / "xpmhome")
        self.process = subprocess.Popen(
            [
                sys.executable,
                __file__,
                "--worker",
                role,
                str(root),
                workspace,
                str(total),
                xpname or f"c08demo-{role}",
            ],
            env=env,
            stderr=(root / f"{role}.log").open("w"),
        )
        if not wait_until((root / "ctrl" / f"{role}.ready").exists, 60):
            raise RuntimeError(f"scheduler {role} did not start")

    def command(self, text: str, ack=True):
        ctrl = self.root / "ctrl"
        tmp = ctrl / f"{self.role}.tmp"
        tmp.write_text(text)
        tmp.rename(ctrl / f"{self.role}.cmd.{self.ix}")
        if ack and not wait_until(
            (ctrl / f"{self.role}.ack.{self.ix}").exists, 60
        ):
            raise RuntimeError(f"scheduler {self.role}: no answer to {text}")
        self.ix += 1

    def close(self, timeout=60):
        if self.process.poll() is not None:
            return
        try:
            self.command("exit", ack=False)
            self.process.wait(timeout)
        except Exception:
            self.process.kill()


class Scenario:
    """A temporary directory, schedulers and the jobs that run"""

    def __init__(self, name: str):
        self.name = name
        self.root = Path(tempfile.mkdtemp(prefix=f"c08existing-{name}-"))
        self.ctrl = self.root / "ctrl"
        self.ctrl.mkdir()
        (self.root / "tasks").mkdir()
        (self.root / "tasks" / "c08demo_tasks.py").write_text(TASKS_SOURCE)
        self.schedulers = []

    def scheduler(self, role: str, workspace: str, total: int, xpname=None):
        s = Scheduler(role, self.root, workspace, total, xpname)
        self.schedulers.append(s)
        return s

    def running(self, key: str) -> int:
        started = len(list(self.ctrl.glob(f"{key}.*.started")))
        ended = len(list(self.ctrl.glob(f"{key}.*.ended")))
        return started - ended

    def tokenfiles(self):
        tokendir = self.root / "xpmhome" / "tokens" / f"{TOKEN_NAME}.counter"
        return [
            (p.name[:12], p.read_text().split("\n")[0])
            for p in tokendir.glob("*.token")
        ]

    def close(self, keys):
        for key in keys:
            (self.ctrl / f"{key}.go").touch()
        for s in self.schedulers:
            s.close()


def scenario_workspaces() -> bool:
    """Total 2. X (1 token) in workspace one, the same X (1 token) in workspace
    two, then Y (1 token): Y must wait"""
    sc = Scenario("workspaces")
    try:
        s1 = sc.scheduler("one", "ws-one", 2)
        s2 = sc.scheduler("two", "ws-two", 2)
        s1.command("submit X 1")
        if not wait_until(lambda: sc.running("X") == 1, 60):
            raise RuntimeError("first X did not start")
        s2.command("submit X 1")
        if not wait_until(lambda: sc.running("X") == 2, 60):
            raise RuntimeError("second X did not start")
        time.sleep(1)
        s1.command("submit Y 1")
        shown = wait_until(lambda: sc.running("Y") == 1, 8)
        print("  token files (name, count):", sc.tokenfiles())
        if shown and sc.running("X") == 2:
            print(
                "  DEFECT: 3 jobs run together, each with 1 token of a token "
                "whose total is 2"
            )
        return shown
    finally:
        sc.close(["X", "Y"])


def scenario_twice() -> bool:
    """Total 3. J asks the token twice (1 and 2) for scheduler one; scheduler
    two is asked for K (1 token): K must wait"""
    sc = Scenario("twice")
    try:
        s1 = sc.scheduler("one", "ws", 3)
        s1.command("submit J 1 2")
        if not wait_until(lambda: sc.running("J") == 1, 60):
            raise RuntimeError("J did not start")
        time.sleep(1)
        s2 = sc.scheduler("two", "ws", 3)
        s2.command("submit K 1")
        shown = wait_until(lambda: sc.running("K") == 1, 8)
        print("  token files (name, count):", sc.tokenfiles())
        if shown and sc.running("J") == 1:
            print(
                "  DEFECT: J (1 + 2 tokens) and K (1 token) run together, "
                "the total of the token is 3"
            )
        return shown
    finally:
        sc.close(["J", "K"])


def scenario_newline() -> bool:
    """Total 1, workspace whose path contains a newline. X (1 token) runs for
    scheduler one; scheduler two starts afterwards and is asked for Y (1 token):
    Y must wait"""
    sc = Scenario("newline")
    try:
        s1 = sc.scheduler("one", "ws\nwith-newline", 1)
        s1.command("submit X 1")
        if not wait_until(lambda: sc.running("X") == 1, 60):
            raise RuntimeError("X did not start")
        time.sleep(1)
        print("  token files (name, count) before:", sc.tokenfiles())
        s2 = sc.scheduler("two", "ws\nwith-newline", 1)
        s2.command("submit Y 1")
        shown = wait_until(lambda: sc.running("Y") == 1, 8)
        print("  token files (name, count) after:", sc.tokenfiles())
        if shown and sc.running("X") == 1:
            print(
                "  DEFECT: X and Y run together, each with 1 token of a token "
                "whose total is 1"
            )
        return shown
    finally:
        sc.close(["X", "Y"])


def scenario_shared() -> bool:
    """Total 2. A and B are given the same dependency object (1 token) and are
    submitted in a row to scheduler one; scheduler two is asked for C (1
    token): C must wait"""
    sc = Scenario("shared")
    try:
        s1 = sc.scheduler("one", "ws", 2)
        s1.command("submitshared 1 A B")
        if not wait_until(lambda: sc.running("A") + sc.running("B") == 2, 20):
            print("  (A and B did not both start: not the situation looked for)")
            return False
        time.sleep(1)
        s2 = sc.scheduler("two", "ws", 2)
        s2.command("submit C 1")
        shown = wait_until(lambda: sc.running("C") == 1, 8)
        print("  token files (name, count):", sc.tokenfiles())
        if shown and sc.running("A") + sc.running("B") == 2:
            print(
                "  DEFECT: A, B and C run together, each with 1 token of a "
                "token whose total is 2"
            )
        return shown
    finally:
        sc.close(["A", "B", "C"])


def scenario_orphans() -> bool:
    """Total 1. X (1 token) runs; its scheduler is killed, the experiment is run
    again without X and completes: X, still running, is now an orphan and
    `experimaestro orphans --clean` removes its folder. A scheduler started
    afterwards is asked for Y (1 token): Y must wait"""
    sc = Scenario("orphans")
    try:
        s1 = sc.scheduler("one", "ws", 1, "c08demo")
        s1.command("submit X 1")
        if not wait_until(lambda: sc.running("X") == 1, 60):
            raise RuntimeError("X did not start")
        time.sleep(1)
        s1.process.kill()
        s1.process.wait()

        # The experiment runs again, without X, and completes
        s1b = sc.scheduler("oneb", "ws", 1, "c08demo")
        s1b.command("exit", ack=False)
        if not wait_until((sc.ctrl / "oneb.closed").exists, 60):
            raise RuntimeError("second run did not complete")
        s1b.process.kill()

        env = dict(os.environ)
        env["XPM_WORKDIR"] = str(sc.root / "xpmhome")
        output = subprocess.run(
            [sys.executable, "-m", "experimaestro", "orphans", "--clean", str(sc.root / "ws")],
            env=env,
            capture_output=True,
            text=True,
        )
        print("  orphans --clean:", output.stdout.strip().replace("\n", " | "))
        if sc.running("X") != 1:
            raise RuntimeError("X is not running any more")

        s2 = sc.scheduler("two", "ws", 1)
        s2.command("submit Y 1")
        shown = wait_until(lambda: sc.running("Y") == 1, 8)
        print("  token files (name, count):", sc.tokenfiles())
        if shown and sc.running("X") == 1:
            print(
                "  DEFECT: X and Y run together, each with 1 token of a token "
                "whose total is 1"
            )
        return shown
    finally:
        sc.close(["X", "Y"])


SCENARIOS = {
    "workspaces": scenario_workspaces,
    "twice": scenario_twice,
    "newline": scenario_newline,
    "shared": scenario_shared,
    "orphans": scenario_orphans,
}


def main(names):
    shown = []
    failed = []
    for name in names or SCENARIOS.keys():
        print(f"[{name}] {SCENARIOS[name].__doc__}")
        try:
            if SCENARIOS[name]():
                shown.append(name)
            else:
                print("  property holds in this run")
        except Exception as e:
            print(f"  could not play the scenario: {e!r}")
            failed.append(name)

    print("defects shown:", shown, "- not played:", failed)
    if shown:
        return 1
    return 2 if failed else 0


if __name__ == "__main__":
    if len(sys.argv) > 1 and sys.argv[1] == "--worker":
        worker(
            sys.argv[2], Path(sys.argv[3]), sys.argv[4], int(sys.argv[5]), sys.argv[6]
        )
    else:
        sys.exit(main(sys.argv[1:]))
