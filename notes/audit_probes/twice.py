import sys, os, logging, threading, time, tempfile
from experimaestro import experiment
from experimaestro.tokens import ProcessCounterToken
from vpk_sched import VTask
total = int(sys.argv[1])
aborts = [0]
class H(logging.Handler):
    def emit(self, rec):
        if "aborting start" in rec.getMessage():
            aborts[0] += 1
logging.getLogger("xpm").addHandler(H())
logging.getLogger("xpm").setLevel(logging.WARNING)
logging.getLogger("xpm").propagate = False
wd = tempfile.mkdtemp(prefix="auditA-twice-")
def watchdog():
    time.sleep(float(sys.argv[2]))
    print("TIMEOUT total=%d aborted_starts=%d" % (total, aborts[0]), flush=True)
    os._exit(3)
threading.Thread(target=watchdog, daemon=True).start()
with experiment(wd, "twice", port=-1) as xp:
    tok = ProcessCounterToken(total)
    t = VTask(name="a")
    tok(1, t); tok(1, t)
    t.submit()
    job = t.__xpm__.job
    st = job.wait()
    print("FINISHED total=%d state=%s aborted_starts=%d" % (total, st, aborts[0]), flush=True)
