import tempfile, pathlib, logging
logging.disable(logging.CRITICAL)
from experimaestro.tokens import CounterToken
d = pathlib.Path(tempfile.mkdtemp(prefix="auditA-tok-"))
(d / "deadbeef.token").write_text("")   # what a scheduler killed between open("wt") and write() leaves
try:
    t = CounterToken("t", d, 2)
    print("created, available =", t.available)
except Exception as e:
    print("CounterToken.__init__ raised", type(e).__name__, e)
