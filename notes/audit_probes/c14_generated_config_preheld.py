from experimaestro import Config, Task, Param, field, LightweightTask
from experimaestro.scheduler.workspace import RunMode
class Sub(Config):
    x: Param[int] = 1
class P(LightweightTask):
    def execute(self): pass
class T(Task):
    sub: Param[Sub] = field(default_factory=lambda: Sub())
    def execute(self): pass
t=T(); held=t.pre_tasks; t.submit(run_mode=RunMode.DRY_RUN)
try: t.sub.x=5; print("E1 accepted")
except Exception as e: print("E1 rejected", type(e).__name__)
held.append(P()); print("E2 pre_tasks of task:", len(t.__xpm__.pre_tasks))
