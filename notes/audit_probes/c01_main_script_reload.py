"""Situations where the UNMODIFIED tree violates C01 (exit code 1 when at least
one of them shows, 0 otherwise)

Run: PYTHONPATH=<tree>/src python existing_defect_repro.py

D1  A task defined in the experiment script itself (module `__main__`): the
    process that builds it uses the type identifier `__main__.<class>`; every
    process that loads it again (the job process, `experimaestro deprecated
    list`, `ConfigInformation.fromParameters`) imports the script under the
    name `_main_` and computes the type identifier `_main_.<class>`, hence
    another identifier and another job directory.

D2  A list-valued parameter whose default holds a NaN: `C()` is recognised as
    "the default" only while the NaN is the very same Python object (list
    equality short-cuts on identity); the same configuration built with an
    explicit (equal) value, or loaded from its saved form in another process,
    gets another identifier.

D3  Two sub-configurations sharing ONE pre-task object versus two equal
    pre-task objects: the pre-tasks are de-duplicated on id(), not on their
    identifier - the same content gets two identifiers.

D4  The job directory as the running task sees it: when a task is loaded as an
    instance (what `experimaestro run` does in the job process), the folder
    of its stdout / stderr (`__xpm_stdout__`) is derived from the Python name
    of the class (module.qualname) instead of the type identifier: with an
    `__xpmid__`, it is not jobs/<type id>/<identifier>.
"""

import json
import subprocess
import sys
import tempfile
import warnings
from pathlib import Path

warnings.filterwarnings("ignore")

SCRIPT = '''
import sys, json, warnings
warnings.filterwarnings("ignore")
from pathlib import Path
from experimaestro import Config, Param, Task, experiment
from experimaestro.scheduler.workspace import RunMode


class Prepare(Task):
    n: Param[int]

    def execute(self):
        pass


if __name__ == "__main__":
    workdir = Path(sys.argv[1])
    with experiment(workdir, "demo", port=-1, run_mode=RunMode.GENERATE_ONLY):
        task = Prepare(n=1)
        task.submit()
        print(json.dumps({
            "typeid": str(task.__xpmtype__.identifier),
            "identifier": task.__xpm__.identifier.all.hex(),
            "path": str(task.__xpm__.job.path),
        }))
'''

LOADER = '''
import sys, json, logging, warnings
warnings.filterwarnings("ignore")
from pathlib import Path
from experimaestro.tools.jobs import load_job
params, job = load_job(Path(sys.argv[1]) / "params.json")
print(json.dumps({
    "typeid": str(job.__xpmtype__.identifier),
    "identifier": job.__xpm__.identifier.all.hex(),
}))
'''

D2_MODULE = '''
from typing import List
from experimaestro import Config, Param


class Clip(Config):
    __xpmid__ = "demo.c01.existing.clip"
    bounds: Param[List[float]] = [float("nan"), 1.0]
'''

D3_MODULE = '''
from experimaestro import Config, Param, LightweightTask


class Load(LightweightTask):
    __xpmid__ = "demo.c01.existing.load"

    def execute(self):
        pass


class Part(Config):
    __xpmid__ = "demo.c01.existing.part"
    x: Param[int]


class Whole(Config):
    __xpmid__ = "demo.c01.existing.whole"
    a: Param[Part]
    b: Param[Part]
'''


def run(args, **kwargs):
    out = subprocess.run(
        [sys.executable] + args, capture_output=True, text=True, check=False, **kwargs
    )
    if out.returncode != 0:
        raise RuntimeError(out.stderr[-3000:])
    return json.loads(out.stdout.strip().splitlines()[-1])


def d1(tmp: Path):
    script = tmp / "my_experiment.py"
    script.write_text(SCRIPT)
    loader = tmp / "loader.py"
    loader.write_text(LOADER)
    workdir = tmp / "workspace"
    workdir.mkdir()

    built = run([str(script), str(workdir)])
    jobpath = Path(built["path"])
    assert (jobpath / "params.json").is_file(), "params.json was not generated"
    loaded = run([str(loader), str(jobpath)])

    print(f"D1 built : jobs/{built['typeid']}/{built['identifier']}")
    print(f"D1 loaded: jobs/{loaded['typeid']}/{loaded['identifier']}")
    return (built["typeid"], built["identifier"]) != (
        loaded["typeid"],
        loaded["identifier"],
    )


def d2(tmp: Path):
    (tmp / "c01_existing_d2.py").write_text(D2_MODULE)
    sys.path.insert(0, str(tmp))
    from c01_existing_d2 import Clip
    from experimaestro.core.objects import ConfigInformation

    def hexid(c):
        return c.__xpm__.identifier.all.hex()

    implicit = hexid(Clip())
    explicit = hexid(Clip(bounds=[float("nan"), 1.0]))
    loaded = hexid(
        ConfigInformation.fromParameters(
            json.loads(Clip().__xpm__.__json__()), as_instance=False, discard_id=True
        )
    )
    print(f"D2 Clip()                         : {implicit}")
    print(f"D2 Clip(bounds=[nan, 1.0])        : {explicit}")
    print(f"D2 Clip() saved and loaded again  : {loaded}")
    return not (implicit == explicit == loaded)


def d3(tmp: Path):
    (tmp / "c01_existing_d3.py").write_text(D3_MODULE)
    sys.path.insert(0, str(tmp))
    from c01_existing_d3 import Load, Part, Whole

    def hexid(c):
        return c.__xpm__.identifier.all.hex()

    shared = Load()
    one = Whole(a=Part(x=1).add_pretasks(shared), b=Part(x=2).add_pretasks(shared))
    two = Whole(a=Part(x=1).add_pretasks(Load()), b=Part(x=2).add_pretasks(Load()))
    print(f"D3 one shared pre-task object : {hexid(one)}")
    print(f"D3 two equal pre-task objects : {hexid(two)}")
    return hexid(one) != hexid(two)


D4_MODULE = '''
from experimaestro import Param, Task


class Prepare(Task):
    __xpmid__ = "demo.c01.existing.prep"
    n: Param[int]

    def execute(self):
        pass
'''


def d4(tmp: Path):
    (tmp / "c01_existing_d4.py").write_text(D4_MODULE)
    sys.path.insert(0, str(tmp))
    from c01_existing_d4 import Prepare
    from experimaestro.core.objects import ConfigInformation
    from experimaestro.scheduler.workspace import RunMode
    import experimaestro.taskglobals as taskglobals

    task = Prepare(n=1)
    task.submit(run_mode=RunMode.DRY_RUN)
    job = task.__xpm__.job
    expected = Path("/ws/jobs") / job.relpath / f"{job.name}.out"

    previous = taskglobals.Env.instance().wspath
    taskglobals.Env.instance().wspath = Path("/ws")
    try:
        instance = ConfigInformation.fromParameters(
            json.loads(task.__xpm__.__json__()), as_instance=True
        )
    finally:
        taskglobals.Env.instance().wspath = previous
    print(f"D4 stdout of the job              : {expected}")
    print(f"D4 stdout seen by the running task: {instance.__xpm_stdout__}")
    return Path(instance.__xpm_stdout__) != expected


def main():
    shown = []
    with tempfile.TemporaryDirectory(prefix="c01-existing-") as tmpname:
        tmp = Path(tmpname).resolve()
        for name, fn in (("D1", d1), ("D2", d2), ("D3", d3), ("D4", d4)):
            try:
                if fn(tmp):
                    shown.append(name)
            except Exception as e:  # noqa: BLE001
                print(f"{name}: could not be run ({e!r})")

    if shown:
        print("C01 VIOLATED by the unmodified tree:", ", ".join(shown))
        return 1
    print("no existing defect shown")
    return 0


if __name__ == "__main__":
    sys.exit(main())
