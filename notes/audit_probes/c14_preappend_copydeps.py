import sys
sys.path.insert(0,'/verif/harness')
from vpk import schema
from experimaestro.scheduler.workspace import RunMode
t=schema.TaskOut(x=1); out=t.submit(run_mode=RunMode.DRY_RUN)
a=schema.TaskOut(x=2, c=schema.Inner(x=1)); a.submit(run_mode=RunMode.DRY_RUN)
leaf=a.c
idb=leaf.__xpm__.identifier.all.hex()
try:
    leaf.copy_dependencies(out); print("accepted; task mark:", leaf.__xpm__.task is t, "cached id same:", leaf.__xpm__.identifier.all.hex()==idb, "fresh id:", schema.Inner(x=1).__xpm__.identifier.all.hex()==idb)
except Exception as e: print("rejected", type(e).__name__)
try:
    a.pre_tasks.append(schema.Pre()); print("preappend accepted", len(a.__xpm__.pre_tasks))
except Exception as e: print("rejected", type(e).__name__)
