(* Correspondence glue for C10: replays on model/Runner.v the launch histories that
   harness/drive_c10.py ran on the real task runner (real generated job script, real deaths) and
   compares, launch by launch, the observable effects seen before and after the death and the
   post-mortem state of the job directory.

   The harness does not see the runner's private steps (NoteLock, TestDone, SetCleaned); it reports
   the observable effects that happened before the signal was sent.  The model's death index k is
   therefore any k whose prefix shows exactly these observable effects (trace validation up to
   silent steps); the launch agrees when one such k explains everything that was observed.          *)
From Coq Require Import ZArith List Bool.
From XV Require Import model.Runner.
Import ListNotations.

Inductive ev :=
| ERegAtexit | EUnregAtexit | ESetTerm | ESetInt | ERestoreTerm | ERestoreInt
| ELock | ERmFailed | EBodyBegin | EBodyEnd | ETouchDone | EWriteFailed | ERmPid | EUnlock
| EFork     (* the body has forked and its child is gone *)
| EOther.   (* anything the model never does: removal of the success marker, rewriting the pid file *)

Definition ev_of (e : eff) : list ev :=
  match e with
  | RegAtexit => [ERegAtexit] | UnregAtexit => [EUnregAtexit]
  | SetTerm => [ESetTerm] | SetInt => [ESetInt] | RestoreTerm => [ERestoreTerm] | RestoreInt => [ERestoreInt]
  | Lock => [ELock] | NoteLock => [] | TestDone => []
  | RmFailed => [ERmFailed]
  | BodyBegin => [EBodyBegin] | BodyEnd _ => [EBodyEnd]
  | TouchDone => [ETouchDone]
  | WriteFailed _ => [EWriteFailed]
  | SetCleaned => [] | RmPid => [ERmPid] | Unlock => [EUnlock]
  | Child _ => [EFork]
  end.
Definition evs (l : list eff) : list ev := flat_map ev_of l.

(* what is observed INSIDE a process forked by the body: the at-fork hook (handlers restored, exit callback
   unregistered - in the child, not in the job process), then what it does to the job directory *)
Definition cev_of (e : ceff) : ev :=
  match e with CTouchDone => ETouchDone | CWriteFailed _ => EWriteFailed | CRmPid => ERmPid | CUnlock => EUnlock end.
Definition child_evs (l : list eff) : list ev :=
  flat_map (fun e => match e with
                     | Child c => [ERestoreTerm; ERestoreInt; EUnregAtexit] ++ map cev_of c
                     | _ => []
                     end) l.

Definition ev_code (e : ev) : nat :=
  match e with
  | ERegAtexit => 0 | EUnregAtexit => 1 | ESetTerm => 2 | ESetInt => 3 | ERestoreTerm => 4 | ERestoreInt => 5
  | ELock => 6 | ERmFailed => 7 | EBodyBegin => 8 | EBodyEnd => 9 | ETouchDone => 10 | EWriteFailed => 11
  | ERmPid => 12 | EUnlock => 13 | EOther => 14 | EFork => 15
  end.
Definition ev_eqb (a b : ev) : bool := Nat.eqb (ev_code a) (ev_code b).
Definition ctx_eqb (a b : ctx) : bool :=
  match a, b with CProp, CProp | CTry, CTry | CAtexit, CAtexit => true | _, _ => false end.

Fixpoint list_eqb {A} (e : A -> A -> bool) (a b : list A) : bool :=
  match a, b with
  | [], [] => true
  | x :: a', y :: b' => e x y && list_eqb e a' b'
  | _, _ => false
  end.
Definition opt_eqb {A} (e : A -> A -> bool) (a b : option A) : bool :=
  match a, b with None, None => true | Some x, Some y => e x y | _, _ => false end.

(* post-mortem observation of the job directory *)
Record obs := {
  o_done : bool;             (* <name>.done exists *)
  o_failed : option Z;       (* <name>.failed exists, with this code inside *)
  o_pid : bool;              (* <name>.pid exists *)
  o_lockfree : bool;         (* a probe could take the run lock *)
  o_runs : nat;              (* body entries recorded by the task *)
  o_completed : nat          (* body completions recorded by the task *)
}.
Definition obs_eqb (d : dir) (o : obs) : bool :=
  Bool.eqb (d_done d) (o_done o) && opt_eqb Z.eqb (d_failed d) (o_failed o) && Bool.eqb (d_pid d) (o_pid o)
  && Bool.eqb (negb (d_lock d)) (o_lockfree o) && Nat.eqb (d_runs d) (o_runs o)
  && Nat.eqb (d_completed d) (o_completed o).

(* a second job process for the same directory, started while the first was in its body, and the
   signal it received before it could take the run lock *)
Record wrec := {
  w_out : outcome;
  w_death : sig * ctx;
  w_pre : list ev;                (* observable effects of the second process before the signal *)
  w_post : list ev;               (* ... and after it *)
  w_obs : obs                     (* the directory when the second process is gone, the first still in its body *)
}.

(* one launch as recorded by the harness *)
Record lrec := {
  l_out : outcome;
  l_death : option (sig * ctx);   (* the signal sent and the exception context of the line it was sent at *)
  l_pre : list ev;                (* observable effects before the signal (all of them when no death) *)
  l_post : list ev;               (* observable effects after it *)
  l_obs : obs;
  l_waiter : option wrec;         (* double launch: what the second process did meanwhile *)
  l_again : bool;                 (* a second death: SIGKILL before the effects of l_post were followed by another *)
  l_fork : option cexit;          (* the body forks once; how the child leaves *)
  l_child : list ev               (* observable effects inside the forked child *)
}.

(* second death, for a body that may fork (glue only; launch2 of the model when l_fork = None) *)
Definition launch2_f (v : variant) (fs : bool) (d : dir) (fk : option cexit) (o : outcome) (dth : death) (j : nat) : dir :=
  let '(g, k, c) := dth in
  let pre := firstn k (trace_f v fs fk o d) in
  die (run_effs (pre ++ firstn j (on_signal v g c (run_effs pre (boot d)))) (boot d)).

(* exception contexts possible between effect k-1 and effect k: that of either neighbour, and - when the
   run leaves the try block for the exit phase without any effect in between (a BaseException that no
   clause catches passes the `except` lines) - the propagating context                                  *)
Definition ctx_at_from (c0 : ctx) (t : list (ctx * eff)) (k : nat) : list ctx :=
  let before := match k with
                | 0 => Some c0
                | S k' => match nth_error t k' with Some (c, _) => Some c | None => None end
                end in
  let after := match nth_error t k with Some (c, _) => c | None => CAtexit end in
  (match before with Some c => [c] | None => [] end) ++ [after] ++
  (match before, after with Some CTry, CAtexit => [CProp] | _, _ => [] end).
Definition ctx_at := ctx_at_from CProp.

Definition check_at (v : variant) (fs : bool) (d : dir) (r : lrec) (g : sig) (c : ctx) (k : nat) : bool :=
  let t := runner_f v fs (l_fork r) (l_out r) (boot d) in
  let pre := firstn k (map snd t) in
  list_eqb ev_eqb (evs pre) (l_pre r)
  && list_eqb ev_eqb (child_evs pre) (l_child r)
  && existsb (ctx_eqb c) (ctx_at t k)
  && list_eqb ev_eqb (evs (on_signal v g c (run_effs pre (boot d)))) (l_post r)
  && obs_eqb (launch_f v fs d (l_fork r) (l_out r) (Some (g, k, c))) (l_obs r).

(* ---- a second death: the observed effects after the first signal are a prefix (up to silent steps) of
   what the model does after it, and the directory is the one the model leaves when it stops there *)
Fixpoint first_some {A B} (f : A -> option B) (l : list A) : option B :=
  match l with
  | [] => None
  | x :: l' => match f x with Some y => Some y | None => first_some f l' end
  end.

Definition check_at2 (v : variant) (fs : bool) (d : dir) (r : lrec) (g : sig) (c : ctx) (k : nat) : option dir :=
  let t := runner_f v fs (l_fork r) (l_out r) (boot d) in
  let pre := firstn k (map snd t) in
  if list_eqb ev_eqb (evs pre) (l_pre r) && list_eqb ev_eqb (child_evs pre) (l_child r)
     && existsb (ctx_eqb c) (ctx_at t k) then
    let h := on_signal v g c (run_effs pre (boot d)) in
    match find (fun j => list_eqb ev_eqb (evs (firstn j h)) (l_post r)
                         && obs_eqb (launch2_f v fs d (l_fork r) (l_out r) (g, k, c) j) (l_obs r))
               (List.seq 0 (S (length h))) with
    | Some j => Some (launch2_f v fs d (l_fork r) (l_out r) (g, k, c) j)
    | None => None
    end
  else None.

(* ---- double launch: the second process (w) dies before it gets the lock, then the first goes on *)
Definition check_wait (v : variant) (d : dir) (w : wrec) (k : nat) : bool :=
  let '(g, c) := w_death w in
  let w0 := enter (at_body d) in
  let pre := firstn k (before_lock (map snd (runner v (w_out w) w0))) in
  list_eqb ev_eqb (evs pre) (w_pre w)
  && existsb (ctx_eqb c) (ctx_at (runner v (w_out w) w0) k)
  && list_eqb ev_eqb (evs (on_signal v g c (run_effs pre w0))) (w_post w)
  && obs_eqb (double_mid v d (w_out w) (g, k, c)) (w_obs w).

Definition check_rest (v : variant) (d : dir) (r : lrec) (ow : outcome) (dw : death) (g : sig) (c : ctx) (k : nat) : bool :=
  let h := back (at_body d) (waiter_end v d ow dw) in
  let t := from_body v (l_out r) h in
  let pre := firstn k (map snd t) in
  list_eqb ev_eqb (evs (map snd (upto_body (boot d)) ++ pre)) (l_pre r)
  && existsb (ctx_eqb c) (ctx_at_from CTry t k)
  && list_eqb ev_eqb (evs (on_signal v g c (run_effs pre h))) (l_post r)
  && obs_eqb (double v d (l_out r) ow dw (Some (g, k, c))) (l_obs r).

Definition check_double (v : variant) (d : dir) (r : lrec) (w : wrec) : option dir :=
  if d_done d || l_again r || (match l_fork r with Some _ => true | None => false end) then None else
  let '(gw, cw) := w_death w in
  match find (check_wait v d w) (List.seq 0 5) with
  | None => None
  | Some kw =>
      let dw := (gw, kw, cw) in
      let h := back (at_body d) (waiter_end v d (w_out w) dw) in
      match l_death r with
      | None =>
          if list_eqb ev_eqb (evs (map snd (upto_body (boot d)) ++ double_effects v (l_out r) None h)) (l_pre r)
             && list_eqb ev_eqb [] (l_post r)
             && obs_eqb (double v d (l_out r) (w_out w) dw None) (l_obs r)
          then Some (double v d (l_out r) (w_out w) dw None) else None
      | Some (g, c) =>
          match find (check_rest v d r (w_out w) dw g c)
                     (List.seq 0 (S (length (from_body v (l_out r) h)))) with
          | Some k => Some (double v d (l_out r) (w_out w) dw (Some (g, k, c)))
          | None => None
          end
      end
  end.

(* the model's directory after the launch, if the model explains the record *)
Definition check_launch (v : variant) (fs : bool) (d : dir) (r : lrec) : option dir :=
  match l_waiter r with Some w => check_double v d r w | None =>
  let tr := trace_f v fs (l_fork r) (l_out r) d in
  match l_death r with
  | None =>
      if list_eqb ev_eqb (evs tr) (l_pre r)
         && list_eqb ev_eqb (child_evs tr) (l_child r)
         && list_eqb ev_eqb [] (l_post r)
         && obs_eqb (launch_f v fs d (l_fork r) (l_out r) None) (l_obs r)
      then Some (launch_f v fs d (l_fork r) (l_out r) None) else None
  | Some (g, c) =>
      if l_again r then first_some (check_at2 v fs d r g c) (List.seq 0 (S (length tr))) else
      match find (check_at v fs d r g c) (List.seq 0 (S (length tr))) with
      | Some k => Some (launch_f v fs d (l_fork r) (l_out r) (Some (g, k, c)))
      | None => None
      end
  end end.

Fixpoint check_history (v : variant) (fs : bool) (d : dir) (rs : list lrec) : bool :=
  match rs with
  | [] => true
  | r :: rs' => match check_launch v fs d r with Some d' => check_history v fs d' rs' | None => false end
  end.

(* a case starts from a freshly generated job directory; the model is the repaired runner
   (fixes/C10-1.diff, C10-2.diff and C10-3.diff) *)
Definition check_case (rs : list lrec) : bool := check_history Guarded true fresh rs.
(* the same against the literal models of earlier states of the code.  check_case_forkunsafe = /repo 36bcb7f
   (before fixes/C10-3.diff: a forked child still goes through the except clauses of TaskRunner.run); it is the
   checker used when a directed probe shows that the tree under test does not contain that repair.
   Diagnosis only: check_case_fixed (/repo 3854c75, before fixes/C10-2.diff), check_case_prefix (pinned commit) *)
Definition check_case_forkunsafe (rs : list lrec) : bool := check_history Guarded false fresh rs.
Definition check_case_fixed (rs : list lrec) : bool := check_history Fixed false fresh rs.
Definition check_case_prefix (rs : list lrec) : bool := check_history Prefix false fresh rs.
