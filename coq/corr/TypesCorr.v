(* Correspondence glue for C15: compares the answers of model/Types.v with the
   answers of the implementation recorded by harness/drive_c15.py
   (observables only: declared or not, required flag, runtime type built from the
   annotation, the value a freshly built configuration holds, raised or not, the
   stored value; for a history of submits / validations / assignments: raised or
   not and how many jobs the call registered).                                 *)
From Coq Require Import ZArith List Bool String.
From XV Require Import model.Types.
Import ListNotations.
Open Scope Z_scope.

Definition fl_eqb (a b : fl) : bool :=
  match a, b with
  | FInt x, FInt y => x =? y
  | FFrac x, FFrac y => x =? y
  | _, _ => false
  end.

(* equality of stored values; dicts are compared as maps (their iteration order
   is not an observable the property names)                                    *)
Fixpoint value_eqb (a b : value) {struct a} : bool :=
  match a, b with
  | VNone, VNone => true
  | VInt x, VInt y => x =? y
  | VBool x, VBool y => Bool.eqb x y
  | VFloat x, VFloat y => fl_eqb x y
  | VStr x, VStr y => String.eqb x y
  | VPath x, VPath y => String.eqb x y
  | VEnum e m, VEnum e' m' => Nat.eqb e e' && Nat.eqb m m'
  | VList l, VList l' =>
      (fix go (l l' : list value) : bool :=
         match l, l' with
         | [], [] => true
         | x :: r, y :: r' => value_eqb x y && go r r'
         | _, _ => false
         end) l l'
  | VDict ps, VDict ps' =>
      Nat.eqb (List.length ps) (List.length ps') &&
      (fix all (ps : list (value * value)) : bool :=
         match ps with
         | [] => true
         | (k, v) :: r =>
             (fix find (qs : list (value * value)) : bool :=
                match qs with
                | [] => false
                | (k', v') :: r' => (value_eqb k k' && value_eqb v v') || find r'
                end) ps' && all r
         end) ps
  | VObj o c s, VObj o' c' s' => Nat.eqb o o' && Nat.eqb c c' && Bool.eqb s s'
  | _, _ => false
  end.

Fixpoint tyexp_eqb (a b : tyexp) : bool :=
  match a, b with
  | TInt, TInt | TFloat, TFloat | TBool, TBool | TStr, TStr | TPath, TPath => true
  | TEnum e, TEnum e' => Nat.eqb e e'
  | TList x, TList y => tyexp_eqb x y
  | TDict k v, TDict k' v' => tyexp_eqb k k' && tyexp_eqb v v'
  | TObj c, TObj c' => Nat.eqb c c'
  | _, _ => false
  end.

Definition opt_eqb {A} (e : A -> A -> bool) (a b : option A) : bool :=
  match a, b with None, None => true | Some x, Some y => e x y | _, _ => false end.

(* ---------------------------------------------------------------- assignment *)
Record assign_answer := {
  aa_declared : bool;            (* the class could be used (Type.fromType found a type, the default was accepted) *)
  aa_required : bool;            (* Argument.required *)
  aa_ty : option tyexp;          (* the runtime Type object, read back *)
  aa_init_raised : bool;         (* H() raised *)
  aa_initial : option value;     (* .values["x"] of a fresh H(): what an unassigned parameter holds *)
  aa_raised : bool;              (* the assignment raised *)
  aa_after : option value        (* .values["x"] afterwards; None = no entry *)
}.

Record assign_case := {
  ac_annot : annot;
  ac_default : option value;     (* x: Param[...] = default, as written *)
  ac_old : option value;         (* assigned first (a conforming value) *)
  ac_sealed : bool;              (* sealed before the assignment under test *)
  ac_ctor : bool;                (* H(x=v) instead of H().x = v *)
  ac_checker : option checker;   (* x: Annotated[..., Choices([...])] / a user-defined checker *)
  ac_v : value;
  ac_ans : assign_answer
}.

Definition check_assign (cl : classes) (c : assign_case) : bool :=
  let a := ac_ans c in
  match declare_default cl (ac_annot c) (ac_default c) with
  | None => negb (aa_declared a)
  | Some d0 =>
      let d := with_checker d0 (ac_checker c) in
      aa_declared a && Bool.eqb (a_required d) (aa_required a) &&
      opt_eqb tyexp_eqb (aa_ty a) (Some (a_ty d)) &&
      let cl' := cl ++ [ {| c_parents := []; c_task := false; c_args := [d] |} ] in
      let h := List.length cl in
      let defs := [ac_default c] in
      match cfg_new cl' defs h [] with                     (* H() *)
      | Err => aa_init_raised a
      | Ok n0 =>
          negb (aa_init_raised a) && opt_eqb value_eqb (aa_initial a) (cfg_get n0 0) &&
          if ac_ctor c then
            match cfg_new cl' defs h [(0%nat, ac_v c)] with   (* H(x=v) *)
            | Err => aa_raised a && opt_eqb value_eqb (aa_after a) None
            | Ok n' => negb (aa_raised a) && opt_eqb value_eqb (aa_after a) (cfg_get n' 0)
            end
          else
            let n1 := match ac_old c with Some ov => fst (cfg_set cl' n0 0 ov) | None => n0 end in
            let '(n', o) := cfg_set cl' (with_sealed n1 (ac_sealed c)) 0 (ac_v c) in
            Bool.eqb (aa_raised a) (match o with Stored => false | _ => true end) &&
            opt_eqb value_eqb (aa_after a) (cfg_get n' 0)
      end
  end.

(* -------------------------------------------------------------------- graphs *)
(* a history of operations on one set of objects (model: sess_step), compared call by
   call: raised or not, number of jobs the call added to the scheduler              *)
Record op_answer := {
  oa_raised : bool;          (* the call raised *)
  oa_delta : nat;            (* jobs the call added to the scheduler *)
  oa_job : bool;             (* afterwards: the object of the call (submitted task / assigned object) has a job *)
  oa_init : list nat;        (* afterwards: its init tasks *)
  oa_sealed : bool           (* afterwards: it is sealed *)
}.

Record graph_case := {
  gc_heap : heap;
  gc_jobs : list nat;        (* objects that have a job from the start: tasks loaded from a saved definition *)
  gc_ops : list op;
  gc_ans : list op_answer
}.

Definition subject (o : op) : nat :=
  match o with OSubmit r _ => r | OValidate r => r | OSet m _ _ => m | OInstance r => r end.

Fixpoint natlist_eqb (a b : list nat) : bool :=
  match a, b with
  | [], [] => true
  | x :: r, y :: r' => Nat.eqb x y && natlist_eqb r r'
  | _, _ => false
  end.

(* the model is the REPAIRED session (sess_step: a rejected submit leaves no job) *)
Fixpoint check_ops (cl : classes) (s : session) (ops : list op) (ans : list op_answer) : bool :=
  match ops, ans with
  | [], [] => true
  | o :: ops', a :: ans' =>
      let '(s', v) := sess_step cl s o in
      match v with
      | Accepted => negb (oa_raised a)
      | Rejected => oa_raised a
      | OutOfFuel => false
      end &&
      Nat.eqb (oa_delta a) (List.length (s_reg s') - List.length (s_reg s)) &&
      Bool.eqb (oa_job a) (mem (subject o) (s_jobs s')) &&
      natlist_eqb (oa_init a) (match nth_error (s_heap s') (subject o) with Some n => n_init n | None => [] end) &&
      Bool.eqb (oa_sealed a) (match nth_error (s_heap s') (subject o) with Some n => n_sealed n | None => false end) &&
      check_ops cl s' ops' ans'
  | _, _ => false
  end.

Definition check_graph (cl : classes) (c : graph_case) : bool :=
  check_ops cl {| s_heap := gc_heap c; s_jobs := gc_jobs c; s_reg := [] |} (gc_ops c) (gc_ans c).

(* one entry point for both kinds of C15 case *)
Inductive ccase := CAssign (c : assign_case) | CGraph (c : graph_case).
Definition check_case (cl : classes) (c : ccase) : bool :=
  match c with CAssign a => check_assign cl a | CGraph g => check_graph cl g end.
