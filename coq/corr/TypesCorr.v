(* Correspondence glue for C15: compares the answers of model/Types.v with the
   answers of the implementation recorded by harness/drive_c15.py
   (observables only: declared or not, required flag, runtime type built from the
   annotation, raised or not, the stored value; for submit: raised or not and
   whether a job was registered).                                              *)
From Coq Require Import ZArith List Bool String.
From XV Require Import model.Types.
Import ListNotations.
Open Scope Z_scope.

Definition fl_eqb (a b : fl) : bool :=
  match a, b with
  | FInt x, FInt y => x =? y
  | FFrac x, FFrac y => x =? y
  | _, _ => false
  end.

(* equality of stored values; dicts are compared as maps (their iteration order
   is not an observable the property names)                                    *)
Fixpoint value_eqb (a b : value) {struct a} : bool :=
  match a, b with
  | VNone, VNone => true
  | VInt x, VInt y => x =? y
  | VBool x, VBool y => Bool.eqb x y
  | VFloat x, VFloat y => fl_eqb x y
  | VStr x, VStr y => String.eqb x y
  | VPath x, VPath y => String.eqb x y
  | VEnum e m, VEnum e' m' => Nat.eqb e e' && Nat.eqb m m'
  | VList l, VList l' =>
      (fix go (l l' : list value) : bool :=
         match l, l' with
         | [], [] => true
         | x :: r, y :: r' => value_eqb x y && go r r'
         | _, _ => false
         end) l l'
  | VDict ps, VDict ps' =>
      Nat.eqb (List.length ps) (List.length ps') &&
      (fix all (ps : list (value * value)) : bool :=
         match ps with
         | [] => true
         | (k, v) :: r =>
             (fix find (qs : list (value * value)) : bool :=
                match qs with
                | [] => false
                | (k', v') :: r' => (value_eqb k k' && value_eqb v v') || find r'
                end) ps' && all r
         end) ps
  | VObj o c s, VObj o' c' s' => Nat.eqb o o' && Nat.eqb c c' && Bool.eqb s s'
  | _, _ => false
  end.

Fixpoint tyexp_eqb (a b : tyexp) : bool :=
  match a, b with
  | TInt, TInt | TFloat, TFloat | TBool, TBool | TStr, TStr | TPath, TPath => true
  | TEnum e, TEnum e' => Nat.eqb e e'
  | TList x, TList y => tyexp_eqb x y
  | TDict k v, TDict k' v' => tyexp_eqb k k' && tyexp_eqb v v'
  | TObj c, TObj c' => Nat.eqb c c'
  | _, _ => false
  end.

Definition opt_eqb {A} (e : A -> A -> bool) (a b : option A) : bool :=
  match a, b with None, None => true | Some x, Some y => e x y | _, _ => false end.

(* ---------------------------------------------------------------- assignment *)
Record assign_answer := {
  aa_declared : bool;            (* the class could be used (Type.fromType found a type) *)
  aa_required : bool;            (* Argument.required *)
  aa_ty : option tyexp;          (* the runtime Type object, read back *)
  aa_raised : bool;              (* the assignment raised *)
  aa_after : option value        (* .values["x"] afterwards; None = no entry *)
}.

Record assign_case := {
  ac_annot : annot;
  ac_default : option value;     (* x: Param[...] = default *)
  ac_old : option value;         (* assigned first (a conforming value) *)
  ac_sealed : bool;              (* sealed before the assignment under test *)
  ac_ctor : bool;                (* H(x=v) instead of H().x = v *)
  ac_v : value;
  ac_ans : assign_answer
}.

(* TypeConfig.__init__ without the argument: the default (through set, bypass), else
   None when the parameter is not required; then the optional first assignment   *)
Definition init_fields (cl : classes) (d : argdecl) (default old : option value) : list (nat * value) :=
  let fs0 :=
    match default with
    | Some dv => match assign cl d false true dv with Ok x => [(0%nat, x)] | Err => [] end
    | None => if a_required d then [] else [(0%nat, VNone)]
    end in
  match old with
  | Some ov => match assign cl d false false ov with Ok x => set_field fs0 0 x | Err => fs0 end
  | None => fs0
  end.

Definition check_assign (cl : classes) (c : assign_case) : bool :=
  let a := ac_ans c in
  match declare (ac_annot c) (match ac_default c with Some _ => true | None => false end) with
  | None => negb (aa_declared a)
  | Some d =>
      aa_declared a && Bool.eqb (a_required d) (aa_required a) &&
      opt_eqb tyexp_eqb (aa_ty a) (Some (a_ty d)) &&
      let cl' := cl ++ [ {| c_parents := []; c_task := false; c_args := [d] |} ] in
      let n := {| n_cls := List.length cl;
                  n_fields := if ac_ctor c then [] else init_fields cl' d (ac_default c) (ac_old c);
                  n_pre := []; n_init := []; n_sealed := ac_sealed c |} in
      let '(n', o) := cfg_set cl' n 0 (ac_v c) in
      Bool.eqb (aa_raised a) (match o with Stored => false | _ => true end) &&
      opt_eqb value_eqb (aa_after a) (cfg_get n' 0)
  end.

(* -------------------------------------------------------------------- graphs *)
Record graph_case := {
  gc_heap : heap;
  gc_ops : list (bool * nat);          (* (true = submit | false = validate only, root) *)
  gc_ans : list (bool * nat)           (* (raised, jobs registered by this call) *)
}.

Fixpoint check_ops (cl : classes) (h : heap) (reg : list nat)
                   (ops : list (bool * nat)) (ans : list (bool * nat)) : bool :=
  match ops, ans with
  | [], [] => true
  | (true, root) :: ops', (raised, delta) :: ans' =>
      let '(reg', v) := submit cl h reg root in
      match v with
      | Accepted => negb raised && Nat.eqb delta 1
      | Rejected => raised && Nat.eqb delta 0
      | OutOfFuel => false
      end && check_ops cl h reg' ops' ans'
  | (false, root) :: ops', (raised, delta) :: ans' =>
      match cfg_validate cl h root with
      | Some (VOk _) => negb raised && Nat.eqb delta 0
      | Some (VErr _) => raised && Nat.eqb delta 0
      | None => false
      end && check_ops cl h reg ops' ans'
  | _, _ => false
  end.

Definition check_graph (cl : classes) (c : graph_case) : bool :=
  check_ops cl (gc_heap c) [] (gc_ops c) (gc_ans c).

(* one entry point for both kinds of C15 case *)
Inductive ccase := CAssign (c : assign_case) | CGraph (c : graph_case).
Definition check_case (cl : classes) (c : ccase) : bool :=
  match c with CAssign a => check_assign cl a | CGraph g => check_graph cl g end.
