(* Correspondence glue for C13: compares the objects and the call log computed by
   model/Instance.v with what instance() and the parameter-file path really did
   (harness/drive_c13.py).                                                        *)
From Coq Require Import ZArith NArith List Bool Arith Ascii String.
From XV Require Import model.Walk model.Instance.
Import ListNotations.

Definition s (x : string) : str := map N_of_ascii (list_ascii_of_string x).

Fixpoint list_eqb {A} (e : A -> A -> bool) (a b : list A) : bool :=
  match a, b with
  | [], [] => true
  | x :: a', y :: b' => e x y && list_eqb e a' b'
  | _, _ => false
  end.

Fixpoint ovalue_eqb (a b : ovalue) : bool :=
  match a, b with
  | ONone, ONone => true
  | OScalar x, OScalar y => Z.eqb x y
  | OStr x, OStr y => str_eqb x y
  | OObj x, OObj y => Nat.eqb x y
  | OList x, OList y =>
      (fix go (x y : list ovalue) : bool :=
         match x, y with
         | [], [] => true
         | u :: x', v :: y' => ovalue_eqb u v && go x' y'
         | _, _ => false
         end) x y
  | ODict x, ODict y =>
      (fix go (x y : list (str * ovalue)) : bool :=
         match x, y with
         | [], [] => true
         | (k, u) :: x', (k', v) :: y' => str_eqb k k' && ovalue_eqb u v && go x' y'
         | _, _ => false
         end) x y
  | _, _ => false
  end.

Definition attr_eqb (a b : str * ovalue) : bool := str_eqb (fst a) (fst b) && ovalue_eqb (snd a) (snd b).

Definition call_eqb (a b : call) : bool :=
  match a, b with
  | PostInit x l, PostInit y m => Nat.eqb x y && list_eqb str_eqb l m
  | Execute x, Execute y => Nat.eqb x y
  | Body x, Body y => Nat.eqb x y
  | _, _ => false
  end.

(* one observed object: the configuration it was made for, its identity (named by the smallest
   configuration that maps to it), its attributes *)
Definition obs := (nat * nat * list (str * ovalue))%type.
Definition Obs (n name : nat) (attrs : list (str * ovalue)) : obs := (n, name, attrs).
Definition A2 (k : str) (v : ovalue) : str * ovalue := (k, v).
Definition F (k : str) (v : value) : str * value := (k, v).

Record answer := {
  a_objsA : list obs;            (* instance(): content of the ObjectStore afterwards *)
  a_logsA : list (list call);    (* one log per instance() call *)
  a_retA : list nat;             (* the object each call returned *)
  a_objsB : list obs;            (* parameter file: the objects load_objects made *)
  a_logB : list call;
  a_orderB : list nat;           (* order of the definitions in the parameter file *)
  a_objsC : list obs;            (* from_state_dict / load / from_task_dir (as_instance=True): the objects made *)
  a_logC : list call;            (* their call log *)
  a_initC : bool }.              (* the loader read the task's params.json (init tasks attached) *)

Fixpoint find_obj (l : list object) (n : nat) : option object :=
  match l with [] => None | o :: l' => if Nat.eqb (o_id o) n then Some o else find_obj l' n end.

Definition objs_agree (model : list object) (seen : list obs) : bool :=
  Nat.eqb (List.length model) (List.length seen) &&
  forallb (fun x : obs =>
             let '(n, name, attrs) := x in
             Nat.eqb n name &&
             match find_obj model n with
             | Some o => list_eqb attr_eqb (o_attrs o) attrs
             | None => false
             end) seen.

(* instance() is run without submit(): no init task is attached yet *)
Definition strip_init (nd : node) : node :=
  {| cls := cls nd; fields := fields nd; pre := pre nd; init := []; task := task nd; sealed := sealed nd |}.

(* once: what a directed probe says about the tree under test - the loader executes each lightweight task
   once (fixes/C13-1.diff) or every entry of the init-task list                                 *)
Definition case_t := (heap * nat * option nat * (bool * bool) * answer)%type.
(* sonce: the ObjectStore remembers the pre-tasks it executed (fixes/C13-3.diff), as a probe says *)
Definition Case (h : heap) (root : nat) (first : option nat) (once sonce : bool) (a : answer) : case_t :=
  (h, root, first, (once, sonce), a).

Fixpoint execs_of (l : list call) : list nat :=
  match l with [] => [] | Execute p :: l' => p :: execs_of l' | _ :: l' => execs_of l' end.

Definition check_instance_gen (pf : bool) (c : case_t) : bool :=
  let '(h, root, first, (_, sonce), a) := c in
  let hA := map strip_init h in
  match first with
  | None =>
      match instantiate_gen hA [] pf root with
      | Some r => list_eqb (list_eqb call_eqb) (a_logsA a) [r_log r]
                  && objs_agree (r_objects r) (a_objsA a)
                  && list_eqb Nat.eqb (a_retA a) [r_root r]
      | None => false
      end
  | Some r0 =>
      match instantiate_gen hA [] pf r0 with
      | Some r1 =>
          match (if sonce then instantiate_store hA (map o_id (r_objects r1)) (execs_of (r_log r1)) root
                 else instantiate_gen hA (map o_id (r_objects r1)) pf root) with
          | Some r2 => list_eqb (list_eqb call_eqb) (a_logsA a) [r_log r1; r_log r2]
                       && objs_agree (r_objects r1 ++ r_objects r2) (a_objsA a)
                       && list_eqb Nat.eqb (a_retA a) [r_root r1; r_root r2]
          | None => false
          end
      | None => false
      end
  end.

Definition check_instance : case_t -> bool := check_instance_gen false.

Definition check_params (c : case_t) : bool :=
  let '(h, root, first, (once, _), a) := c in
  match load_gen once h root with
  | Some r => list_eqb call_eqb (a_logB a) (r_log r)
              && objs_agree (r_objects r) (a_objsB a)
              && list_eqb Nat.eqb (a_orderB a) (map o_id (r_objects r))
  | None => false
  end.

(* the other loaders go through load_objects only: the objects and the __post_init__ calls of the
   parameter-file model (what they execute besides is the oracle's business)                    *)
Definition is_post (c : call) : bool := match c with PostInit _ _ => true | _ => false end.
Definition check_loader (c : case_t) : bool :=
  let '(h, root, first, (once, _), a) := c in
  let hC := if a_initC a then h else map strip_init h in
  match load_gen once hC root with
  | Some r => list_eqb call_eqb (filter is_post (a_logC a)) (filter is_post (r_log r))
              && objs_agree (r_objects r) (a_objsC a)
  | None => false
  end.

(* the hypothesis of C13_wired_like_graph / C13_post_init_once_after_fields holds on the case *)
Definition check_hyps (c : case_t) : bool := let '(h, _, _, _, _) := c in fields_nodupb h.

(* C13 *)
Definition check_case (c : case_t) : bool := check_hyps c && check_instance c && check_params c && check_loader c.

(* diagnosis: __post_init__ called before the attribute copy (Instance.instantiate_post_first) *)
Definition check_case_post_first (c : case_t) : bool :=
  check_hyps c && check_instance_gen true c && check_params c && check_loader c.
