(* Correspondence glue for C17: compares the generated values computed by model/GenPath.v
   with the values the real Sealer set during a dry-run submit (harness/drive_c17.py).   *)
From Coq Require Import ZArith NArith List Bool Arith Ascii String.
From XV Require Import model.Walk model.GenPath.
Import ListNotations.
Open Scope N_scope.

(* strings of the generated case files: their bytes *)
Definition s (x : string) : str := map N_of_ascii (list_ascii_of_string x).

Fixpoint list_eqb {A} (e : A -> A -> bool) (a b : list A) : bool :=
  match a, b with
  | [], [] => true
  | x :: a', y :: b' => e x y && list_eqb e a' b'
  | _, _ => false
  end.
Definition ppath_eqb (a b : ppath) : bool :=
  Nat.eqb (p_root a) (p_root b) && list_eqb str_eqb (p_parts a) (p_parts b).

(* the job directory is canonicalised by the harness to /JOB *)
Definition jd : ppath := {| p_root := 1; p_parts := [[74; 79; 66]] |}.

Record answer := {
  a_sealed : list bool;                            (* _sealed of every node before the submit *)
  a_values : list (nat * str * option ppath);      (* every pathgenerator parameter of every node: value after submit *)
  a_values2 : list (nat * str * option ppath) }.   (* same for a second submit of a fresh copy *)

Fixpoint lookup (l : list entry) (n : nat) (a : str) : option ppath :=
  match l with
  | [] => None
  | e :: l' => if Nat.eqb (g_node e) n && str_eqb (g_arg e) a then Some (g_path e) else lookup l' n a
  end.

Definition sealed_at (h : heap) (n : nat) : bool :=
  match nth_error h n with Some nd => sealed nd | None => false end.

Definition values_agree (h : heap) (l : list entry) (vals : list (nat * str * option ppath)) : bool :=
  forallb (fun v : nat * str * option ppath =>
             let '(n, a, p) := v in
             match p with
             | None => match lookup l n a with None => true | Some _ => false end
             | Some p =>
                 if sealed_at h n then true   (* set by the earlier submit that sealed it *)
                 else match lookup l n a with Some q => ppath_eqb p q | None => false end
             end) vals
  && forallb (fun e => existsb (fun v : nat * str * option ppath =>
                                  let '(n, a, _) := v in Nat.eqb n (g_node e) && str_eqb a (g_arg e)) vals) l.

(* monomorphic constructors: cheap to elaborate in the generated case files *)
Definition F (k : str) (v : value) : str * value := (k, v).
Definition G2 (a f : str) : str * str := (a, f).
Definition V3 (n : nat) (a : str) (p : option ppath) : nat * str * option ppath := (n, a, p).
(* decls: the declared argument names of every class, declaration order (read off the real
   ObjectType.arguments); the heap holds `fields` in the order of the .values dict of the real
   configuration (assignment order), as observed before the submit; ids: for every configuration
   attached as a pre-task, its raw identifier (lower-case hex: same order as the bytes), [] for
   the others; metas: configuration flagged with setmeta(c, True).
   tree: what two directed probes say about the tree under test - pre-tasks placed by the rank of
   their identifier (fixes/C17-3.diff) or by list index, flagged list elements numbered apart
   (fixes/C17-4.diff) or every element counted                                                *)
Record tree := { t_sorts_pre : bool; t_meta_apart : bool }.
Definition case_t :=
  (heap * list (list (str * str)) * list (list str) * list str * list bool * tree * nat * answer)%type.
Definition Case (h : heap) (g : list (list (str * str))) (d : list (list str)) (ids : list str)
                (metas : list bool) (t : tree) (r : nat) (a : answer) : case_t := (h, g, d, ids, metas, t, r, a).

(* SE decls idk metaf = the edges the Sealer follows *)
Definition check_with (esc : str -> str)
                      (SE : list (list str) -> (nat -> str) -> (nat -> bool) -> nat -> node -> list edge)
                      (second : bool) (c : case_t) : bool :=
  let '(h, gens, decls, ids, metas, t, root, a) := c in
  let idk := fun n => nth n ids [] in
  let metaf := fun n => nth n metas false in
  let hd := map (norm_node decls idk) h in
  match generated esc (SE decls idk metaf) h gens root jd with
  | None => false
  | Some l =>
      list_eqb Bool.eqb (map sealed h) (a_sealed a)
      && values_agree h l (a_values a) && (if second then values_agree h l (a_values2 a) else true)
      (* the hypotheses of C17_full_inside_distinct hold on the generated heaps *)
      && files_plainb gens && names_wfb hd && task_targets_cutb hd
      && forallb (fun nd => nodup_keys (map fst (fields nd))) h
  end.

(* the model of the repaired code (fixes/C17-1 ... -4) *)
Definition edges_repaired := seal_edges_full.
(* the model of the tree as the probes describe it *)
Definition edges_of_tree (t : tree) (decls : list (list str)) (idk : nat -> str) (metaf : nat -> bool)
                         (n : nat) (nd : node) : list edge :=
  seal_edges_m (if t_meta_apart t then metaf else no_meta) n
               (if t_sorts_pre t then norm_node decls idk nd else by_decl decls nd).

(* C17.  The second submit is a fresh copy of the same configuration: dicts filled in the opposite order,
   or parameters assigned in another order, or pre-tasks added in another order, or flagged list
   elements dropped - same model answer (C17_dict_order_irrelevant, C17_assignment_order_irrelevant_full,
   C17_pretask_order_irrelevant_full, C17_meta_list_elements_irrelevant); where the tree lacks the repair
   the harness gives the values of the first submit twice and the oracle reports the difference      *)
Definition check_case (c : case_t) : bool :=
  let '(_, _, _, _, _, t, _, _) := c in check_with esc_fix (edges_of_tree t) true c.
(* diagnosis: the code before fixes/C17-2.diff (dicts walked in insertion order), first submit only *)
Definition check_case_insertion :=
  check_with esc_fix (fun decls _ _ n nd => seal_edges_insertion n (by_decl decls nd)) false.
(* diagnosis: the code before fixes/C17-1.diff (keys used as they are) *)
Definition check_case_prefix :=
  check_with esc_prefix (fun decls _ _ n nd => seal_edges_insertion n (by_decl decls nd)) false.
(* diagnosis: a walk that iterates .values.items() (assignment order), first submit only *)
Definition check_case_assigned := check_with esc_fix (fun _ _ _ => seal_edges_assigned) false.
(* diagnosis: list positions that do not count the flagged elements (they share the position of the
   next element), first submit only                                                             *)
Fixpoint edges_value_skip (metaf : nat -> bool) (rel : list str) (v : value) : list edge :=
  match v with
  | VRef n => [(rel, n)]
  | VList l =>
      (fix go (i : nat) (l : list value) : list edge :=
         match l with
         | [] => []
         | x :: l' => edges_value_skip metaf (rel ++ [dec i]) x ++ go (if flagged metaf x then i else S i) l'
         end) 0%nat l
  | VDict l =>
      List.concat (map snd (sort_keys
        ((fix go (l : list (str * value)) : list (str * list edge) :=
            match l with [] => [] | (k, x) :: l' => (k, edges_value_skip metaf (rel ++ [k]) x) :: go l' end) l)))
  | _ => []
  end.
Definition check_case_skip :=
  check_with esc_fix (fun decls idk metaf n nd =>
    let nd' := norm_node decls idk nd in
    flat_map (fun kv => edges_value_skip metaf [fst kv] (snd kv)) (fields nd')
    ++ edges_tasks k_pre (pre nd') ++ edges_tasks k_init (init nd')
    ++ match task nd' with Some t => if Nat.eqb t n then [] else [([], t)] | None => [] end) false.
