(* Correspondence glue for C17: compares the generated values computed by model/GenPath.v
   with the values the real Sealer set during a dry-run submit (harness/drive_c17.py).   *)
From Coq Require Import ZArith NArith List Bool Arith Ascii String.
From XV Require Import model.Walk model.GenPath.
Import ListNotations.
Open Scope N_scope.

(* strings of the generated case files: their bytes *)
Definition s (x : string) : str := map N_of_ascii (list_ascii_of_string x).

Fixpoint list_eqb {A} (e : A -> A -> bool) (a b : list A) : bool :=
  match a, b with
  | [], [] => true
  | x :: a', y :: b' => e x y && list_eqb e a' b'
  | _, _ => false
  end.
Definition ppath_eqb (a b : ppath) : bool :=
  Nat.eqb (p_root a) (p_root b) && list_eqb str_eqb (p_parts a) (p_parts b).

(* the job directory is canonicalised by the harness to /JOB *)
Definition jd : ppath := {| p_root := 1; p_parts := [[74; 79; 66]] |}.

Record answer := {
  a_sealed : list bool;                            (* _sealed of every node before the submit *)
  a_values : list (nat * str * option ppath);      (* every pathgenerator parameter of every node: value after submit *)
  a_values2 : list (nat * str * option ppath) }.   (* same for a second submit of a fresh copy *)

Fixpoint lookup (l : list entry) (n : nat) (a : str) : option ppath :=
  match l with
  | [] => None
  | e :: l' => if Nat.eqb (g_node e) n && str_eqb (g_arg e) a then Some (g_path e) else lookup l' n a
  end.

Definition sealed_at (h : heap) (n : nat) : bool :=
  match nth_error h n with Some nd => sealed nd | None => false end.

Definition values_agree (h : heap) (l : list entry) (vals : list (nat * str * option ppath)) : bool :=
  forallb (fun v : nat * str * option ppath =>
             let '(n, a, p) := v in
             match p with
             | None => match lookup l n a with None => true | Some _ => false end
             | Some p =>
                 if sealed_at h n then true   (* set by the earlier submit that sealed it *)
                 else match lookup l n a with Some q => ppath_eqb p q | None => false end
             end) vals
  && forallb (fun e => existsb (fun v : nat * str * option ppath =>
                                  let '(n, a, _) := v in Nat.eqb n (g_node e) && str_eqb a (g_arg e)) vals) l.

(* monomorphic constructors: cheap to elaborate in the generated case files *)
Definition F (k : str) (v : value) : str * value := (k, v).
Definition G2 (a f : str) : str * str := (a, f).
Definition V3 (n : nat) (a : str) (p : option ppath) : nat * str * option ppath := (n, a, p).
(* decls: the declared argument names of every class, declaration order (read off the real
   ObjectType.arguments); the heap holds `fields` in the order of the .values dict of the real
   configuration (assignment order), as observed before the submit; ids: for every configuration
   attached as a pre-task, its raw identifier (lower-case hex: same order as the bytes), [] for
   the others                                                                                  *)
Definition case_t := (heap * list (list (str * str)) * list (list str) * list str * nat * answer)%type.
Definition Case (h : heap) (g : list (list (str * str))) (d : list (list str)) (ids : list str) (r : nat)
                (a : answer) : case_t := (h, g, d, ids, r, a).

Definition check_with (esc : str -> str) (SE : list (list str) -> (nat -> str) -> nat -> node -> list edge)
                      (second : bool) (c : case_t) : bool :=
  let '(h, gens, decls, ids, root, a) := c in
  let idk := fun n => nth n ids [] in
  let hd := map (norm_node decls idk) h in
  match generated esc (SE decls idk) h gens root jd with
  | None => false
  | Some l =>
      list_eqb Bool.eqb (map sealed h) (a_sealed a)
      && values_agree h l (a_values a) && (if second then values_agree h l (a_values2 a) else true)
      (* the hypotheses of C17_sorted_inside_distinct hold on the generated heaps *)
      && files_plainb gens && names_wfb hd && task_targets_cutb hd
      && forallb (fun nd => nodup_keys (map fst (fields nd))) h
  end.

(* C17: the model of the repaired code (fixes/C17-1, -2, -3).  The second submit is a fresh copy whose
   dicts may have been filled in the opposite order, whose parameters may have been assigned in another
   order, or whose pre-tasks may have been added in another order: same configuration, same model answer
   (C17_dict_order_irrelevant, C17_assignment_order_irrelevant_sorted, C17_pretask_order_irrelevant)  *)
Definition check_case := check_with esc_fix seal_edges_sorted true.
(* the code before fixes/C17-3.diff: pre-tasks placed by their index in the list (the harness gives
   the values of the first submit twice when the second copy has its pre-tasks in another order)   *)
Definition check_case_listorder := check_with esc_fix (fun decls _ => seal_edges_decl decls) true.
(* diagnosis: the code before fixes/C17-2.diff (dicts walked in insertion order), first submit only *)
Definition check_case_insertion :=
  check_with esc_fix (fun decls _ n nd => seal_edges_insertion n (by_decl decls nd)) false.
(* diagnosis: the code before fixes/C17-1.diff (keys used as they are) *)
Definition check_case_prefix :=
  check_with esc_prefix (fun decls _ n nd => seal_edges_insertion n (by_decl decls nd)) false.
(* diagnosis: a walk that iterates .values.items() (assignment order), first submit only *)
Definition check_case_assigned := check_with esc_fix (fun _ _ => seal_edges_assigned) false.
