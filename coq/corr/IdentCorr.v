(* Correspondence glue for the identifier core (C01, C02, C03, C12, C14, C20):
   replays a request history on the cache machine, with H := SHA-256, and
   compares with the identifiers the real implementation answered.          *)
From Coq Require Import ZArith NArith List Bool.
From XV Require Import proofs.DefaultSig_lemmas core.Value core.Sha256 model.Hash model.Cache model.Seal model.StateInv.
Import ListNotations.

Inductive expect := XDigest (d : bytes) | XSealed | XErr.

Definition answer_ok (a : answer) (x : expect) : bool :=
  match a, x with
  | ADigest d, XDigest d' => bytes_eqb d d'
  | ASealed, XSealed => true
  | AErr _, XErr => true
  | _, _ => false
  end.

Fixpoint answers_ok (a : list answer) (x : list expect) : bool :=
  match a, x with
  | [], [] => true
  | u :: a', v :: x' => answer_ok u v && answers_ok a' x'
  | _, _ => false
  end.

Record icase := {
  i_classes : classes;
  i_heap : heap;
  i_cache : cstate;                (* sealed flags and cached identifiers when the history starts *)
  i_ops : list op;
  i_expect : list expect }.

Definition run_case (fixflag : bool) (c : icase) : list answer :=
  run sha256 (i_classes c) (i_heap c) (hash_fuel (i_heap c)) fixflag (i_cache c) (i_ops c).

Definition check_case (c : icase) : bool := answers_ok (run_case true c) (i_expect c).
(* the pinned commit's machine (flag never seen by the cache test) *)
Definition check_case_prefix (c : icase) : bool := answers_ok (run_case false c) (i_expect c).

(* the hypothesis of the cache theorems (C01_cache_sound_cyclic: csound_c; C14: ginv), evaluated on
   the exported state: sealed set closed, cached identifiers on sealed nodes only and equal to the
   identifiers computed afresh                                                                  *)
Definition inv_icase (c : icase) : bool :=
  ginv_b sha256 (i_classes c) (hash_fuel (i_heap c)) (i_heap c, i_cache c).
Definition diag_icase (c : icase) : list nat :=
  ginv_diag sha256 (i_classes c) (hash_fuel (i_heap c)) (i_heap c, i_cache c).

(* the default test of the repaired implementation on pairs of configurations of an exported graph
   (HashComputer.is_default with a default that holds configurations): 1 = "v is the default d" *)
Definition default_pairs_icase (p : icase * list (nat * nat)) : list nat :=
  let c := fst p in
  map (fun dv : nat * nat =>
         Nat.b2n (is_default_sig sha256 (i_classes c) (i_heap c) (look_of (i_cache c)) (hash_fuel (i_heap c))
                                 (VRef (fst dv)) (VRef (snd dv))))
      (snd p).
