(* Correspondence glue for C18: compares the model's answers with the
   implementation's answers recorded by harness/drive_c18.py.             *)
From Coq Require Import ZArith NArith List Bool.
From Coq Require String Ascii.
From XV Require Import model.Launcher model.LauncherParse.
Import ListNotations.
Open Scope Z_scope.

(* texts are handed over as string literals (bytes = code points for the ASCII texts of the run) *)
Fixpoint text_of_string (s : String.string) : list N :=
  match s with
  | String.EmptyString => []
  | String.String a s' => Ascii.N_of_ascii a :: text_of_string s'
  end.

Fixpoint list_eqb {A} (e : A -> A -> bool) (a b : list A) : bool :=
  match a, b with
  | [], [] => true
  | x :: a', y :: b' => e x y && list_eqb e a' b'
  | _, _ => false
  end.
Definition opt_eqb {A} (e : A -> A -> bool) (a b : option A) : bool :=
  match a, b with None, None => true | Some x, Some y => e x y | _, _ => false end.
Definition cpu_eqb (a b : cpu) := (c_mem a =? c_mem b) && (c_cores a =? c_cores b).
Definition req_eqb (a b : req) :=
  list_eqb Z.eqb (r_gpus a) (r_gpus b) && cpu_eqb (r_cpu a) (r_cpu b) && (r_dur a =? r_dur b).
Definition natz_eqb (a b : nat * Z) := Nat.eqb (fst a) (fst b) && (snd a =? snd b).

(* programmatic construction through the store model: returns the final store,
   the operand objects created, and the result object                        *)
Definition alloc (st : store) (r : req) : store * robj :=
  ({| s_cpus := s_cpus st ++ [r_cpu r]; s_lists := s_lists st ++ [r_gpus r] |},
   {| o_cpu := length (s_cpus st); o_list := length (s_lists st); o_dur := r_dur r |}).

(* a term built programmatically: base constructor, then optional `* count` *)
Definition build_term (st : store) (t : term) : store * list (robj * req) * robj :=
  match t with
  | TCuda its (Some c) =>
      let '(st1, g) := alloc st (sem_term (TCuda its None)) in
      let '(st2, m) := mul_op st1 g c in
      (st2, [(g, view st1 g)], m)
  | _ => let '(st1, o) := alloc st (sem_term t) in (st1, [], o)
  end.

(* reduce(&) over the terms; every operand is recorded with the value it had
   when it was created, so that purity can be read off the final store        *)
Fixpoint build_rest (st : store) (acc : robj) (ops : list (robj * req)) (ts : list term)
  : store * list (robj * req) * robj :=
  match ts with
  | [] => (st, ops, acc)
  | t :: ts' =>
      let '(st1, ops1, o) := build_term st t in
      let '(st2, n) := and_op st1 acc o in
      build_rest st2 n (ops ++ ops1 ++ [(o, view st1 o); (acc, view st1 acc)]) ts'
  end.
Definition build_spec (ts : list term) : store * list (robj * req) * robj :=
  match ts with
  | [] => ({| s_cpus := []; s_lists := [] |}, [], {| o_cpu := 0; o_list := 0; o_dur := 0 |})
  | t :: ts' =>
      let '(st1, ops1, o) := build_term {| s_cpus := []; s_lists := [] |} t in
      build_rest st1 o ops1 ts'
  end.
Definition spec_result (ts : list term) : req := let '(st, _, o) := build_spec ts in view st o.
Definition spec_pure (ts : list term) : bool :=
  let '(st, ops, _) := build_spec ts in forallb (fun p => req_eqb (view st (fst p)) (snd p)) ops.

Record answer := {
  a_parsed : option (list req);       (* parse(text), None if it raised *)
  a_prog : list req;                  (* built with cpu()/cuda_gpu()/duration(), & and * *)
  a_pure : list bool;                 (* per alternative: all operands unchanged afterwards *)
  a_single : list (option Z);         (* req.match(host) score per alternative *)
  a_union : option (nat * Z);         (* RequirementUnion.match: chosen index, score *)
  a_orunion : option (nat * Z);       (* the same union written a | b | ... *)
  a_texts : list (list N * option (list req));
                                      (* texts handed to the real parse() -- the text of the case with its random
                                         whitespace, texts near the grammar -- and what it answered (None = raised) *)
  a_reg : option (option (nat * req)) (* LauncherRegistry.find over the hosts of launchers.py: None = it raised,
                                         Some None = no launcher, Some (Some (j, r)) = host j, requirement r *)
}.

(* the arguments of find(): consecutive groups of the alternatives (true = one object built with |) *)
Fixpoint split_args (gs : list (bool * nat)) (rs : list req) : list arg :=
  match gs with
  | [] => []
  | (u, n) :: gs' => (u, firstn n rs) :: split_args gs' (skipn n rs)
  end.
Definition natreq_eqb (a b : nat * req) := Nat.eqb (fst a) (fst b) && req_eqb (snd a) (snd b).
Definition registry_answer (args : list arg) (hs : list host) : option (nat * req) :=
  match registry_find args hs with
  | Some (i, j) => match nth_error (all_alts args) i with Some r => Some (j, r) | None => None end
  | None => None
  end.

Definition check_case (c : list (list term) * host * list host * list (bool * nat) * answer) : bool :=
  let '(e, h, hs, gs, a) := c in
  let rs := sem_expr e in
  opt_eqb (list_eqb req_eqb) (a_parsed a) (Some rs)
  && list_eqb req_eqb (a_prog a) rs
  && list_eqb req_eqb (map spec_result e) rs
  && list_eqb Bool.eqb (a_pure a) (map spec_pure e)
  && list_eqb (opt_eqb Z.eqb) (a_single a) (map (fun r => match_simple r h) rs)
  && opt_eqb natz_eqb (a_union a) (union_match rs h)
  && opt_eqb natz_eqb (a_orunion a) (union_match rs h)
  && list_eqb req_eqb (map prog_value e) rs
  && forallb (fun tr : list N * option (list req) =>
                opt_eqb (list_eqb req_eqb) (snd tr) (text_reqs (fst tr))) (a_texts a)
  && match a_reg a with
     | None => false
     | Some got => opt_eqb natreq_eqb got (registry_answer (split_args gs rs) hs)
     end.
