(* Correspondence glue for C03: on every generated configuration the token-level
   signature of the requested node is computed by the model (H := SHA-256, declared
   types read off the real Argument objects) and the decidable domain predicate
   wf_sigb is evaluated: in-domain cases must be well formed (so that the
   injectivity theorems apply to them), the collision families must not be.       *)
From Coq Require Import ZArith NArith List Bool.
From XV Require Import core.Value core.Sha256 model.Hash model.Ser model.Deep proofs.Deep_lemmas.
Import ListNotations.

Record scase := {
  s_classes : classes;
  s_heap : heap;
  s_types : list (list (bytes * sty));   (* per class: declared type of each argument *)
  s_node : nat;
  s_expect_wf : bool }.

Definition ty_of (l : list (bytes * sty)) (k : bytes) : sty :=
  match assoc k l with Some t => t | None => TObj end.

Definition sig_of (c : scase) : res (ssig * nat) :=
  match nth_error (s_heap c) (s_node c) with
  | Some x => tok_node sha256 (s_classes c) (s_heap c) (fun _ => None)
                (ty_of (nth (n_cls x) (s_types c) [])) (hash_fuel (s_heap c)) [] (s_node c)
  | None => Err EBadRef
  end.

(* the non-strict predicate: an identifier starting with the cycle byte is tolerated *)
Definition check_scase (c : scase) : bool :=
  match sig_of c with
  | Ok (s, _) => Bool.eqb (wf_sigb false s) (s_expect_wf c)
                 && bytes_eqb (sha256 (enc_sig s))
                      (match hnode sha256 (s_classes c) (s_heap c) (fun _ => None) (hash_fuel (s_heap c)) [] (s_node c)
                       with Ok (d, _) => d | Err _ => [] end)
  | Err _ => negb (s_expect_wf c)
  end.

(* ---- the deep signature (nested configurations unfolded): the hypotheses of C03_deep_injective,
   evaluated on the generated configuration: well formed at every depth, and its identifier is the
   implementation-validated identifier of the node                                               *)
Definition cty_of (c : scase) (tid k : bytes) : sty :=
  (* two versions of a class may share a type identifier (a class extended with defaulted parameters):
     the declared type of k is taken from the first class with that identifier that declares k        *)
  match find (fun p : class * list (bytes * sty) =>
                bytes_eqb (c_tid (fst p)) tid && match assoc k (snd p) with Some _ => true | None => false end)
             (combine (s_classes c) (s_types c)) with
  | Some p => ty_of (snd p) k
  | None => TObj
  end.

Definition deep_of (c : scase) : res (dval * nat) :=
  dnode (s_classes c) (s_heap c) (cty_of c) (hash_fuel (s_heap c)) [] (s_node c).

Definition check_deep (c : scase) : bool :=
  match deep_of c with
  | Ok (t, _) => Bool.eqb (wfdb sha256 (cty_of c) false t) (s_expect_wf c)
                 && bytes_eqb (node_id sha256 t)
                      (match hnode sha256 (s_classes c) (s_heap c) (fun _ => None) (hash_fuel (s_heap c)) [] (s_node c)
                       with Ok (d, _) => d | Err _ => [] end)
  | Err _ => negb (s_expect_wf c)
  end.
