(* Correspondence glue for C08 and C09: replays a schedule recorded by harness/tokctl.py on the
   real CounterToken / ProcessCounterToken objects through model/TokenFS.v and compares, after
   every step, the observables (token files, Token.available, cache keys, observer alive,
   pending events, pending watcher threads, dependency status of waiting jobs).          *)
From Coq Require Import ZArith List Bool Arith.
From XV Require Import model.TokenFS.
Import ListNotations.
Open Scope Z_scope.

(* o_wat: watcher threads still before their test; o_arm: pinned watcher threads past their test,
   about to delete by name (always empty with the repaired watcher) *)
Record pobs := mkPO { o_avail : Z; o_cache : list (nat * Z); o_obs : bool; o_evq : list event; o_wat : list nat; o_arm : list nat }.
(* o_disk: (name, count) with -1 for an empty file; o_jobs: (phase code, status if compared, orphan,
   pid file exists) *)
Record sobs := mkSO { o_disk : list (nat * Z); o_procs : list (option pobs); o_jobs : list (nat * option bool * bool * bool) }.

Fixpoint assoc (k : nat) (l : list (nat * Z)) : option Z :=
  match l with [] => None | (k', v) :: l' => if Nat.eqb k k' then Some v else assoc k l' end.
Definition oz_eqb (a b : option Z) : bool :=
  match a, b with None, None => true | Some x, Some y => x =? y | _, _ => false end.
Definition event_eqb (a b : event) : bool :=
  match a, b with
  | ECreated x, ECreated y | EModified x, EModified y | EDeleted x, EDeleted y => Nat.eqb x y
  | _, _ => false
  end.
Fixpoint list_eqb {A} (e : A -> A -> bool) (a b : list A) : bool :=
  match a, b with [] , [] => true | x :: a', y :: b' => e x y && list_eqb e a' b' | _, _ => false end.
Fixpoint occ (k : nat) (l : list nat) : nat :=
  match l with [] => O | x :: l' => if Nat.eqb x k then S (occ k l') else occ k l' end.
Definition phase_code (ph : phase) : nat :=
  match ph with Idle => 0 | Creating => 1 | Holding => 2 | Running => 3 | Ended => 4 | Done => 5 end%nat.
Definition result_eqb (a b : result) : bool :=
  match a, b with ROk, ROk | RLockError, RLockError | RRaised, RRaised => true | _, _ => false end.

Definition disk_ok (n : nat) (s : state) (o : sobs) : bool :=
  forallb (fun k => oz_eqb (match s_disk s k with Absent => None | Empty => Some (-1) | Written c => Some c end)
                           (assoc k (o_disk o))) (seq 0 n)
  && (length (o_disk o) <=? n)%nat.

Definition proc_ok (n : nat) (pr : proc) (o : option pobs) : bool :=
  match o with
  | None => negb (p_alive pr)
  | Some po =>
      p_alive pr && (p_avail pr =? o_avail po) && Bool.eqb (p_obs pr) (o_obs po)
      && list_eqb event_eqb (p_evq pr) (o_evq po)
      && forallb (fun k => oz_eqb (p_cache pr k) (assoc k (o_cache po))) (seq 0 n)
      && forallb (fun k => Nat.eqb (occ k (p_wat pr)) (occ k (o_wat po))) (seq 0 n)
      && forallb (fun k => Nat.eqb (occ (n + k)%nat (p_wat pr)) (occ k (o_arm po))) (seq 0 n)
      && Nat.eqb (length (p_wat pr)) (length (o_wat po) + length (o_arm po))
  end.

Fixpoint procs_ok (n : nat) (s : state) (p : nat) (l : list (option pobs)) : bool :=
  match l with [] => true | o :: l' => proc_ok n (s_procs s p) o && procs_ok n s (S p) l' end.

Fixpoint jobs_ok (s : state) (j : nat) (l : list (nat * option bool * bool * bool)) : bool :=
  match l with
  | [] => true
  | (code, st, orph, pid) :: l' =>
      let js := s_jobs s j in
      Nat.eqb (phase_code (j_ph js)) code && Bool.eqb (j_orph js) orph && Bool.eqb (j_pid js) pid
      && match st with None => true | Some b => Bool.eqb (j_ok js) b end
      && jobs_ok s (S j) l'
  end.

Definition obs_ok (n : nat) (s : state) (o : sobs) : bool :=
  disk_ok n s o && procs_ok n s 0 (o_procs o) && jobs_ok s 0 (o_jobs o).

(* index of the first recorded step that is not enabled in the model or after which an
   observable differs                                                                    *)
Fixpoint trace_bad (V : variant) (C : cfg) (s : state) (i : nat) (tr : list (label * result * sobs)) : option nat :=
  match tr with
  | [] => None
  | (l, r, o) :: tr' =>
      match step V C s l with
      | None => Some i
      | Some (s', r') =>
          if result_eqb r r' && obs_ok (c_n C) s' o then trace_bad V C s' (S i) tr' else Some i
      end
  end.

Definition cfg_of (total : Z) (owners : list nat) (cnts : list Z) : cfg :=
  mkCfg total (length owners) (fun j => nth j owners 0%nat) (fun j => nth j cnts 1).

Definition case := (Z * list nat * list Z * list (label * result * sobs))%type.
Definition check_case_v (V : variant) (c : case) : bool :=
  let '(total, owners, cnts, tr) := c in
  match trace_bad V (cfg_of total owners cnts) init 0 tr with None => true | Some _ => false end.
(* the tree under test is compared with the repaired model; check_case_lit compares with the
   literal model of the pinned commit (used to validate that model before the repairs)   *)
Definition check_case (c : case) : bool := check_case_v VF c.
Definition check_case_lit (c : case) : bool := check_case_v VL c.
Definition first_bad_v (V : variant) (c : case) : option nat :=
  let '(total, owners, cnts, tr) := c in trace_bad V (cfg_of total owners cnts) init 0 tr.

(* ---- ProcessCounterToken: recorded acquire/release calls with Token.available afterwards *)
Fixpoint ptrace_ok (n : nat) (cnt : nat -> Z) (t : ptok) (tr : list (plabel * result * Z)) : bool :=
  match tr with
  | [] => true
  | (l, r, av) :: tr' =>
      match pstep n cnt t l with
      | None => false
      | Some (t', r') => result_eqb r r' && (pt_avail t' =? av) && ptrace_ok n cnt t' tr'
      end
  end.
Definition pcase := (Z * list Z * list (plabel * result * Z))%type.
Definition check_pcase (c : pcase) : bool :=
  let '(total, cnts, tr) := c in
  ptrace_ok (length cnts) (fun j => nth j cnts 1) (pinit total) tr.
