(* Correspondence glue for C04, C06 and C07 (trace validation of model/Sched.v):
   the schedule recorded by harness/loopctl.py on the real scheduler is replayed on the model
   through `step_gen` only; every recorded step must be enabled, and after each step (closed
   under the ready callbacks, in queue order as asyncio runs them) the observables must agree:
   every job.state, number of launches, value of job.wait(), unfinishedJobs, token.available,
   status of experiment.wait().                                                            *)
From Coq Require Import ZArith List Bool Arith.
From XV Require Import model.Sched.
Import ListNotations.
Open Scope Z_scope.

Inductive opk := OLockIn | OLockOut | OProc | ODoneH | OAdopt.
Inductive action := ASubmit (j : nat) | ADeliver (ops : list (nat * opk)) | AWait.
Inductive wobs := ONone | OBlocked | OReturned | ORaised.

Record jobs_obs := { o_state : jstate; o_launches : nat; o_result : option jstate }.
Record snap := {
  sn_jobs : list (option jobs_obs);     (* None: not submitted yet *)
  sn_unfinished : Z;
  sn_avail : list nat;
  sn_wait : wobs
}.
(* c_refused: the submissions that Scheduler.submit refused with ValueError; for those jobs j_deps holds
   the requests of the workload description (the Job object was not kept) *)
Record case := { c_w : workload; c_fx : fixes; c_trace : list (action * snap); c_refused : list nat }.

Definition op_matches (o : opk) (p : pcT) : bool :=
  match o, p with
  | OLockIn, PExt ALockIn | OLockOut, PExt ALockOutAbort | OLockOut, PExt ALockOutRun
  | OProc, PExt AProc | ODoneH, PExt ADoneH | OAdopt, PExt AAdopt => true
  | _, _ => false
  end.

Fixpoint drain (W : workload) (fx : fixes) (fuel : nat) (s : state) : state :=
  match fuel with
  | O => s
  | S f => match step_gen W fx s (LRun 0) with Some s' => drain W fx f s' | None => s end
  end.

Fixpoint deliver_all (W : workload) (fx : fixes) (s : state) (ops : list (nat * opk)) : option state :=
  match ops with
  | [] => Some s
  | (j, o) :: r =>
      if op_matches o (pc (jobs s j))
      then match step_gen W fx s (LDeliver j) with Some s' => deliver_all W fx s' r | None => None end
      else None
  end.

Definition do_action (W : workload) (fx : fixes) (s : state) (a : action) : option state :=
  match a with
  | ASubmit j => step_gen W fx s (LSubmit j)
  | ADeliver ops => deliver_all W fx s ops
  | AWait => step_gen W fx s LWait
  end.

Definition opt_jstate_eqb (a b : option jstate) : bool :=
  match a, b with None, None => true | Some x, Some y => jstate_eqb x y | _, _ => false end.

Definition job_agrees (s : state) (j : nat) (o : option jobs_obs) : bool :=
  let r := jobs s j in
  match o with
  | None => match pc r with PNot => true | _ => false end
  | Some b =>
      jstate_eqb (st r) (o_state b) && Nat.eqb (launches r) (o_launches b)
      && opt_jstate_eqb (match pc r with PReturned x => Some x | _ => None end) (o_result b)
      && negb (match pc r with PNot => true | _ => false end)
  end.

Fixpoint jobs_agree (s : state) (j : nat) (l : list (option jobs_obs)) : bool :=
  match l with [] => true | o :: l' => job_agrees s j o && jobs_agree s (S j) l' end.

Fixpoint avail_agree (s : state) (t : nat) (l : list nat) : bool :=
  match l with [] => true | a :: l' => Nat.eqb (avail s t) a && avail_agree s (S t) l' end.

Definition wait_agrees (w : waitst) (o : wobs) : bool :=
  match w, o with
  | WNone, ONone | WBlocked, OBlocked | WReturned, OReturned | WRaised, ORaised => true
  | _, _ => false
  end.

Definition snap_agrees (s : state) (o : snap) : bool :=
  jobs_agree s 0 (sn_jobs o) && (unfinished s =? sn_unfinished o) && avail_agree s 0 (sn_avail o)
  && wait_agrees (wst s) (sn_wait o) && match queue s with [] => true | _ => false end.

(* index of the first recorded step that is not enabled or after which the observables differ *)
Fixpoint replay (W : workload) (fx : fixes) (s : state) (tr : list (action * snap)) (i : nat) : option nat :=
  match tr with
  | [] => None
  | (a, o) :: r =>
      match do_action W fx s a with
      | None => Some i
      | Some s1 => let s2 := drain W fx 400 s1 in
                   if snap_agrees s2 o then replay W fx s2 r (S i) else Some i
      end
  end.

Definition first_bad (c : case) : option nat := replay (c_w c) (c_fx c) (init (c_w c)) (c_trace c) 0.
Definition check_case (c : case) : bool :=
  wf (c_w c) && match first_bad c with None => true | Some _ => false end
  (* exactly the jobs that do not fit are refused: the others were accepted by the guard of LSubmit
     during the replay, the refused ones must fail `fits` *)
  && forallb (fun j => negb (fits (c_w c) j)) (c_refused c).

(* debugging aid: the model's observables after each recorded step *)
Definition obs_of (W : workload) (s : state) :=
  (map (fun j => (st (jobs s j), launches (jobs s j), pc (jobs s j), uns (jobs s j))) (seq 0 (njobs W)),
   unfinished s, map (avail s) (seq 0 (length (w_tokens W))), wst s, queue s).
Fixpoint replay_obs (W : workload) (fx : fixes) (s : state) (tr : list (action * snap)) :=
  match tr with
  | [] => []
  | (a, o) :: r =>
      match do_action W fx s a with
      | None => []
      | Some s1 => let s2 := drain W fx 400 s1 in obs_of W s2 :: replay_obs W fx s2 r
      end
  end.
