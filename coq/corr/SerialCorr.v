(* Correspondence glue for C12 (property C12): the definitions written by the real __get_objects__ and the
   graph rebuilt by the real load_objects, against model/Serial.v.                       *)
From Coq Require Import ZArith NArith List Bool.
From XV Require Import core.Value model.Hash model.Serial corr.SealCorr.
Import ListNotations.

Definition fields_eqb (a b : list (bytes * value)) : bool :=
  list_eqb (fun p q : bytes * value => bytes_eqb (fst p) (fst q) && value_eqb (snd p) (snd q)) a b.

(* same association (names distinct): order of the stored values does not matter *)
Definition fields_same (a b : list (bytes * value)) : bool :=
  Nat.eqb (length a) (length b) &&
  forallb (fun p : bytes * value => match assoc (fst p) b with Some v => value_eqb (snd p) v | None => false end) a.

Definition def_eqb (a b : def) : bool :=
  Nat.eqb (d_id a) (d_id b) && Nat.eqb (d_cls a) (d_cls b) && fields_eqb (d_fields a) (d_fields b)
  && list_eqb Nat.eqb (d_pre a) (d_pre b) && list_eqb Nat.eqb (d_init a) (d_init b)
  && opt_eqb Bool.eqb (d_meta a) (d_meta b) && opt_eqb Nat.eqb (d_task a) (d_task b).

Definition node_same (a b : node) : bool :=
  Nat.eqb (n_cls a) (n_cls b) && fields_same (n_fields a) (n_fields b)
  && opt_eqb Bool.eqb (n_meta a) (n_meta b) && opt_eqb Nat.eqb (n_task a) (n_task b)
  && list_eqb Nat.eqb (n_pre a) (n_pre b) && list_eqb Nat.eqb (n_init a) (n_init b).

Record ccase := {
  cc_classes : classes;
  cc_heap : heap;
  cc_root : nat;
  cc_defs : list def;                  (* what __get_objects__ wrote, over heap indices *)
  cc_reloaded : list (nat * node) }.   (* what load_objects rebuilt, aligned on heap indices *)

Definition check_ccase (fixmeta fixinit : bool) (c : ccase) : bool :=
  let fuel := 2 * hash_fuel (cc_heap c) + 16 in
  list_eqb def_eqb (save (cc_classes c) fixmeta (cc_heap c) fuel (cc_root c)) (cc_defs c)
  && match reload (cc_classes c) fixmeta fixinit (cc_heap c) fuel (cc_root c) with
     | Some h' => forallb (fun p : nat * node => match nth_error h' (fst p) with
                                                 | Some x => node_same x (snd p)
                                                 | None => false
                                                 end) (cc_reloaded c)
     | None => false
     end.

(* the lightweight tasks the job process of the root executes, in order (heap indices) *)
Definition plan_ccase (fixmeta : bool) (c : ccase) : list nat :=
  let fuel := 2 * hash_fuel (cc_heap c) + 16 in
  exec_plan (save (cc_classes c) fixmeta (cc_heap c) fuel (cc_root c)).
