(* Correspondence glue for C20 (workspace repair): replays, on the model of
   model/Deprecate.v, the sequence of fix_deprecated calls that harness/drive_c20.py
   performed with the real code on a real jobs/ tree, and compares the tree observed
   after every call with the model's.                                                *)
From Coq Require Import ZArith List Bool.
From XV Require Import model.Deprecate.
Import ListNotations.
Open Scope Z_scope.

(* what the harness sees of an entry of jobs/<type>/<id> *)
Inductive oentry :=
| ODir (mark : Z) (params : bool) (done : list Z)     (* payload marker, params.json?, N with N.done *)
| OLink (t : key).
Definition otree := list (key * oentry).

(* one call fix_deprecated(path, fix, cleanup): the entries each glob() loop yielded, in
   order (one loop: o_ord1 = []), and the tree seen afterwards                          *)
(* o_crash: the call was interrupted (a modification of the workspace failed: injected by the driver); the orders are
   then those of the entries examined until then, the last one being the entry in progress                     *)
Record opobs := { o_fix : bool; o_cleanup : bool; o_crash : bool; o_ord1 : list key; o_ord2 : list key; o_after : otree }.

Definition subsetZ (a b : list Z) : bool := forallb (fun x => memZ x b) a.
Definition sameset (a b : list Z) : bool := subsetZ a b && subsetZ b a.

Fixpoint olookup (k : key) (t : otree) : option oentry :=
  match t with [] => None | (k', e) :: t' => if key_eqb k' k then Some e else olookup k t' end.

Definition entry_agrees (m : option entry) (o : option oentry) : bool :=
  match m, o with
  | None, None => true
  | Some (Dir d), Some (ODir mk p dn) => (d_mark d =? mk) && Bool.eqb (d_params d) p && sameset (d_done d) dn
  | Some (Link t), Some (OLink t') => key_eqb t t'
  | _, _ => false
  end.

Definition tree_agrees (w : ws) (t : otree) : bool :=
  forallb (fun k => entry_agrees (lookup k w) (olookup k t)) (map fst w ++ map fst t).

Definition memk (k : key) (l : list key) : bool := existsb (key_eqb k) l.

(* every directory with a params.json must have been examined by the main loop
   (a directory is always yielded: nothing moves it before it is visited)          *)
Definition covered (w : ws) (o : list key) : bool :=
  forallb (fun p => match snd p with
                    | Dir d => negb (d_params d) || memk (fst p) o
                    | Link _ => true end) w.

(* an interrupted call: the tree observed afterwards is one of the states the model says an interruption can leave
   (model/Deprecate.v `interrupted`; a call without --fix modifies nothing), and the history goes on from that state *)
Definition after_crash (op : opobs) (w : ws) : option ws :=
  find (fun w' => tree_agrees w' (o_after op))
       (if o_fix op then interrupted (o_cleanup op) (o_ord1 op) (o_ord2 op) w else [w]).

Fixpoint replay (w : ws) (ops : list opobs) : bool :=
  match ops with
  | [] => true
  | op :: ops' =>
      if o_crash op then
        match after_crash op w with Some w' => replay w' ops' | None => false end
      else
        let w' := fix_ws (o_fix op) (o_cleanup op) (o_ord1 op) (o_ord2 op) w in
        covered w (o_ord2 op) && tree_agrees w' (o_after op) && replay w' ops'
  end.

(* the initial tree is given with the recomputed identities (d_recomp) the generator
   expects: the identity of the same graph written with the replacement classes     *)
Definition check_case (c : ws * list opobs) : bool := replay (fst c) (snd c).

(* same, against the literal model of the pinned commit (diagnostic only) *)
Fixpoint replay_prefix (w : ws) (ops : list opobs) : bool :=
  match ops with
  | [] => true
  | op :: ops' =>
      let w' := fix_ws_prefix (o_fix op) (o_cleanup op) (o_ord1 op) (o_ord2 op) w in
      tree_agrees w' (o_after op) && replay_prefix w' ops'
  end.
Definition check_case_prefix (c : ws * list opobs) : bool := replay_prefix (fst c) (snd c).

(* ---- the step that produces the recomputed identity (C20, loader half): the definitions a real
   submit wrote to params.json, loaded by the model's loader (model/Serial.v) with the class table
   reflected from the real classes after @deprecate, identified by the model (model/Hash.v) with
   H := SHA-256 - against what the real load_job + identifier answered for that file, and against the
   identity of the same graph written with the replacement classes (the d_recomp given above).     *)
From XV Require Import core.Value core.Sha256 model.Hash model.Serial.

Record lobs := {
  l_classes : classes;                 (* the classes as they are now (reflection of the real ObjectTypes) *)
  l_heap : heap;                       (* the submitted graph (index space of the definitions) *)
  l_defs : list def;                   (* "objects" of params.json, over heap indices *)
  l_root : nat;
  l_real : option (bytes * bytes);     (* (type identifier, identifier) answered by the real loader; None: it failed *)
  l_repl : bytes * bytes }.            (* identity of the replacement graph (real code, no loading involved) *)

Definition pair_eqb (a b : bytes * bytes) : bool := bytes_eqb (fst a) (fst b) && bytes_eqb (snd a) (snd b).

Definition load_agrees (fixmeta : bool) (l : lobs) : bool :=
  let m := recompute sha256 (l_classes l) fixmeta (2 * hash_fuel (l_heap l) + 16) (l_heap l) (l_defs l) (l_root l) in
  match m, l_real l with
  | Some a, Some b => pair_eqb a b
  | None, None => true
  | _, _ => false
  end.

Definition check_load (l : lobs) : bool :=
  load_agrees true l &&
  match recompute sha256 (l_classes l) true (2 * hash_fuel (l_heap l) + 16) (l_heap l) (l_defs l) (l_root l) with
  | Some a => pair_eqb a (l_repl l)
  | None => true
  end.

(* diagnostic only: does the real answer match a loader that restores only a truthy meta flag? *)
Definition check_load_truthy (l : lobs) : bool := load_agrees false l.

(* ---- what @deprecate does to the class table (C20, identifier half): the model's `deprecate`, applied to the table
   reflected from the real classes BEFORE @deprecate in the order python performs the deprecations, must give the table
   reflected from the real classes AFTER (type identifiers and declared arguments)                                   *)
From XV Require Import corr.SealCorr.

Definition arg_eqb (a b : argdecl) : bool :=
  bytes_eqb (a_name a) (a_name b) && Bool.eqb (a_ignored a) (a_ignored b) && Bool.eqb (a_gen a) (a_gen b)
  && Bool.eqb (a_const a) (a_const b) && Bool.eqb (a_required a) (a_required b)
  && opt_eqb value_eqb (a_default a) (a_default b).
Definition class_eqb (a b : class) : bool := bytes_eqb (c_tid a) (c_tid b) && list_eqb arg_eqb (c_args a) (c_args b).

Definition check_deprecate (c : classes * list (nat * nat) * classes) : bool :=
  list_eqb class_eqb (deprecate_all (fst (fst c)) (snd (fst c))) (snd c).
