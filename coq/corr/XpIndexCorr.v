(* Correspondence glue for C16: replays, on model/XpIndex.v, the schedule recorded by
   harness/drive_c16.py on the real `experiment` blocks and compares the observables
   (links under xp/<name>/jobs and jobs.bak, output of the real `orphans` command).   *)
From Coq Require Import ZArith List Bool.
From XV Require Import model.XpIndex.
Import ListNotations.
Open Scope Z_scope.

Record obs := {
  o_jobs : list link;                      (* (name, target) of every symlink jobs/*/*      *)
  o_bak : option (list link);              (* same for jobs.bak, None = no such directory   *)
  o_orph : option (list jobid * Z)         (* orphans printed, "<n> jobs are not orphans"; None = not run *)
}.

Inductive item :=
| Ev (e : event)          (* the implementation did this: must be enabled in the model *)
| Blocked (e : event)     (* the implementation was observed not to do this: must be disabled *)
| Obs (o : obs).          (* snapshot of the implementation: must equal the model's state *)

Definition link_eqb (a b : link) : bool := (fst a =? fst b) && (snd a =? snd b).
Definition mem_link (x : link) (l : list link) : bool := existsb (link_eqb x) l.
Definition same_links (a b : list link) : bool :=
  forallb (fun x => mem_link x b) a && forallb (fun x => mem_link x a) b && Nat.eqb (length a) (length b).
Definition same_ids (a b : list jobid) : bool :=
  forallb (fun x => memz x b) a && forallb (fun x => memz x a) b && Nat.eqb (length a) (length b).

Definition obs_eqb (s : st) (o : obs) : bool :=
  same_links (jobs s) (o_jobs o)
  && match bak s, o_bak o with
     | None, None => true
     | Some a, Some b => same_links a b
     | _, _ => false
     end
  && match o_orph o with
     | None => true
     | Some (l, n) => same_ids (orphans s) l && (not_orphans_count s =? n)
     end.

Fixpoint replay (s : st) (its : list item) : bool :=
  match its with
  | [] => true
  | Ev e :: r => match step s e with Some s' => replay s' r | None => false end
  | Blocked e :: r => match step s e with None => replay s r | Some _ => false end
  | Obs o :: r => obs_eqb s o && replay s r
  end.

(* index of the first item the model disagrees with (diagnostics only) *)
Fixpoint first_bad (s : st) (its : list item) (i : nat) : option nat :=
  match its with
  | [] => None
  | Ev e :: r => match step s e with Some s' => first_bad s' r (S i) | None => Some i end
  | Blocked e :: r => match step s e with None => first_bad s r (S i) | Some _ => Some i end
  | Obs o :: r => if obs_eqb s o then first_bad s r (S i) else Some i
  end.

Definition check_case (its : list item) : bool := replay init its.

(* the same against the repaired order of __exit__ (model step_late: wait() first, rmtree after), used when
   the implementation is observed to still have its backup at the time wait() is called (fixes/C16-1.diff) *)
Fixpoint replay_late (s : st) (its : list item) : bool :=
  match its with
  | [] => true
  | Ev e :: r => match step_late s e with Some s' => replay_late s' r | None => false end
  | Blocked e :: r => match step_late s e with None => replay_late s r | Some _ => false end
  | Obs o :: r => obs_eqb s o && replay_late s r
  end.
Definition check_case_late (its : list item) : bool := replay_late init its.
