(* Correspondence glue for C19: compares the model's answers with what
   harness/drive_c19.py recorded from the real createFilter / `jobs clean` /
   `orphans` on the same filter text and the same on-disk workspace.        *)
From Coq Require Import NArith List Bool.
From XV Require Import model.Filter model.Clean model.FilterParse.
Import ListNotations.
Open Scope N_scope.

Definition obool_eqb (a b : option bool) : bool :=
  match a, b with
  | None, None => true
  | Some x, Some y => Bool.eqb x y
  | _, _ => false
  end.

Definition ostate_eqb (a b : option jstate) : bool :=
  match a, b with
  | None, None => true
  | Some Done, Some Done | Some Error, Some Error | Some Running, Some Running => true
  | _, _ => false
  end.

Fixpoint list_eqb {A} (e : A -> A -> bool) (a b : list A) : bool :=
  match a, b with
  | [], [] => true
  | x :: a', y :: b' => e x y && list_eqb e a' b'
  | _, _ => false
  end.

(* same set of directories (both lists are duplicate-free by construction) *)
Definition same_keys (a b : list key) : bool :=
  forallb (fun k => mem_key k b) a && forallb (fun k => mem_key k a) b
  && Nat.eqb (length a) (length b).

Definition atoms_of (x : expr) : list atom := x_first x :: map snd (x_rest x).

Inductive ccase :=
  (* filter text evaluated on the JobInformation of one job directory:
     JobInformation.state, whole expression, then every atom on its own;
     None = raised                                                          *)
  | CFilter (x : expr) (j : job) (st : option jstate) (whole : option bool) (atoms : list (option bool))
  (* `jobs clean` on a workspace: raised?, directories that disappeared *)
  | CClean (w : ws) (o : opts) (raised : bool) (removed : list key)
  (* `orphans [--clean] [--ignore-old]`: directories that disappeared *)
  | COrphans (w : ws) (do_clean ignore_old : bool) (removed : list key)
  (* the same on a workspace where some entries of jobs/<task>/ are links to job directories:
     raised?, real directories that disappeared *)
  | COrphansL (w : ws) (links : list lnk) (do_clean ignore_old : bool) (raised : bool) (removed : list key)
  (* a text handed to createFilter (in the grammar or near it): accepted?, then its answer on the job
     (None = evaluating raised); table = the regular expressions whose source may occur in the text *)
  | CParse (text : str) (table : list (str * pattern)) (j : job) (accepted : bool) (value : option bool)
  (* `jobs clean --filter text` *)
  | CCleanText (w : ws) (experiment text : str) (table : list (str * pattern)) (perform raised : bool)
               (removed : list key).

Fixpoint lookup_re (table : list (str * pattern)) (src : str) : option pattern :=
  match table with
  | [] => None
  | (s, p) :: t => if str_eqb s src then Some p else lookup_re t src
  end.

Definition check_case (c : ccase) : bool :=
  match c with
  | CFilter x j st whole atoms =>
      let e := env_of state j in
      ostate_eqb st (state j)
      && obool_eqb whole (Some (eval x e))
      && list_eqb obool_eqb atoms (map (fun a => Some (eval_atom a e)) (atoms_of x))
  | CClean w o raised removed =>
      Bool.eqb raised (clean_raises o) && same_keys removed (clean w o)
  | COrphans w c io removed => same_keys removed (orphans_clean w c io)
  | COrphansL w links c io raised removed =>
      negb raised && same_keys removed (orphans_clean_l w links c io)
  | CParse text table j accepted value =>
      match parse_filter text with
      | None => negb accepted
      | Some r => accepted && obool_eqb value (reval (lookup_re table) r (env_of state j))
      end
  | CCleanText w xp text table perform raised removed =>
      match parse_filter text with
      | None => raised && isnil removed        (* rejected: the command fails before it touches anything *)
      | Some r =>
          match expr_of (lookup_re table) r with
          | Some x => negb raised
                      && same_keys removed (clean w {| o_experiment := xp; o_filter := Some x; o_perform := perform |})
          | None => false
          end
      end
  end.
