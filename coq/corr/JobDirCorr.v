(* Correspondence glue for C05 and C11 (model/JobDir.v against the real scheduler / job runner).

   check_reg  : a submission history run on the real scheduler (returned object, whether a job
                was scheduled) against run_reg.                                      (C05 a)
   check_case : trace validation.  The harness records, from real scheduler processes and real
                job processes sharing one workspace, (i) the body begin/end events of the job
                processes and the deaths of schedulers, in the order of the shared log (exact
                events), (ii) every effect of Scheduler.aio_submit / aio_start /
                CommandLineJob.aio_run with the interval [reached, completed] in which it took
                place (WF, the interval counted in exact events), and proposes a linearisation in
                which the unobserved effects of the job runner (WH) are filled in.  The model
                re-executes the proposal: every move must be enabled, every WF inside its
                interval, every WH really an unobservable job-runner effect, and the final
                directory contents / scheduler states must be those of the real run.
                                                                         (C05 b, c; C11)      *)
From Coq Require Import List Bool Arith ZArith.
From XV Require Import model.JobDir.
Import ListNotations.

Fixpoint list_eqb {A} (e : A -> A -> bool) (a b : list A) : bool :=
  match a, b with
  | [], [] => true
  | x :: a', y :: b' => e x y && list_eqb e a' b'
  | _, _ => false
  end.

(* ---- registry *)
Definition sub_eqb (a b : nat * bool) : bool := Nat.eqb (fst a) (fst b) && Bool.eqb (snd a) (snd b).
Definition check_reg (c : list rev * list (nat * bool)) : bool :=
  list_eqb sub_eqb (snd (run_reg (fst c) reg0)) (snd c).

(* ---- traces *)
Inductive witem := WX (m : gmove) | WF (m : gmove) (lo hi : nat) | WH (m : gmove).

Definition hidden_label (l : label) : bool :=
  match l with
  | LExec _ | LPLock _ | LPTest _ | LRmFailed _ | LTouch _ _ | LWriteFailed _ | LRmPid _ | LPUnlock _ => true
  | _ => false
  end.
Definition exact_move (m : gmove) : bool :=
  match m with
  | GOn _ (LBegin _) | GOn _ (LEnd _ _) => true
  | _ => false
  end.
Definition fuzzy_move (m : gmove) : bool :=
  match m with
  | GOn _ l => match lbl_sched l with Some _ => negb (match l with LCrash _ => true | _ => false end) | None => false end
  | GDie _ => true      (* a death is known up to the moment the next run of that slot starts *)
  end.
Definition hidden_move (m : gmove) : bool := match m with GOn _ l => hidden_label l | GDie _ => false end.

Fixpoint assoc (k : nat) (l : list (nat * list nat)) : list nat :=
  match l with [] => [] | (k', v) :: l' => if Nat.eqb k k' then v else assoc k l' end.

(* k = number of exact events executed so far *)
Fixpoint wrun (deps : nat -> list nat) (w : list witem) (k : nat) (g : gstate) : option (gstate * nat) :=
  match w with
  | [] => Some (g, k)
  | WX m :: w' =>
      if exact_move m then match gexec deps m g with Some g1 => wrun deps w' (S k) g1 | None => None end else None
  | WF m lo hi :: w' =>
      if fuzzy_move m && (lo <=? k) && (k <=? hi)
      then match gexec deps m g with Some g1 => wrun deps w' k g1 | None => None end else None
  | WH m :: w' =>
      if hidden_move m then match gexec deps m g with Some g1 => wrun deps w' k g1 | None => None end else None
  end.

Record jcase := {
  c_deps : list (nat * list nat);
  c_init : list (bool * bool);            (* per job: done, failed markers before the scenario *)
  c_w : list witem;
  c_nexact : nat;
  (* what the real run left behind *)
  c_done : list bool; c_failed : list bool;
  c_pid : list nat;                       (* pid file: 0 absent, 1 present without content, 2 names a process *)
  c_runs : list nat;                      (* body executions per job, counted in the task-side log *)
  c_views : list (nat * nat * view)       (* (scheduler slot, job, final state) of the runs that ended by themselves *)
}.

Definition ginit (init : list (bool * bool)) : gstate :=
  {| jd := fun j => match nth_error init j with Some (d, f) => mk_initial d f SEmpty | None => fresh end |}.

Definition all_dead (st : jobdir) : bool := forallb (fun p => negb (alive (procs st p))) (seq 0 (nprocs st)).
Definition pid_code (f : pidfile) : nat := match f with PFNone => 0 | PFEmpty => 1 | PFSome _ => 2 end.
Definition view_eqb (a b : view) : bool := match a, b with VDone, VDone | VError, VError => true | _, _ => false end.

Definition check_case (c : jcase) : bool :=
  let deps := fun j => assoc j (c_deps c) in
  match wrun deps (c_w c) 0 (ginit (c_init c)) with
  | None => false
  | Some (g, k) =>
      Nat.eqb k (c_nexact c) &&
      let js := seq 0 (length (c_init c)) in
      list_eqb Bool.eqb (map (fun j => done (jd g j)) js) (c_done c) &&
      list_eqb Bool.eqb (map (fun j => failed (jd g j)) js) (c_failed c) &&
      list_eqb Nat.eqb (map (fun j => pid_code (pidf (jd g j))) js) (c_pid c) &&
      list_eqb Nat.eqb (map (fun j => body_runs (jd g j)) js) (c_runs c) &&
      forallb (fun j => all_dead (jd g j)) js &&
      forallb (fun j => body_active (jd g j) =? 0) js &&
      forallb (fun x => match x with
                        | (s, j, v) => match scheds (jd g j) s with SFinal v' => view_eqb v v' | _ => false end
                        end) (c_views c)
  end.
