(* Correspondence glue for C04 (dependency collection): the object graph read off the real
   configuration objects right before submit() is given to model/Deps.v; the job dependencies the
   real submit() registered (as a set of job indices) must be the ones `collect` computes.      *)
From Coq Require Import List Bool Arith.
From XV Require Import model.Deps.
Import ListNotations.

Record dcase := { d_heap : heap; d_root : nat; d_explicit : list nat; d_observed : list nat }.

Definition subset (a b : list nat) : bool := forallb (fun x => mem x b) a.

Definition check_deps (c : dcase) : bool :=
  match collect (d_heap c) 64 (d_root c) (d_explicit c) with
  | Some ds => subset ds (d_observed c) && subset (d_observed c) ds
  | None => false
  end.
