(* Correspondence glue for C04 (dependency collection): the object graph read off the real
   configuration objects right before submit() is given to model/Deps.v; the job dependencies the
   real submit() registered (as a set of job indices) must be the ones `collect` computes.      *)
From Coq Require Import List Bool Arith.
From XV Require Import model.Deps.
Import ListNotations.

(* d_falsy: the nodes whose object evaluates to False; d_literal: the tree under test still has the literal
   truth-value test of the task mark (read off a directed run), so its walk is the walk on `blind` *)
(* d_copied: the nodes on which copy_dependencies was called (their mark is a copy); d_copyfix: the tree under
   test searches the parameters of such a node (fixes/C04-3.diff, read off a directed run): its walk is the walk
   on `uncopy` *)
Record dcase := { d_heap : heap; d_root : nat; d_explicit : list nat; d_observed : list nat;
                  d_falsy : list nat; d_literal : bool; d_copied : list nat; d_copyfix : bool }.

Definition subset (a b : list nat) : bool := forallb (fun x => mem x b) a.

Definition check_deps (c : dcase) : bool :=
  let h0 := if d_copyfix c then uncopy (d_copied c) (d_heap c) else d_heap c in
  match collect (if d_literal c then blind (fun t => mem t (d_falsy c)) h0 else h0) 64 (d_root c) (d_explicit c) with
  | Some ds => subset ds (d_observed c) && subset (d_observed c) ds
  | None => false
  end.
