(* Correspondence glue for C14 (property C14): replays a history of modification attempts, seals and
   identifier requests on the Seal model (H := SHA-256) and compares the answers and
   the final graph with what the real implementation did.                          *)
From Coq Require Import ZArith NArith List Bool.
From XV Require Import core.Value core.Sha256 model.Hash model.Cache model.Seal model.StateInv.
Import ListNotations.

Fixpoint value_eqb (a b : value) {struct a} : bool :=
  match a, b with
  | VNone, VNone => true
  | VInt x, VInt y => Z.eqb x y
  | VBool x, VBool y => Bool.eqb x y
  | VFloat x, VFloat y => N.eqb x y
  | VStr x, VStr y => bytes_eqb x y
  | VPath x, VPath y => bytes_eqb x y
  | VEnum x, VEnum y => bytes_eqb x y
  | VList x, VList y =>
      (fix go (x y : list value) : bool :=
         match x, y with [], [] => true | u :: x', v :: y' => value_eqb u v && go x' y' | _, _ => false end) x y
  | VDict x, VDict y =>
      (fix go (x : list (bytes * value)) (y : list (bytes * value)) : bool :=
         match x, y with
         | [], [] => true
         | (k, u) :: x', (k', v) :: y' => bytes_eqb k k' && value_eqb u v && go x' y'
         | _, _ => false
         end) x y
  | VRef x, VRef y => Nat.eqb x y
  | _, _ => false
  end.

Fixpoint list_eqb {A} (e : A -> A -> bool) (a b : list A) : bool :=
  match a, b with [], [] => true | x :: a', y :: b' => e x y && list_eqb e a' b' | _, _ => false end.
Fixpoint list_eqb2 {A B} (e : A -> B -> bool) (a : list A) (b : list B) : bool :=
  match a, b with [], [] => true | x :: a', y :: b' => e x y && list_eqb2 e a' b' | _, _ => false end.
Definition opt_eqb {A} (e : A -> A -> bool) (a b : option A) : bool :=
  match a, b with None, None => true | Some x, Some y => e x y | _, _ => false end.

(* values written by generators while sealing (paths inside the job directory, C17) are
   not modelled here: fields of generated arguments are left out of the comparison      *)
Definition nongen (cs : classes) (x : node) : list (bytes * value) :=
  match nth_error cs (n_cls x) with
  | Some c => filter (fun p : bytes * value =>
                negb (existsb (fun a => bytes_eqb (a_name a) (fst p) && a_gen a) (c_args c))) (n_fields x)
  | None => n_fields x
  end.

Definition node_eqb (cs : classes) (a b : node) : bool :=
  Nat.eqb (n_cls a) (n_cls b)
  && list_eqb (fun p q : bytes * value => bytes_eqb (fst p) (fst q) && value_eqb (snd p) (snd q)) (nongen cs a) (nongen cs b)
  && opt_eqb Bool.eqb (n_meta a) (n_meta b) && opt_eqb Nat.eqb (n_task a) (n_task b)
  && list_eqb Nat.eqb (n_pre a) (n_pre b) && list_eqb Nat.eqb (n_init a) (n_init b).

Inductive sexpect := XRejected | XOk | XId (d : bytes) | XFail.

Definition sans_ok (a : sans) (x : sexpect) : bool :=
  match a, x with
  | ARejected, XRejected => true
  | AOk, XOk => true
  | AId d, XId d' => bytes_eqb d d'
  | AFail, XFail => true
  | _, _ => false
  end.

Record kcase := {
  k_classes : classes;
  k_heap : heap;                 (* after sealing, when the history starts *)
  k_cache : cstate;              (* sealed flags and cached identifiers at that moment *)
  k_ops : list sop;
  k_expect : list sexpect;
  k_final : heap;                (* the graph the real objects hold after the history *)
  k_final_cache : cstate }.      (* sealed flags and cached identifiers after the history *)

Definition check_kcase (c : kcase) : bool :=
  let r := srun sha256 (k_classes c) (hash_fuel (k_heap c) + 64) (k_heap c, k_cache c) (k_ops c) in
  list_eqb2 sans_ok (snd r) (k_expect c) && list_eqb (node_eqb (k_classes c)) (fst (fst r)) (k_final c).

(* the hypothesis of C14_coherent_under_edits / C14_sealed_identity_stable, evaluated on the exported state *)
Definition inv_kcase (c : kcase) : bool :=
  ginv_b sha256 (k_classes c) (hash_fuel (k_heap c) + 64) (k_heap c, k_cache c).
Definition diag_kcase (c : kcase) : list nat :=
  ginv_diag sha256 (k_classes c) (hash_fuel (k_heap c) + 64) (k_heap c, k_cache c).
Definition diag_kfinal (c : kcase) : list nat :=
  ginv_diag sha256 (k_classes c) (hash_fuel (k_final c) + 64) (k_final c, k_final_cache c).
