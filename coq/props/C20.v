(* C20 - deprecating a class keeps identifiers and makes old results reachable.
   Statements only; every proof is `exact <lemma>`.                        *)
From Coq Require Import ZArith List Bool Permutation.
From XV Require Import model.Deprecate proofs.Deprecate_lemmas.
Import ListNotations.
Open Scope Z_scope.

Theorem C20_fix_preserves_data : forall fx cl o1 o2 w,
  Permutation (map core (dirs (fix_ws fx cl o1 o2 w))) (map core (dirs w)) /\
  Forall2 (fun d d' => d_mark d = d_mark d' /\ incl (d_done d) (d_done d')) (dirs w) (dirs (fix_ws fx cl o1 o2 w)).
Proof. exact fix_preserves_data. Qed.
Print Assumptions C20_fix_preserves_data.
