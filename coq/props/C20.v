(* C20 - deprecating a class keeps identifiers and makes old results reachable.
   Statements only; every proof is `exact <lemma>`.

   Workspace half (model/Deprecate.v, the repair command `deprecated list --fix [--cleanup]`):
     w            the content of <workdir>/jobs : (type, id) |-> Dir data | Link target
     fix_ws f c o1 o2 w   fix_deprecated(path, fix=f, cleanup=c) as repaired by fixes/C20-1, C20-2;
                          o1, o2 = the order in which the two glob() loops examine the entries
                          (chosen by the file system: every theorem holds for all orders)
     fix_ws_prefix        the same command at the pinned commit, literally
     wf w         no path is listed twice;   active w k d n : k is a directory with a params.json
                  whose recomputed identity n has another identifier than its name.
   The identifier half (deprecated_same_ident, on model/Hash.v) is added at the end of this file. *)
From Coq Require Import ZArith List Bool Permutation.
From XV Require Import model.Deprecate proofs.Deprecate_lemmas.
From XV Require Import core.Value model.Hash model.Edits proofs.Hash_lemmas proofs.Neutral_lemmas.
Import ListNotations.
Open Scope Z_scope.

(* never deletes job data: the directories are the same collection before and after, each with the same
   payload / params.json / recomputed identity, and no .done marker disappears -- for every workspace,
   both modes, with or without --fix, every examination order *)
Theorem C20_fix_preserves_data : forall fx cl o1 o2 w,
  Permutation (map core (dirs (fix_ws fx cl o1 o2 w))) (map core (dirs w)) /\
  Forall2 (fun d d' => d_mark d = d_mark d' /\ incl (d_done d) (d_done d')) (dirs w) (dirs (fix_ws fx cl o1 o2 w)).
Proof. exact fix_preserves_data. Qed.
Print Assumptions C20_fix_preserves_data.

(* ... which also holds for the command of the pinned commit *)
Theorem C20_prefix_preserves_data : forall fx cl o1 o2 w,
  Forall2 (fun d d' => core d = core d' /\ incl (d_done d) (d_done d')) (dirs w) (dirs (fix_ws_prefix fx cl o1 o2 w)).
Proof. exact (run_preserves false). Qed.
Print Assumptions C20_prefix_preserves_data.

(* makes old results reachable: a directory stored under a former identifier, whose new path is free or
   already links to it (a previous repair) and is claimed by no other directory, is afterwards reachable
   under the new path -- through a link to k (always so without --cleanup) or because it was moved --
   and a submit of the replacement finds the old result (its .done marker is visible under the new name) *)
Theorem C20_fix_reaches : forall cl o1 o2 w k d n,
  wf w -> active w k d n -> In k o2 ->
  (lookup n w = None \/ lookup n w = Some (Link k)) ->
  (forall k2 d2, lookup k2 w = Some (Dir d2) -> d_recomp d2 = Some n -> k2 = k) ->
  let w' := fix_ws true cl o1 o2 w in
  exists kf d', resolve w' n = Some (kf, d') /\ core d' = core d /\ incl (d_done d) (d_done d') /\
    (In (k_name k) (d_done d) -> found w' n = true) /\ (cl = false -> kf = k).
Proof. exact fix_reaches. Qed.
Print Assumptions C20_fix_reaches.

(* without --cleanup the new path of every examined stale directory exists afterwards, whatever was there ... *)
Theorem C20_fix_link_total : forall w o1 o2 k d n, wf w -> In k o2 -> active w k d n ->
  exists_ (fix_ws true false o1 o2 w) n = true.
Proof. exact fix_link_total. Qed.
Print Assumptions C20_fix_link_total.

(* ... and whatever a path led to before, it still leads to: a new path occupied by different data is left as
   it is, no link of the user is replaced (only dangling links are) *)
Theorem C20_fix_link_untouched : forall o1 o2 w x kx dx,
  resolve w x = Some (kx, dx) ->
  exists dx', resolve (fix_ws true false o1 o2 w) x = Some (kx, dx') /\ core dx' = core dx /\ incl (d_done dx) (d_done dx').
Proof. exact fix_link_untouched. Qed.
Print Assumptions C20_fix_link_untouched.

(* running the repair again changes nothing (any two examination orders that cover the directories) *)
Theorem C20_fix_idempotent : forall w o1 o2 o1' o2', wf w -> covers w o2 ->
  fix_ws true false o1' o2' (fix_ws true false o1 o2 w) = fix_ws true false o1 o2 w.
Proof. exact fix_idempotent. Qed.
Print Assumptions C20_fix_idempotent.

(* with --cleanup: on workspaces whose links all point directly at job directories (what the repair itself
   creates) and where no directory sits on the new path of another one, a second call changes nothing *)
Theorem C20_fix_idempotent_cleanup : forall w o1 o2 o1' o2',
  wf w -> direct w -> clear w -> (forall k e, lookup k w = Some e -> In k o1) -> covers w o2 ->
  fix_ws true true o1' o2' (fix_ws true true o1 o2 w) = fix_ws true true o1 o2 w.
Proof. exact cleanup_idempotent. Qed.
Print Assumptions C20_fix_idempotent_cleanup.

(* a listing call (no --fix) leaves the workspace as it is, with or without --cleanup *)
Theorem C20_list_only_unchanged : forall cl o1 o2 w, fix_ws false cl o1 o2 w = w.
Proof. exact list_only_unchanged. Qed.
Print Assumptions C20_list_only_unchanged.

(* records of the two defects of the pinned commit (fixes/C20-1.diff, fixes/C20-2.diff) *)
Theorem C20_resubmit_refuted : exists o2 w k d n,
  wf w /\ active w k d n /\ In k o2 /\ lookup n w = None /\
  (forall k2 d2, lookup k2 w = Some (Dir d2) -> d_recomp d2 = Some n -> k2 = k) /\
  In (k_name k) (d_done d) /\
  (forall cl, exists_ (fix_ws_prefix true cl [] o2 w) n = true /\ found (fix_ws_prefix true cl [] o2 w) n = false).
Proof. exact resubmit_refuted. Qed.
Print Assumptions C20_resubmit_refuted.

Theorem C20_cleanup_nofix_refuted : exists o1 o2 w n,
  wf w /\ found w n = true /\ found (fix_ws_prefix false true o1 o2 w) n = false.
Proof. exact cleanup_nofix_refuted. Qed.
Print Assumptions C20_cleanup_nofix_refuted.

(* limit of the --cleanup mode (both versions): without the shape hypotheses a second call may change the tree *)
Theorem C20_cleanup_twice_refuted : exists o w,
  wf w /\ (forall k e, lookup k w = Some e -> In k o) /\
  fix_ws true true o o (fix_ws true true o o w) <> fix_ws true true o o w.
Proof. exact cleanup_twice_refuted. Qed.
Print Assumptions C20_cleanup_twice_refuted.

(* ---- identifier half: `deprecated_same_ident` (model/Hash.v) goes below this line ---- *)

(* A configuration whose class is deprecated carries the type identifier of its replacement and the
   same arguments: moving any node of any graph from one class to another class with the same type
   identifier and the same arguments (in any order) leaves the identifier of EVERY node unchanged -
   wherever the node occurs (nested, in lists and dicts, as producing task), for any hash function
   and cache state                                                                                *)
Theorem C20_deprecated_same_identifier : forall H cs h look n x c c' k',
  nth_error h n = Some x -> nth_error cs (n_cls x) = Some c -> nth_error cs k' = Some c' ->
  same_sig_class c c' ->
  forall fuel m, raw_ident H cs h look fuel m = raw_ident H cs (upd_nth h n (with_cls x k')) look fuel m.
Proof. exact reclass_neutral. Qed.
Print Assumptions C20_deprecated_same_identifier.

(* the same for a whole class table: two tables that give every node the same type identifier and
   the same selected arguments identify every node alike                                          *)
Theorem C20_class_tables_same_identifier : forall H cs cs' h look,
  (forall n x, nth_error h n = Some x ->
     match nth_error cs (n_cls x), nth_error cs' (n_cls x) with
     | Some c, Some c' => c_tid c = c_tid c' /\ sigargs h (n_fields x) (c_args c) = sigargs h (n_fields x) (c_args c')
     | None, None => True
     | _, _ => False
     end) ->
  forall fuel m, raw_ident H cs h look fuel m = raw_ident H cs' h look fuel m.
Proof. exact class_table_neutral. Qed.
Print Assumptions C20_class_tables_same_identifier.

(* ---- the step between the two halves: the identity the repair command recomputes from params.json ---- *)
From XV Require Import model.Seal model.Serial proofs.Serial_lemmas proofs.Walk_reach_lemmas.
Close Scope Z_scope.

(* A graph h (root r) was submitted when the classes were cs0: its params.json holds `save cs0 true h fuel r`.
   The classes are now cs - same declared arguments, other type identifiers (a deprecated class carries the
   identifier of its replacement).  `recompute` = load_job (the loader of the current code: the meta flag is
   restored whatever its value, None / True / an explicit False that forces a Meta member into the
   identifier) followed by the full identifier under cs.  For every graph - flags of the three kinds at any
   position, shared and cyclic configurations, pre-tasks, init tasks -, every hash function and fuel: if
   every reference of the file designates a definition (the real loader raises otherwise), the recomputed
   path is (type identifier of the root's class now, full identifier of the graph under the classes of now):
   the path a submit of the same graph asks for today.  d_recomp of the workspace model is that value.     *)
Theorem C20_repair_recomputes_identity : forall H cs0 cs h fuel r f x c d,
  same_args cs0 cs ->
  wf_heap h -> fields_nodup h -> (forall c, In c cs -> NoDup (map a_name (c_args c))) ->
  (forall n, complete_at cs h n) ->
  resolves (save cs0 true h fuel r) = true ->
  nth_error h r = Some x -> nth_error cs (n_cls x) = Some c ->
  full_pure H cs h f r = Ok d ->
  recompute H cs true f h (save cs0 true h fuel r) r = Some (c_tid c, d).
Proof. exact recompute_is_identity. Qed.
Print Assumptions C20_repair_recomputes_identity.

(* ... and the graph written with the replacement classes has that identity: the FULL identifier (the name of
   the job directory) of every node is unchanged when a node moves to a class with the same type identifier
   and arguments (C20_deprecated_same_identifier is the statement for the raw identifier)                   *)
Theorem C20_deprecated_same_full_identifier : forall H cs h n x c c' k',
  wf_heap h -> nth_error h n = Some x -> nth_error cs (n_cls x) = Some c -> nth_error cs k' = Some c' ->
  same_sig_class c c' ->
  forall fuel m d, (m < length h)%nat ->
    full_pure H cs h fuel m = Ok d -> full_pure H cs (upd_nth h n (with_cls x k')) fuel m = Ok d.
Proof. exact reclass_full. Qed.
Print Assumptions C20_deprecated_same_full_identifier.

(* record of a family of defects: a loader that restores the meta flag only when it is truthy loses an explicit
   False; on OldTask(n=1, aux=setmeta(Aux(x=3), False)) it recomputes another identifier than the loader of the
   current code, hence than a re-submit (rx_H: the byte stream itself stands for its digest)               *)
Theorem C20_truthy_meta_loader_refuted :
  exists a b, recompute rx_H rx_now true 20 rx_heap (save rx_before true rx_heap 20 1) 1 = Some a /\
              recompute rx_H rx_now false 20 rx_heap (save rx_before true rx_heap 20 1) 1 = Some b /\
              snd a <> snd b.
Proof. exact recompute_truthy_refuted. Qed.
Print Assumptions C20_truthy_meta_loader_refuted.

(* ---- what @deprecate does (model/Deprecate.v `deprecate`: the class takes the type identifier of its single parent,
   ObjectType.deprecate core/types.py l.429-441; `deprecate_all`: the deprecations in the order python executes them).
   The hypothesis `same_sig_class` of C20_deprecated_same_(full_)identifier is no longer assumed: it follows.

   cs: the classes as declared (the deprecated class k and its replacement p declare the same parameters, in any order);
   s1: the deprecations performed before `@deprecate class k(p)` (p itself may be among them: a class renamed twice),
   s2: those performed afterwards (of other classes).  For every graph, every node x of class k, wherever it occurs:
   writing the graph with the replacement class p changes the identifier of NO node (any hash function, cache state) *)
Theorem C20_deprecate_same_identifier : forall H cs s1 k p s2 c pc h look n x,
  nth_error cs k = Some c -> nth_error cs p = Some pc -> k <> p ->
  Permutation (c_args c) (c_args pc) -> NoDup (map a_name (c_args c)) ->
  (forall s, In s s2 -> fst s <> k /\ fst s <> p) ->
  nth_error h n = Some x -> n_cls x = k ->
  forall fuel m, raw_ident H (deprecate_all cs (s1 ++ (k, p) :: s2)) h look fuel m
               = raw_ident H (deprecate_all cs (s1 ++ (k, p) :: s2)) (upd_nth h n (with_cls x p)) look fuel m.
Proof. exact deprecate_same_identifier. Qed.
Print Assumptions C20_deprecate_same_identifier.

(* ... nor the full identifier - the name of the job directory - of any node *)
Theorem C20_deprecate_same_full_identifier : forall H cs s1 k p s2 c pc h n x,
  nth_error cs k = Some c -> nth_error cs p = Some pc -> k <> p ->
  Permutation (c_args c) (c_args pc) -> NoDup (map a_name (c_args c)) ->
  (forall s, In s s2 -> fst s <> k /\ fst s <> p) ->
  wf_heap h -> nth_error h n = Some x -> n_cls x = k ->
  forall fuel m d, (m < length h)%nat ->
    full_pure H (deprecate_all cs (s1 ++ (k, p) :: s2)) h fuel m = Ok d ->
    full_pure H (deprecate_all cs (s1 ++ (k, p) :: s2)) (upd_nth h n (with_cls x p)) fuel m = Ok d.
Proof. exact deprecate_same_full_identifier. Qed.
Print Assumptions C20_deprecate_same_full_identifier.

(* ... and the params.json written before the deprecation is the file that would be written now (hypothesis `same_args`
   of C20_repair_recomputes_identity)                                                                             *)
Theorem C20_deprecate_keeps_arguments : forall cs steps, same_args cs (deprecate_all cs steps).
Proof. exact (fun cs steps => deprecate_all_same_args steps cs). Qed.
Print Assumptions C20_deprecate_keeps_arguments.

(* ---- two directories stored under two FORMER identifiers of one configuration (excluded by the hypothesis "claimed
   by no other directory" of C20_fix_reaches).  Link mode: the claimant examined first - no directory examined before
   it recomputes to n - gets the new path, whatever is examined later: the repaired command examines the directories
   holding a result first (fixes/C20-3), so the new identifier leads to a result when there is one                *)
Theorem C20_first_claimant_reaches : forall o1 pr post w k d n,
  wf w -> active w k d n -> lookup n w = None ->
  (forall x dx, In x pr -> lookup x w = Some (Dir dx) -> d_recomp dx <> Some n) ->
  let w' := fix_ws true false o1 (pr ++ k :: post) w in
  exists d', resolve w' n = Some (k, d') /\ core d' = core d /\ incl (d_done d) (d_done d') /\
             (In (k_name k) (d_done d) -> found w' n = true).
Proof. exact first_claimant_reaches. Qed.
Print Assumptions C20_first_claimant_reaches.

(* THE LIMITATION: "every job directory stored under a former identifier" cannot be made reachable when two of them
   hold the same configuration - there is one new path.  k1 never finished, k2 holds a result, both recompute to n
   (free).  In both modes: listed k1 first, n leads to k1 and a re-submit finds no result although one exists; listed
   k2 first, n leads to k2; the other directory is never what n leads to.                                          *)
Theorem C20_two_former_identifiers_refuted :
  wf tc_w /\ active tc_w tc_k1 tc_d1 tc_n /\ active tc_w tc_k2 tc_d2 tc_n /\ lookup tc_n tc_w = None /\
  forall cl,
    option_map (fun r => d_mark (snd r)) (resolve (fix_ws true cl [tc_k1; tc_k2] [tc_k1; tc_k2] tc_w) tc_n) = Some 101%Z /\
    found (fix_ws true cl [tc_k1; tc_k2] [tc_k1; tc_k2] tc_w) tc_n = false /\
    option_map (fun r => d_mark (snd r)) (resolve (fix_ws true cl [tc_k2; tc_k1] [tc_k2; tc_k1] tc_w) tc_n) = Some 102%Z /\
    found (fix_ws true cl [tc_k2; tc_k1] [tc_k2; tc_k1] tc_w) tc_n = true.
Proof. exact two_former_identifiers_refuted. Qed.
Print Assumptions C20_two_former_identifiers_refuted.

(* `--cleanup` moves the directory: the former path is gone (link mode keeps it).  Links towards it from outside
   jobs/ (the experiment indices xp/<name>/jobs/..., read by `orphans`) dangle unless re-pointed (fixes/C20-4).  *)
Theorem C20_cleanup_moves_former_path :
  lookup xk (fix_ws true true [] [xk] xw) = None /\ lookup xn (fix_ws true true [] [xk] xw) <> None /\
  exists d', lookup xk (fix_ws true false [] [xk] xw) = Some (Dir d').
Proof. exact cleanup_moves_former_path. Qed.
Print Assumptions C20_cleanup_moves_former_path.

(* ---- interrupted repairs (model/Deprecate.v `interrupted`: every state a kill / a full device can leave while
   `deprecated list --fix [--cleanup]` runs: the first loop done on a prefix of its entries; the main loop done on a prefix,
   possibly inside the iteration on the next entry - dangling link removed; link created, result files not yet aliased;
   result files aliased, directory not yet moved).  No interruption loses job data ...                                  *)
Open Scope Z_scope.
Theorem C20_interrupted_preserves_data : forall cl o1 o2 w wi,
  In wi (interrupted cl o1 o2 w) ->
  Forall2 (fun d d' => core d = core d' /\ incl (d_done d) (d_done d')) (dirs w) (dirs wi).
Proof. exact interrupted_preserves_data. Qed.
Print Assumptions C20_interrupted_preserves_data.

(* ... and AFTER ANY INTERRUPTED REPAIR A SECOND RUN COMPLETES IT: under the hypotheses of C20_fix_reaches (k stored under a
   former identifier, its new path n free or already linking to it, claimed by no other directory), whatever the mode, the
   examination orders and the interruption point, the command run again to its end on the interrupted workspace (examining
   every directory) makes n lead to the data of k, and a re-submit finds the result                                     *)
Theorem C20_interrupted_then_rerun_reaches : forall cl o1 o2 w k d n wi o1' o2',
  wf w -> active w k d n ->
  (lookup n w = None \/ lookup n w = Some (Link k)) ->
  (forall k2 d2, lookup k2 w = Some (Dir d2) -> d_recomp d2 = Some n -> k2 = k) ->
  In wi (interrupted cl o1 o2 w) ->
  (forall y dy, lookup y wi = Some (Dir dy) -> In y o2') ->
  let w' := fix_ws true cl o1' o2' wi in
  exists kf d', resolve w' n = Some (kf, d') /\ core d' = core d /\ incl (d_done d) (d_done d') /\
                (In (k_name k) (d_done d) -> found w' n = true).
Proof. exact interrupted_then_rerun_reaches. Qed.
Print Assumptions C20_interrupted_then_rerun_reaches.

(* record: with the order "move the directory, then alias its result files" an interruption in between leaves a renamed
   task's result invisible for ever (the directory sits under its own identifier: no later run looks at it); with the order
   of the repaired command every interruption point of that workspace is completed by the next run                      *)
Theorem C20_moved_first_refuted :
  In (rename xk xn xw) (partials_moved_first xw xk) /\
  found (fix_ws true true [xn] [xn] (rename xk xn xw)) xn = false /\
  forall cl wi, In wi (interrupted cl [xk] [xk] xw) -> found (fix_ws true cl [xk; xn] [xk; xn] wi) xn = true.
Proof. exact moved_first_refuted. Qed.
Print Assumptions C20_moved_first_refuted.

(* record: params.json rewritten in place - an interruption leaves a record that cannot be loaded: it is lost (no state of
   `interrupted` loses it) and no later run repairs the job                                                             *)
Theorem C20_inplace_write_refuted :
  let wi := update_dir xk unreadable xw in
  map core (dirs wi) <> map core (dirs xw) /\
  (forall cl, ~ In wi (interrupted cl [xk] [xk] xw)) /\
  forall cl, found (fix_ws true cl [xk] [xk] wi) xn = false.
Proof. exact inplace_write_refuted. Qed.
Print Assumptions C20_inplace_write_refuted.
Close Scope Z_scope.
