(* C11 - restarting a killed experiment adopts running jobs and repeats nothing.
   Statements only; every proof is `exact <lemma>`.

   The theorems are about the composed system of model/JobDir.v: any number of jobs with any
   dependency relation `deps` (the three configurations named by the property - one job, a chain
   of two, two independent jobs - are instances, stated at the end), one scheduler slot that may
   die between any two of its effects (g1_crash) and be started again (LSubmit from SDead) any
   number of times, job processes interleaved arbitrarily.
   Assumed, not proved: a detached job process survives its scheduler; the run lock is exclusive
   and dies with its holder; liveness of the process named by the pid file is truthful.         *)
From Coq Require Import List Bool Arith ZArith.
From XV Require Import model.JobDir proofs.JobDir_lemmas.
Import ListNotations.

(* SANITY LEMMA, not a derived fact: in this model the death of a scheduler IS the record update "its program
   counter := SDead, its lock freed" (LCrash), so survival of the job processes is the ASSUMPTION "every job
   process has its own session" written as a theorem: it ends no job process, changes no marker, disables no
   effect of a job process.  The launcher establishes the assumption since 027db70 (start_new_session=True);
   C11_group_signal_refuted below shows what happens without it.                                          *)
Theorem C11_jobs_survive : forall s g j,
  let st := jd g j in let st' := jd (crash_of s g) j in
  (forall p, procs st' p = procs st p) /\
  done st' = done st /\ failed st' = failed st /\ pidf st' = pidf st /\ script st' = script st /\
  body_runs st' = body_runs st /\ body_active st' = body_active st /\
  (forall a, lock st' = Some a -> lock st = Some a) /\
  (forall l st1, lbl_sched l = None -> lstep l st = Some st1 -> exists st1', lstep l st' = Some st1').
Proof. exact jobs_survive. Qed.
Print Assumptions C11_jobs_survive.

(* at every moment, whatever was killed and restarted: a body ran at most once more than the
   number of failed or killed job runs (so at most once while no run fails) *)
Theorem C11_exactly_once_le : forall deps g, greachable deps g ->
  forall j, body_runs (jd g j) <= 1 + aborts (jd g j).
Proof. exact exactly_once_le. Qed.
Print Assumptions C11_exactly_once_le.

(* in every final state of the (last) run, if no job run failed: exactly once *)
Theorem C11_exactly_once_final : forall deps n g, greachable1 deps g -> gfinal n g -> no_abort g ->
  forall j, j < n -> body_runs (jd g j) = 1.
Proof. exact exactly_once_final. Qed.
Print Assumptions C11_exactly_once_final.

(* ... every job is DONE in the scheduler, and its marker exists *)
Theorem C11_final_all_done : forall deps n g, greachable1 deps g -> gfinal n g -> no_abort g ->
  forall j, j < n -> scheds (jd g j) 0 = SFinal VDone /\ done (jd g j) = true /\ body_runs (jd g j) = 1.
Proof. exact final_all_done. Qed.
Print Assumptions C11_final_all_done.

(* COROLLARY of C11_final_all_done (both sides are "every job DONE with its marker"): two runs to a final
   state - one of them may be the run in which nothing was killed - give the same results *)
Theorem C11_same_results : forall deps n g1 g2,
  greachable1 deps g1 -> greachable1 deps g2 -> gfinal n g1 -> gfinal n g2 -> no_abort g1 -> no_abort g2 ->
  results n g1 = results n g2.
Proof. exact same_results. Qed.
Print Assumptions C11_same_results.

(* the configurations named by the property *)
Theorem C11_exactly_once_one_job : forall g, greachable1 deps_one g -> gfinal 1 g -> no_abort g ->
  body_runs (jd g 0) = 1 /\ results 1 g = [(Some VDone, true)].
Proof. exact exactly_once_one_job. Qed.
Print Assumptions C11_exactly_once_one_job.

Theorem C11_exactly_once_chain2 : forall g, greachable1 deps_chain2 g -> gfinal 2 g -> no_abort g ->
  body_runs (jd g 0) = 1 /\ body_runs (jd g 1) = 1 /\ results 2 g = [(Some VDone, true); (Some VDone, true)].
Proof. exact exactly_once_chain2. Qed.
Print Assumptions C11_exactly_once_chain2.

Theorem C11_exactly_once_indep2 : forall g, greachable1 deps_indep2 g -> gfinal 2 g -> no_abort g ->
  body_runs (jd g 0) = 1 /\ body_runs (jd g 1) = 1 /\ results 2 g = [(Some VDone, true); (Some VDone, true)].
Proof. exact exactly_once_indep2. Qed.
Print Assumptions C11_exactly_once_indep2.

(* the restarted experiment cannot get stuck: as long as the scheduler is busy with a job (neither
   finished nor waiting for a dependency), some effect of a scheduler or of a job process other
   than a death/kill is enabled (N schedulers, any prior contents).  Termination of each such
   path is by the shape of the program counters; fairness of the OS scheduler is assumed.       *)
Theorem C11_no_deadlock : forall st s, reachable st -> sbusy (scheds st s) = true ->
  exists l st', progress_label l = true /\ lstep l st = Some st'.
Proof. exact no_deadlock. Qed.
Print Assumptions C11_no_deadlock.

(* record of the defect of the pinned commit: CommandLineJob.aio_process let json.loads("") raise on
   the empty pid file that a scheduler killed between open("w") and close leaves behind; the same
   experiment run again is stuck for ever although the job finished and its marker exists        *)
Theorem C11_empty_pid_stuck_refuted : exists st,
  run_labels_prefix tr_empty_pid fresh = Some st /\ Forall lbl_single tr_empty_pid /\
  done st = true /\ body_runs st = 1 /\ (forall p, alive (procs st p) = false) /\ lock st = None /\
  sbusy (scheds st 0) = true /\
  (forall l, progress_label l = true -> lstep_prefix l st = None).
Proof. exact empty_pid_stuck_refuted. Qed.
Print Assumptions C11_empty_pid_stuck_refuted.

(* "running jobs are adopted rather than relaunched" (statement first proved by the audit): while the pid file
   names a live process the scheduler is nowhere between a negative aio_process() and Popen, and Popen is not
   enabled *)
Theorem C11_adopted_not_relaunched : forall deps g, greachable1 deps g ->
  forall j p, pidf (jd g j) = PFSome p -> alive (procs (jd g j) p) = true ->
  sprelaunch (scheds (jd g j) 0) = false /\ lstep (LSpawn 0) (jd g j) = None.
Proof. exact adopted_not_relaunched. Qed.
Print Assumptions C11_adopted_not_relaunched.

(* the faithful exception: scheduler killed between Popen and the write of the pid file.  The job runs, no pid
   file names it, the next run is on the launch path (it will start a second process, which queues behind the
   lock and skips the body: C11_exactly_once_final still gives one body) *)
Theorem C11_orphan_not_adopted : exists g,
  greachable1 deps_one g /\ procs (jd g 0) 0 = PBody /\ pidf (jd g 0) = PFNone /\
  scheds (jd g 0) 0 = SLock /\ sprelaunch (scheds (jd g 0) 0) = true /\ launches (jd g 0) = 1.
Proof. exact orphan_not_adopted. Qed.
Print Assumptions C11_orphan_not_adopted.

(* record of the defect of the pinned launcher (Popen without start_new_session): a signal delivered to the
   process group of the experiment (Ctrl-C, hang-up) reaches the running job; nothing fails by itself and nobody
   kills a job process (quiet_move), yet the job process is gone with a failure marker, and the experiment run
   again executes the body a second time.  Every theorem above is about gstep1, whose crash (g1_crash) touches no
   job process: they all need the repaired launcher.                                                          *)
Theorem C11_group_signal_refuted : exists g gmid,
  grun_group deps_one mv_group_signal_mid gfresh0 = Some gmid /\
  grun_group deps_one mv_group_signal gfresh0 = Some g /\
  forallb gmove_single mv_group_signal = true /\ forallb quiet_move mv_group_signal = true /\
  procs (jd gmid 0) 0 = PExit XFail /\ failed (jd gmid 0) = true /\ done (jd gmid 0) = false /\
  gfinal 1 g /\ scheds (jd g 0) 0 = SFinal VDone /\ done (jd g 0) = true /\ body_runs (jd g 0) = 2.
Proof. exact group_signal_refuted. Qed.
Print Assumptions C11_group_signal_refuted.

(* possibility liveness (asked for by the audit: C11_no_deadlock alone allows the endless run
   [LReady; LSLock; LAbort]^n of "progress" effects).  Whatever was killed and restarted so far, as long as no
   job run failed: from the current state there IS a continuation - effects of the scheduler and of the job
   processes only, no further death, no kill, no aborted start, no failing body - to a final state in which
   every job is DONE; by C11_final_all_done each body has then run exactly once.  Dependencies acyclic (they
   are: a dependency is submitted before its dependent).
   FAIRNESS ASSUMPTION, not proved: the operating system eventually runs every process that can move, task bodies
   terminate, and a start is not aborted for ever (LAbort = a token could not be taken: the fairness of the token
   protocol is C09's statement).  Under that assumption the continuation is the one that happens: every effect
   of it decreases the measure `mu` (16 x rank of the scheduler's program counter + sum of the ranks of the job
   processes), so no run of such effects is infinite.                                                        *)
Theorem C11_can_finish : forall deps, (forall j d, In d (deps j) -> d < j) ->
  forall n g, greachable1 deps g -> no_abort g ->
  exists g', gsteps1 deps g g' /\ greachable1 deps g' /\ gfinal n g' /\ no_abort g' /\
             forall j, j < n -> scheds (jd g' j) 0 = SFinal VDone.
Proof. exact can_finish. Qed.
Print Assumptions C11_can_finish.

(* every effect of that continuation strictly decreases the measure: one job, local form *)
Theorem C11_job_advances : forall st, InvL st -> aborts st = 0 -> (forall v, scheds st 0 <> SFinal v) ->
  exists l st', good l = true /\ lstep l st = Some st' /\ mu st' < mu st.
Proof. exact job_advances. Qed.
Print Assumptions C11_job_advances.

(* record of the pinned aio_start (one scheduler slot): killed between Popen and the pid write; the job runs as an
   orphan and succeeds while the next run waits for the job lock; that run then starts a second process although
   the marker exists - a launch that does nothing but truncate <name>.out / <name>.err of the only execution of
   the body ("reaches the same final results" fails for the job's output).  With the repaired aio_start (marker
   tested under the lock, LTest3) nothing is launched: C05_done_never_launched, and final_nonvacuous_chain2
   (launches = 1).                                                                                           *)
Theorem C11_noop_relaunch_refuted : exists st st',
  run_labels_prefix tr_noop_relaunch fresh = Some st /\ Forall lbl_single tr_noop_relaunch /\
  done st = true /\ body_runs st = 1 /\ launches st = 1 /\
  lstep_prefix (LSpawn 0) st = Some st' /\ launches st' = 2.
Proof. exact noop_relaunch_refuted. Qed.
Print Assumptions C11_noop_relaunch_refuted.
