(* C04 - no job is launched before everything it depends on has succeeded.
   Statements only (models: model/Sched.v, model/Deps.v); every proof is `exact <lemma>`.      *)
From Coq Require Import ZArith List Bool.
From XV Require Import model.Sched model.Deps proofs.Sched_lemmas proofs.Sched_inv proofs.Sched_thm proofs.Deps_lemmas.
From XV Require proofs.Sched_live.
Import ListNotations.
Open Scope Z_scope.

(* at every step that launches job j (aio_run is called), every job dependency of j is DONE
   before the step and after it - for all workloads and all schedules *)
Theorem C04_launch_after_deps : forall W s l s' j k, wf W = true -> reachable W s -> step W s l = Some s' ->
  launch_step s s' j -> In (DJob k) (deps W j) ->
  st (jobs s k) = DONE /\ st (jobs s' k) = DONE.
Proof. exact launch_after_deps. Qed.
Print Assumptions C04_launch_after_deps.

Theorem C04_launched_deps_done : forall W s j k, wf W = true -> reachable W s ->
  (launches (jobs s j) >= 1)%nat -> In (DJob k) (deps W j) -> st (jobs s k) = DONE.
Proof. exact launched_deps_done. Qed.
Print Assumptions C04_launched_deps_done.

(* supporting invariants *)
Theorem C04_unsatisfied_counts : forall W s j, wf W = true -> reachable W s -> started (pc (jobs s j)) = true ->
  length (cur (jobs s j)) = length (deps W j) /\ uns (jobs s j) = Z.of_nat (count_nok (cur (jobs s j))).
Proof. exact unsatisfied_counts. Qed.
Print Assumptions C04_unsatisfied_counts.

Theorem C04_ok_means_done : forall W s j i k, wf W = true -> reachable W s -> started (pc (jobs s j)) = true ->
  nth_error (cur (jobs s j)) i = Some DOK -> nth_error (deps W j) i = Some (DJob k) -> st (jobs s k) = DONE.
Proof. exact ok_means_done. Qed.
Print Assumptions C04_ok_means_done.

Theorem C04_done_absorbing : forall W ls s s' k, wf W = true -> reachable W s -> steps W s ls = Some s' ->
  st (jobs s k) = DONE -> st (jobs s' k) = DONE.
Proof. exact done_absorbing. Qed.
Print Assumptions C04_done_absorbing.

(* the dependency set computed by submit() = the registered jobs of the tasks reachable from the
   parameters through lists, dict keys and values, nested configurations, task-output marks,
   pre-tasks and init tasks, stopping at the first task on each path, plus the explicit ones *)
Theorem C04_deps_exact : forall h, marks_ok h -> forall fuel root explicit ds,
  n_sub (get h root) = None ->
  collect h fuel root explicit = Some ds ->
  forall k, In k ds <-> (reachv h (VRef root) k \/ In k explicit).
Proof. exact deps_exact. Qed.
Print Assumptions C04_deps_exact.

(* the literal code of the unchanged tree: an object submitted a second time carries a job but no
   task mark; used as a parameter it contributes no dependency *)
Theorem C04_deps_exact_dup_refuted : exists h root fuel,
  n_sub (get h root) = None /\ collect h fuel root [] = Some [] /\ reachv h (VRef root) 0.
Proof. exact deps_exact_dup_refuted. Qed.
Print Assumptions C04_deps_exact_dup_refuted.

(* `collect = Some ds` above is not a vacuous hypothesis: on every configuration without an infinite chain
   of references (`finite`) the walk ends from some recursion depth on, more depth never changes the
   result, and a configuration that contains itself gives no result at any depth (RecursionError) *)
Theorem C04_collect_total : forall h root explicit, marks_ok h -> finite h (VRef root) ->
  exists n, forall m, (n <= m)%nat -> exists ds, collect h m root explicit = Some ds.
Proof. exact collect_total. Qed.
Print Assumptions C04_collect_total.

Theorem C04_collect_stable : forall h f f' root explicit ds, (f <= f')%nat ->
  collect h f root explicit = Some ds -> collect h f' root explicit = Some ds.
Proof. exact collect_stable. Qed.
Print Assumptions C04_collect_stable.

Theorem C04_cyclic_never_collects : forall fuel explicit, collect h_cyc fuel 0%nat explicit = None.
Proof. exact cyclic_never_collects. Qed.
Print Assumptions C04_cyclic_never_collects.

(* the two models composed: when the job dependencies given to the scheduler for job j contain what
   submit() computed from the parameters (the harness checks that equality on every run), j is launched
   only after every job registered for a task reachable from its parameters, and every explicit
   dependency, is DONE *)
Theorem C04_launch_after_parameters : forall W s j h fuel root explicit ds,
  wf W = true -> reachable W s ->
  marks_ok h -> n_sub (get h root) = None ->
  collect h fuel root explicit = Some ds ->
  (forall k, In k ds -> In (DJob k) (deps W j)) ->
  (launches (jobs s j) >= 1)%nat ->
  forall k, reachv h (VRef root) k \/ In k explicit -> st (jobs s k) = DONE.
Proof. exact Sched_live.launch_after_parameters. Qed.
Print Assumptions C04_launch_after_parameters.

(* the literal test `if self.task and not self.loaded` of the unchanged tree (`blind`: the mark of a task
   object that evaluates to False is not seen): a submitted task whose truth value is False contributes no
   dependency, although it is reachable and the `is not None` walk collects it *)
Theorem C04_deps_exact_falsy_task_refuted : exists h falsy root fuel,
  marks_ok h /\ n_sub (get h root) = None /\
  collect (blind falsy h) fuel root [] = Some [] /\ reachv h (VRef root) 0%nat /\
  collect h fuel root [] = Some [0%nat].
Proof. exact deps_exact_falsy_task_refuted. Qed.
Print Assumptions C04_deps_exact_falsy_task_refuted.

(* copy_dependencies puts the mark of another task on a configuration: the walk of the unchanged tree stops at
   that mark and never looks at the parameters (h); read as what it means (`uncopy`: own parameters + the copied
   mark) the task given through the parameters is reachable and collected - the walk with fixes/C04-3.diff *)
Theorem C04_copied_mark_hides_refuted : exists h cp root fuel,
  n_sub (get h root) = None /\
  collect h fuel root [] = Some [1%nat] /\
  reachv (uncopy cp h) (VRef root) 0%nat /\
  collect (uncopy cp h) fuel root [] = Some [0%nat; 1%nat].
Proof. exact copied_mark_hides_refuted. Qed.
Print Assumptions C04_copied_mark_hides_refuted.

