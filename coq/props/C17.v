(* C17 - generated paths are private to the job, distinct and reproducible.
   Statements only; every proof is `exact <lemma>`.

   generated esc h gens root jd = the list of (object, parameter, file name, path) set by the
   Sealer when task `root` of graph h is submitted with job directory jd; esc = how
   ConfigWalkContext.push turns a key into a path segment: esc_fix is the repaired code
   (fixes/C17-1.diff), esc_prefix the code of the pinned commit (keys used as they are).
   all_unamb seal_edges h: below every configuration, no two different edges (argument name / list index /
   dict key / pre-task index ...) leading to unsealed configurations carry keys of which one
   is a prefix of the other, and none carries no key (decidable: unambb).                  *)
From Coq Require Import NArith List Permutation.
From XV Require Import model.Walk model.GenPath proofs.Walk_lemmas proofs.GenPath_lemmas.
Import ListNotations.

(* the traversal underneath: enough fuel for every heap, postprocess exactly once on each
   configuration reachable through entered configurations and on no other, with keys that
   are a root path to it                                                                *)
Theorem C17_walk_correct : forall h edges_of cut root,
  exists evs, walk h edges_of cut root = Some evs /\
    NoDup (map fst evs) /\
    (forall m, In m (map fst evs) <-> reach h edges_of cut root m) /\
    (forall m p, In (m, p) evs -> path h edges_of cut root p m).
Proof. exact walk_correct. Qed.
Print Assumptions C17_walk_correct.

Theorem C17_total : forall esc SE h gens root jd, exists l, generated esc SE h gens root jd = Some l.
Proof. exact generated_total. Qed.
Print Assumptions C17_total.

(* every generated path is jobdir/c1/.../ck, k >= 1, every ci a plain name (not empty, no "/",
   not "." or "..") *)
Theorem C17_inside_jobdir : forall h gens root jd l e,
  (forall c af, In c gens -> In af c -> plain (snd af) = true) ->
  generated esc_fix seal_edges h gens root jd = Some l -> In e l ->
  exists comps, comps <> [] /\ Forall (fun c => plain c = true) comps /\
    g_path e = {| p_root := p_root jd; p_parts := p_parts jd ++ comps |}.
Proof. exact inside_jobdir_fix. Qed.
Print Assumptions C17_inside_jobdir.

(* distinct (object, file name) pairs receive distinct paths *)
Theorem C17_distinct : forall h gens root jd l e1 e2,
  all_unamb seal_edges h ->
  (forall c af, In c gens -> In af c -> plain (snd af) = true) ->
  generated esc_fix seal_edges h gens root jd = Some l -> In e1 l -> In e2 l ->
  (g_node e1, g_file e1) <> (g_node e2, g_file e2) -> g_path e1 <> g_path e2.
Proof. exact distinct_fix. Qed.
Print Assumptions C17_distinct.

(* the hypothesis of C17_distinct is decidable *)
Theorem C17_unamb_decidable : forall SE h, unambb SE h = true -> all_unamb SE h.
Proof. exact unambb_sound. Qed.
Print Assumptions C17_unamb_decidable.

(* ... and it holds for every graph with well-formed names: argument names pairwise distinct and
   not "__pre_tasks__"/"__init_tasks__", keys of every dict pairwise distinct (names_wf), the task of
   a configuration sealed by its own submit (task_targets_cut) - str(i) is injective *)
Theorem C17_names_wf_unamb : forall h, names_wf h -> task_targets_cut h -> all_unamb seal_edges h.
Proof. exact names_wf_unamb. Qed.
Print Assumptions C17_names_wf_unamb.

Theorem C17_distinct_wf : forall h gens root jd l e1 e2,
  names_wf h -> task_targets_cut h ->
  (forall c af, In c gens -> In af c -> plain (snd af) = true) ->
  generated esc_fix seal_edges h gens root jd = Some l -> In e1 l -> In e2 l ->
  (g_node e1, g_file e1) <> (g_node e2, g_file e2) -> g_path e1 <> g_path e2.
Proof. exact distinct_wf. Qed.
Print Assumptions C17_distinct_wf.

(* interpretation fixed in DESIGN.md: one object, one file name declared twice: one path *)
Theorem C17_same_object_same_name : forall esc SE h gens root jd l e1 e2,
  generated esc SE h gens root jd = Some l -> In e1 l -> In e2 l ->
  g_node e1 = g_node e2 -> g_file e1 = g_file e2 -> g_path e1 = g_path e2.
Proof. exact same_object_same_name. Qed.
Print Assumptions C17_same_object_same_name.

(* reproducible: the result is a function of the graph and the job directory: no dependence
   on the fuel, and the layout below the job directory depends on the graph only          *)
Theorem C17_reproducible : forall esc SE h gens fuel root jd l,
  generated_fuel esc SE h gens fuel root jd = Some l -> generated esc SE h gens root jd = Some l.
Proof. exact reproducible_fuel. Qed.
Print Assumptions C17_reproducible.

Theorem C17_reproducible_layout : forall h gens root,
  (forall c af, In c gens -> In af c -> plain (snd af) = true) ->
  exists rels, forall jd, generated esc_fix seal_edges h gens root jd = Some (map (place jd) rels).
Proof. exact reproducible_layout_fix. Qed.
Print Assumptions C17_reproducible_layout.

(* "the same configuration": the identifier sorts the entries of a dict, so two insertion orders
   are one configuration, one job directory.  With sorted visiting the edges below a dict do not
   depend on the insertion order, and the generated values depend on the graph only through
   these edges, the classes and the sealed flags *)
Theorem C17_dict_order_irrelevant : forall rel l l',
  Permutation l l' -> NoDup (map fst l) ->
  edges_value_s rel (VDict l) = edges_value_s rel (VDict l').
Proof. exact dict_order_irrelevant. Qed.
Print Assumptions C17_dict_order_irrelevant.

Theorem C17_generated_sim : forall esc SE h h' gens root jd,
  heap_sim SE h h' -> generated esc SE h gens root jd = generated esc SE h' gens root jd.
Proof. exact generated_sim. Qed.
Print Assumptions C17_generated_sim.

(* before fixes/C17-2.diff: d = {"a": s, "b": s} and d = {"b": s, "a": s} give s two different paths *)
Theorem C17_dictorder_insertion_refuted :
  exists h h' gens root jd,
    heap_sim seal_edges h h' /\
    generated esc_fix seal_edges_insertion h gens root jd <> generated esc_fix seal_edges_insertion h' gens root jd.
Proof. exact dictorder_insertion_refuted. Qed.
Print Assumptions C17_dictorder_insertion_refuted.

(* the repaired push maps every key to one plain segment, injectively *)
Theorem C17_esc_fix_plain_injective :
  (forall k, plain (esc_fix k) = true) /\ (forall a b, esc_fix a = esc_fix b -> a = b).
Proof. exact (conj esc_fix_plain esc_fix_inj). Qed.
Print Assumptions C17_esc_fix_plain_injective.

(* the code of the pinned commit: same conclusions when every key gives a plain segment *)
Theorem C17_inside_jobdir_plainkeys : forall h gens,
  keys_ok esc_prefix seal_edges h ->
  (forall c af, In c gens -> In af c -> plain (snd af) = true) ->
  forall root jd l e, generated esc_prefix seal_edges h gens root jd = Some l -> In e l ->
  exists comps, comps <> [] /\ Forall (fun c => plain c = true) comps /\
    g_path e = {| p_root := p_root jd; p_parts := p_parts jd ++ comps |}.
Proof. exact (inside_jobdir esc_prefix seal_edges). Qed.
Print Assumptions C17_inside_jobdir_plainkeys.

Theorem C17_distinct_plainkeys : forall h gens root jd l e1 e2,
  all_unamb seal_edges h -> keys_ok esc_prefix seal_edges h ->
  (forall c af, In c gens -> In af c -> plain (snd af) = true) ->
  generated esc_prefix seal_edges h gens root jd = Some l -> In e1 l -> In e2 l ->
  (g_node e1, g_file e1) <> (g_node e2, g_file e2) -> g_path e1 <> g_path e2.
Proof. exact distinct_plainkeys. Qed.
Print Assumptions C17_distinct_plainkeys.

(* ... and refuted without that hypothesis: dict keys "" and "." (same path for two objects),
   dict key "/abs" (path outside the job directory)                                       *)
Theorem C17_distinct_prefix_refuted :
  exists h gens root jd l e1 e2,
    all_unamb seal_edges h /\ files_ok gens /\ generated esc_prefix seal_edges h gens root jd = Some l /\
    In e1 l /\ In e2 l /\ g_node e1 <> g_node e2 /\ g_path e1 = g_path e2.
Proof. exact distinct_prefix_refuted. Qed.
Print Assumptions C17_distinct_prefix_refuted.

Theorem C17_inside_prefix_refuted :
  exists h gens root jd l e,
    files_ok gens /\ generated esc_prefix seal_edges h gens root jd = Some l /\ In e l /\
    ~ exists comps, g_path e = {| p_root := p_root jd; p_parts := p_parts jd ++ comps |}.
Proof. exact inside_prefix_refuted. Qed.
Print Assumptions C17_inside_prefix_refuted.

(* "the same configuration", continued: the identifier sorts the arguments by name, so the order in
   which the parameters of a configuration were assigned (keyword order of the constructor, later
   assignments: the order of the .values dict) does not make another configuration.  The walk
   iterates xpmvalues(): declared arguments in declaration order, present in .values.
   xpmvalues decl vals = that list; seal_edges_decl decls = the Sealer's edges from a node whose
   `fields` are .values in assignment order; heap_reassigned h h' = node by node the same class,
   the same (name, value) pairs in another order, the same pre-/init-tasks, task and sealed flag   *)
Theorem C17_xpmvalues_order_irrelevant : forall decl vals vals',
  Permutation vals vals' -> NoDup (map fst vals) -> xpmvalues decl vals = xpmvalues decl vals'.
Proof. exact xpmvalues_perm. Qed.
Print Assumptions C17_xpmvalues_order_irrelevant.

Theorem C17_assignment_order_irrelevant : forall esc decls h h' gens root jd,
  heap_reassigned h h' ->
  generated esc (seal_edges_decl decls) h gens root jd = generated esc (seal_edges_decl decls) h' gens root jd.
Proof. exact assignment_order_irrelevant. Qed.
Print Assumptions C17_assignment_order_irrelevant.

(* ... and it is the walk of all the theorems above, run on the heap put in declaration order *)
Theorem C17_generated_by_decl : forall esc decls h gens root jd,
  generated esc (seal_edges_decl decls) h gens root jd
  = generated esc seal_edges (map (by_decl decls) h) gens root jd.
Proof. exact generated_by_decl. Qed.
Print Assumptions C17_generated_by_decl.

Theorem C17_assigned_inside_distinct : forall decls h gens root jd l,
  names_wf (map (by_decl decls) h) -> task_targets_cut (map (by_decl decls) h) ->
  (forall c af, In c gens -> In af c -> plain (snd af) = true) ->
  generated esc_fix (seal_edges_decl decls) h gens root jd = Some l ->
  (forall e, In e l ->
     exists comps, comps <> [] /\ Forall (fun c => plain c = true) comps /\
       g_path e = {| p_root := p_root jd; p_parts := p_parts jd ++ comps |}) /\
  (forall e1 e2, In e1 l -> In e2 l ->
     (g_node e1, g_file e1) <> (g_node e2, g_file e2) -> g_path e1 <> g_path e2).
Proof. exact assigned_inside_distinct. Qed.
Print Assumptions C17_assigned_inside_distinct.

(* a walk iterating .values.items() (assignment order): Main(c=s, c2=s) and Main(c2=s, c=s) give the
   shared s two different paths                                                                *)
Theorem C17_assignment_order_refuted :
  exists h h' gens root jd,
    heap_reassigned h h' /\
    generated esc_fix seal_edges_assigned h gens root jd <> generated esc_fix seal_edges_assigned h' gens root jd.
Proof. exact assignment_order_refuted. Qed.
Print Assumptions C17_assignment_order_refuted.

(* "the same configuration", third part: the full identifier hashes the SORTED raw identifiers of the
   pre-tasks, so t.add_pretasks(a, b) and t.add_pretasks(b, a) are one configuration, one job
   directory.  The walk pushes "__pre_tasks__"/<index in the list>: in list order (seal_edges, the code
   before fixes/C17-3.diff) a and b swap their generated paths                                   *)
Theorem C17_pretask_order_refuted :
  exists h h' gens root jd,
    heap_repre h h' /\
    generated esc_fix seal_edges h gens root jd <> generated esc_fix seal_edges h' gens root jd /\
    exists l l' e e', generated esc_fix seal_edges h gens root jd = Some l /\
      generated esc_fix seal_edges h' gens root jd = Some l' /\ In e l /\ In e' l' /\
      g_node e <> g_node e' /\ g_path e = g_path e'.
Proof. exact pretask_order_refuted. Qed.
Print Assumptions C17_pretask_order_refuted.

(* the repaired Sealer visits them in the order of their raw identifiers (idk t = identifier of t;
   seal_edges_sorted decls idk = parameters in declaration order, pre-tasks in identifier order):
   the order in which they were added is irrelevant when the pre-tasks attached to one configuration
   have pairwise different identifiers                                                          *)
Theorem C17_pretask_order_irrelevant : forall esc decls idk h h' gens root jd,
  heap_repre h h' -> pre_ids_distinct idk h ->
  generated esc (seal_edges_sorted decls idk) h gens root jd
  = generated esc (seal_edges_sorted decls idk) h' gens root jd.
Proof. exact pretask_order_irrelevant. Qed.
Print Assumptions C17_pretask_order_irrelevant.

Theorem C17_assignment_order_irrelevant_sorted : forall esc decls idk h h' gens root jd,
  heap_reassigned h h' ->
  generated esc (seal_edges_sorted decls idk) h gens root jd
  = generated esc (seal_edges_sorted decls idk) h' gens root jd.
Proof. exact assignment_order_irrelevant_sorted. Qed.
Print Assumptions C17_assignment_order_irrelevant_sorted.

(* ... and it is the walk of the theorems above on the heap put in that normal form *)
Theorem C17_generated_sorted_norm : forall esc decls idk h gens root jd,
  generated esc (seal_edges_sorted decls idk) h gens root jd
  = generated esc seal_edges (map (norm_node decls idk) h) gens root jd.
Proof. exact generated_sorted_norm. Qed.
Print Assumptions C17_generated_sorted_norm.

Theorem C17_sorted_inside_distinct : forall decls idk h gens root jd l,
  names_wf (map (norm_node decls idk) h) -> task_targets_cut (map (norm_node decls idk) h) ->
  (forall c af, In c gens -> In af c -> plain (snd af) = true) ->
  generated esc_fix (seal_edges_sorted decls idk) h gens root jd = Some l ->
  (forall e, In e l ->
     exists comps, comps <> [] /\ Forall (fun c => plain c = true) comps /\
       g_path e = {| p_root := p_root jd; p_parts := p_parts jd ++ comps |}) /\
  (forall e1 e2, In e1 l -> In e2 l ->
     (g_node e1, g_file e1) <> (g_node e2, g_file e2) -> g_path e1 <> g_path e2).
Proof. exact sorted_inside_distinct. Qed.
Print Assumptions C17_sorted_inside_distinct.

(* "private and distinct" read as NON-OVERLAPPING: no generated path is a folder on the way to another
   generated path (proper_prefix p q: q lies strictly below p).  It needs two more hypotheses:
   no generated file name of a configuration is the first key under which one of its entered
   sub-configurations is placed (no_file_key_clash), and the task itself generates no file called
   "out" (root_files_not_out) - everything below the task lives in <job>/out/...               *)
Theorem C17_prefix_free : forall h gens root jd l e1 e2,
  names_wf h -> task_targets_cut h ->
  (forall c af, In c gens -> In af c -> plain (snd af) = true) ->
  no_file_key_clash esc_fix seal_edges h gens -> root_files_not_out h gens root ->
  generated esc_fix seal_edges h gens root jd = Some l -> In e1 l -> In e2 l ->
  ~ proper_prefix (g_path e1) (g_path e2).
Proof. exact prefix_free_wf. Qed.
Print Assumptions C17_prefix_free.

(* without them it fails under every hypothesis of C17_distinct_wf: task with pathgenerator("out")
   and a parameter a -> <job>/out is a file and the folder of <job>/out/a/...; configuration with
   pathgenerator("b") and a parameter b -> <job>/out/a/b is a file and the folder of <job>/out/a/b/c *)
Theorem C17_prefix_free_refuted : exists h gens root jd l e1 e2 e3,
  names_wf h /\ task_targets_cut h /\ (forall c af, In c gens -> In af c -> plain (snd af) = true) /\
  generated esc_fix seal_edges h gens root jd = Some l /\ In e1 l /\ In e2 l /\ In e3 l /\
  proper_prefix (g_path e1) (g_path e2) /\ proper_prefix (g_path e2) (g_path e3).
Proof. exact prefix_free_refuted. Qed.
Print Assumptions C17_prefix_free_refuted.

(* "the same configuration", fourth part: the identifier drops the elements of a list that are
   configurations flagged as meta-parameters (setmeta(c, True)): L(l=[m, a]) with m flagged and
   L(l=[a]) are one configuration, one job directory.  The walk numbers every element
   (seal_edges = seal_edges_m no_meta, the code before fixes/C17-4.diff): a is placed at out/l/1 in
   one and out/l/0 in the other.  seal_edges_m metaf numbers the unflagged elements 0, 1, ... and the
   flagged ones "__meta__0", ... apart: a keeps its path                                        *)
Theorem C17_meta_list_refuted :
  exists metaf h h' gens root jd a,
    metaf a = false /\
    path_of a (generated esc_fix seal_edges h gens root jd) <> path_of a (generated esc_fix seal_edges h' gens root jd) /\
    path_of a (generated esc_fix (seal_edges_m metaf) h gens root jd)
    = path_of a (generated esc_fix (seal_edges_m metaf) h' gens root jd).
Proof. exact meta_list_refuted. Qed.
Print Assumptions C17_meta_list_refuted.

(* lkeys metaf 0 0 l = the key of each element of l.  The keys of the unflagged elements are the keys
   they have in the list without the flagged ones, namely 0, 1, 2, ...: dropping or inserting flagged
   elements moves nothing                                                                       *)
Theorem C17_meta_list_elements_irrelevant : forall metaf l,
  let unflagged := fun x => negb (flagged metaf x) in
  map fst (filter (fun kx => unflagged (snd kx)) (combine (lkeys metaf 0 0 l) l))
  = lkeys metaf 0 0 (filter unflagged l)
  /\ lkeys metaf 0 0 (filter unflagged l) = map dec (seq 0 (length (filter unflagged l))).
Proof. exact meta_list_elements_irrelevant. Qed.
Print Assumptions C17_meta_list_elements_irrelevant.

(* the positions stay unambiguous for every flagging (keys of one list pairwise different) ... *)
Theorem C17_names_wf_unamb_meta : forall metaf h,
  names_wf h -> task_targets_cut h -> all_unamb (seal_edges_m metaf) h.
Proof. exact names_wf_unamb_m. Qed.
Print Assumptions C17_names_wf_unamb_meta.

(* ... so that with all the repairs (seal_edges_full decls idk metaf: parameters in declaration order,
   pre-tasks in identifier order, flagged list elements numbered apart, dict entries in key order,
   keys encoded as one segment) every generated path is inside the job directory and distinct
   (object, file name) pairs receive distinct paths                                             *)
Theorem C17_full_inside_distinct : forall decls idk metaf h gens root jd l,
  names_wf (map (norm_node decls idk) h) -> task_targets_cut (map (norm_node decls idk) h) ->
  (forall c af, In c gens -> In af c -> plain (snd af) = true) ->
  generated esc_fix (seal_edges_full decls idk metaf) h gens root jd = Some l ->
  (forall e, In e l ->
     exists comps, comps <> [] /\ Forall (fun c => plain c = true) comps /\
       g_path e = {| p_root := p_root jd; p_parts := p_parts jd ++ comps |}) /\
  (forall e1 e2, In e1 l -> In e2 l ->
     (g_node e1, g_file e1) <> (g_node e2, g_file e2) -> g_path e1 <> g_path e2).
Proof. exact full_inside_distinct. Qed.
Print Assumptions C17_full_inside_distinct.

Theorem C17_pretask_order_irrelevant_full : forall esc decls idk metaf h h' gens root jd,
  heap_repre h h' -> pre_ids_distinct idk h ->
  generated esc (seal_edges_full decls idk metaf) h gens root jd
  = generated esc (seal_edges_full decls idk metaf) h' gens root jd.
Proof. exact pretask_order_irrelevant_full. Qed.
Print Assumptions C17_pretask_order_irrelevant_full.

Theorem C17_assignment_order_irrelevant_full : forall esc decls idk metaf h h' gens root jd,
  heap_reassigned h h' ->
  generated esc (seal_edges_full decls idk metaf) h gens root jd
  = generated esc (seal_edges_full decls idk metaf) h' gens root jd.
Proof. exact assignment_order_irrelevant_full. Qed.
Print Assumptions C17_assignment_order_irrelevant_full.

(* two open holes of the same family (something the identifier ignores decides where a path is generated):
   (1) a parameter ignored by the identifier (Meta[...]) declared before p: T(m=s, p=s) and T(p=s) - one
       identifier, one job directory - place the shared s under out/m and under out/p;
   (2) the full identifier hashes the SET of the pre-tasks of the whole graph: attaching a pre-task to another
       sub-configuration keeps the identifier and moves the pre-task's generated path                    *)
Theorem C17_ignored_parameter_refuted :
  exists h h' gens root jd s,
    (exists nd rest kv, h = nd :: rest /\ h' = {| cls := cls nd; fields := tl (fields nd); pre := pre nd; init := init nd;
                                               task := task nd; sealed := sealed nd |} :: rest /\ hd_error (fields nd) = Some kv) /\
    path_of s (generated esc_fix seal_edges h gens root jd) <> path_of s (generated esc_fix seal_edges h' gens root jd).
Proof. exact ignored_parameter_refuted. Qed.
Print Assumptions C17_ignored_parameter_refuted.

Theorem C17_pretask_attachment_refuted :
  exists h h' gens root jd q,
    map (fun nd => (cls nd, fields nd, init nd, task nd, sealed nd)) h
    = map (fun nd => (cls nd, fields nd, init nd, task nd, sealed nd)) h' /\
    Permutation (flat_map pre h) (flat_map pre h') /\
    path_of q (generated esc_fix seal_edges h gens root jd) <> path_of q (generated esc_fix seal_edges h' gens root jd).
Proof. exact pretask_attachment_refuted. Qed.
Print Assumptions C17_pretask_attachment_refuted.
