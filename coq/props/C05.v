(* C05 - a task configuration is executed at most once per successful result.
   Statements only; every proof is `exact <lemma>`.
   Assumed, not proved: the lock on <name>.lock is exclusive between processes and dies with
   its holder (the shape of the Lock/Unlock/Crash/Kill transitions of model/JobDir.v).       *)
From Coq Require Import List Bool Arith ZArith.
From XV Require Import model.JobDir proofs.JobDir_lemmas.
Import ListNotations.

(* (a) registry.  After any history of submissions (duplicates anywhere, re-submissions after a
   failure) and state changes: submitting a configuration whose identifier belongs to an earlier
   job object that is not failed returns that job and changes nothing (no job object, no
   registration, no counter).                                                                  *)
Theorem C05_registry_unique : forall h r out i j,
  run_reg h reg0 = (r, out) ->
  j < r_next r -> r_ident r j = i -> jst_error (r_state r j) = false ->
  submit r i = (r, j).
Proof. exact registry_unique. Qed.
Print Assumptions C05_registry_unique.

(* at any time at most one job object per identifier is not failed *)
Theorem C05_registry_live_le_1 : forall h r out i,
  run_reg h reg0 = (r, out) -> length (live_of r i) <= 1.
Proof. exact registry_live_le_1. Qed.
Print Assumptions C05_registry_live_le_1.

(* record of the defect of the pinned commit (aio_registerJob left the failed job in the registry
   on re-submission): a third submission created a third job although the second was not failed *)
Theorem C05_registry_prefix_refuted : exists h r out i j,
  run_reg_prefix h reg0 = (r, out) /\
  j < r_next r /\ r_ident r j = i /\ jst_error (r_state r j) = false /\
  snd (submit_prefix r i) <> j /\ r_next (fst (submit_prefix r i)) = S (r_next r).
Proof. exact registry_prefix_refuted. Qed.
Print Assumptions C05_registry_prefix_refuted.

(* MAIN STATEMENTS, (c) and the second half of (b).  N schedulers competing for one job, each of which may die between any two effects and be
   started again, job processes that may be killed anywhere: never two processes in the body *)
Theorem C05_body_mutex : forall st, reachable st ->
  body_active st <= 1 /\ (forall p q, procs st p = PBody -> procs st q = PBody -> p = q).
Proof. exact body_mutex. Qed.
Print Assumptions C05_body_mutex.

(* ... and once the marker exists the body never begins again - WHATEVER the schedulers are doing (no hypothesis on
   their program counters): a process already launched by a scheduler that lost the race skips its body *)
Theorem C05_no_rerun_after_success : forall st tr st', reachable st -> done st = true -> steps st tr st' ->
  (forall p, ~ In (LBegin p) tr) /\ body_runs st' = body_runs st.
Proof. exact no_rerun_after_success. Qed.
Print Assumptions C05_no_rerun_after_success.

(* (b) "never launched again".  Once the marker exists nothing is launched any more by any scheduler instance,
   present or future, EXCEPT those that already hold the job lock and have passed the marker test made under it
   (snolaunch = every program counter but STrunc / SWrite / SSpawn) - a later experiment (the _later form), an
   instance still in aio_submit, one waiting to be READY, one waiting for the job lock.  This needs the repaired
   aio_start (marker tested again once the lock is held); the record of the pinned code is
   C05_launch_after_marker_refuted.  Arbitrary prior contents, arbitrary processes, crashes and kills included.
   The protection of the BODY does not rest on this: C05_no_rerun_after_success above has no hypothesis on the
   schedulers.                                                                                              *)
Theorem C05_done_never_launched : forall st tr st', done st = true ->
  (forall s, snolaunch (scheds st s) = true) -> steps st tr st' ->
  launches st' = launches st /\ (forall s, ~ In (LSpawn s) tr).
Proof. exact done_never_launched. Qed.
Print Assumptions C05_done_never_launched.

Theorem C05_done_never_launched_later : forall st tr st', done st = true ->
  (forall s, sover (scheds st s) = true) -> steps st tr st' -> launches st' = launches st.
Proof. exact done_never_launched_later. Qed.
Print Assumptions C05_done_never_launched_later.

(* record of the pinned aio_start (no test under the lock; first shown by the audit): marker present, scheduler 1
   waiting for the job lock after both of its marker tests: it launched a second process (launches 1 -> 2), which
   found the marker under the lock and skipped the body (body_runs stays 1) - and the launch truncated the output
   files of the run that had succeeded *)
Theorem C05_launch_after_marker_refuted : exists st st',
  run_labels_prefix tr_lam_1 fresh = Some st /\ done st = true /\ scheds st 1 = SLock /\
  run_labels_prefix tr_lam_2 st = Some st' /\
  launches st = 1 /\ launches st' = 2 /\ body_runs st = 1 /\ body_runs st' = 1 /\ scheds st' 1 = SFinal VDone.
Proof. exact launch_after_marker_refuted. Qed.
Print Assumptions C05_launch_after_marker_refuted.

(* DONE in a scheduler means the marker exists - N schedulers, crashes, kills; needs the repaired script writer
   (temporary file + rename): no job process ever executes an empty script                                  *)
Theorem C05_done_truthful : forall st, reachable st -> forall s, scheds st s = SFinal VDone -> done st = true.
Proof. exact done_truthful. Qed.
Print Assumptions C05_done_truthful.

(* record of the defect of the pinned commit (script rewritten in place): scheduler 1 empties <name>.py while the
   process started by scheduler 0 has not read it yet; it exits 0; scheduler 0 reports DONE, no marker, no body *)
Theorem C05_truncated_script_refuted : exists st,
  run_labels_prefix tr_truncated fresh = Some st /\
  scheds st 0 = SFinal VDone /\ done st = false /\ body_runs st = 0 /\ procs st 0 = PExit XNop.
Proof. exact truncated_script_refuted. Qed.
Print Assumptions C05_truncated_script_refuted.

(* the same for every job of an experiment with dependencies *)
Theorem C05_body_mutex_all_jobs : forall deps g, greachable deps g -> forall j, body_active (jd g j) <= 1.
Proof. exact body_mutex_all_jobs. Qed.
Print Assumptions C05_body_mutex_all_jobs.
