(* C05 - a task configuration is executed at most once per successful result.
   Statements only; every proof is `exact <lemma>`.
   Assumed, not proved: the lock on <name>.lock is exclusive between processes and dies with
   its holder (the shape of the Lock/Unlock/Crash/Kill transitions of model/JobDir.v).       *)
From Coq Require Import List Bool Arith ZArith.
From XV Require Import model.JobDir proofs.JobDir_lemmas.
Import ListNotations.

(* (a) registry.  After any history of submissions (duplicates anywhere, re-submissions after a
   failure) and state changes: submitting a configuration whose identifier belongs to an earlier
   job object that is not failed returns that job and changes nothing (no job object, no
   registration, no counter).                                                                  *)
Theorem C05_registry_unique : forall h r out i j,
  run_reg h reg0 = (r, out) ->
  j < r_next r -> r_ident r j = i -> jst_error (r_state r j) = false ->
  submit r i = (r, j).
Proof. exact registry_unique. Qed.
Print Assumptions C05_registry_unique.

(* at any time at most one job object per identifier is not failed *)
Theorem C05_registry_live_le_1 : forall h r out i,
  run_reg h reg0 = (r, out) -> length (live_of r i) <= 1.
Proof. exact registry_live_le_1. Qed.
Print Assumptions C05_registry_live_le_1.

(* record of the defect of the pinned commit (aio_registerJob left the failed job in the registry
   on re-submission): a third submission created a third job although the second was not failed *)
Theorem C05_registry_prefix_refuted : exists h r out i j,
  run_reg_prefix h reg0 = (r, out) /\
  j < r_next r /\ r_ident r j = i /\ jst_error (r_state r j) = false /\
  snd (submit_prefix r i) <> j /\ r_next (fst (submit_prefix r i)) = S (r_next r).
Proof. exact registry_prefix_refuted. Qed.
Print Assumptions C05_registry_prefix_refuted.

(* (b) a job whose success marker exists is never launched by instances that have not yet decided
   to start it - in particular by any later experiment; whatever else is in the directory,
   whatever processes exist, any number of schedulers, crashes and kills included               *)
Theorem C05_done_never_launched : forall st tr st', done st = true ->
  (forall s, snolaunch (scheds st s) = true) -> steps st tr st' ->
  launches st' = launches st /\ (forall s, ~ In (LSpawn s) tr).
Proof. exact done_never_launched. Qed.
Print Assumptions C05_done_never_launched.

Theorem C05_done_never_launched_later : forall st tr st', done st = true ->
  (forall s, sover (scheds st s) = true) -> steps st tr st' -> launches st' = launches st.
Proof. exact done_never_launched_later. Qed.
Print Assumptions C05_done_never_launched_later.

(* (c) N schedulers competing for one job, each of which may die between any two effects and be
   started again, job processes that may be killed anywhere: never two processes in the body *)
Theorem C05_body_mutex : forall st, reachable st ->
  body_active st <= 1 /\ (forall p q, procs st p = PBody -> procs st q = PBody -> p = q).
Proof. exact body_mutex. Qed.
Print Assumptions C05_body_mutex.

(* ... and once the marker exists the body never begins again *)
Theorem C05_no_rerun_after_success : forall st tr st', reachable st -> done st = true -> steps st tr st' ->
  (forall p, ~ In (LBegin p) tr) /\ body_runs st' = body_runs st.
Proof. exact no_rerun_after_success. Qed.
Print Assumptions C05_no_rerun_after_success.

(* the same for every job of an experiment with dependencies *)
Theorem C05_body_mutex_all_jobs : forall deps g, greachable deps g -> forall j, body_active (jd g j) <= 1.
Proof. exact body_mutex_all_jobs. Qed.
Print Assumptions C05_body_mutex_all_jobs.
