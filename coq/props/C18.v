(* C18 - a launcher request only matches hosts that satisfy it.
   Statements only; every proof is `exact <lemma>`.                       *)
From Coq Require Import ZArith List Permutation.
From XV Require Import model.Launcher model.LauncherParse proofs.Launcher_lemmas proofs.LauncherParse_lemmas.
Import ListNotations.
Open Scope Z_scope.

(* match() answers Some exactly on the hosts that satisfy the request *)
Theorem C18_match_sound : forall r h s, match_simple r h = Some s -> satisfies r h.
Proof. exact match_sound. Qed.
Print Assumptions C18_match_sound.

Theorem C18_match_iff : forall r h s, match_simple r h = Some s <-> (satisfies r h /\ s = h_prio h).
Proof. exact match_simple_iff. Qed.
Print Assumptions C18_match_iff.

(* the "only if" of the property in its own words: the requested GPUs can be assigned to distinct GPUs of the
   host that are large enough, the host has the CPU memory and the cores, and allows the duration.
   (C18_match_iff above is exact for the POSITIONAL reading `satisfies` only: see C18_match_positional_refuted) *)
Theorem C18_match_only_if : forall r h s, match_simple r h = Some s ->
  offers_gpus r h /\ c_mem (r_cpu r) <= c_mem (h_cpu h) /\ c_cores (r_cpu r) <= c_cores (h_cpu h) /\
  (0 < h_maxdur h -> r_dur r <= h_maxdur h).
Proof. exact match_only_if. Qed.
Print Assumptions C18_match_only_if.

(* alternatives are tried in the order given *)
Theorem C18_union_first : forall rs h, union_match rs h = first_match rs h 0%nat.
Proof. exact union_first. Qed.
Print Assumptions C18_union_first.

Theorem C18_union_sound : forall rs h k s,
  union_match rs h = Some (k, s) ->
  exists r, nth_error rs k = Some r /\ satisfies r h /\
    (forall j' r', (j' < k)%nat -> nth_error rs j' = Some r' -> match_simple r' h = None).
Proof. exact union_sound. Qed.
Print Assumptions C18_union_sound.

(* LauncherRegistry.find with a launchers.py that goes through its hosts in order: the launcher is for the
   first alternative (over all arguments of find, in the order given) that some host satisfies, on the first
   host that satisfies it -- a later alternative never wins because an earlier host happens to fit it *)
Theorem C18_registry_first : forall args hs i j,
  registry_find args hs = Some (i, j) ->
  exists r h, nth_error (all_alts args) i = Some r /\ nth_error hs j = Some h /\ satisfies r h /\
    (forall i' r' h', (i' < i)%nat -> nth_error (all_alts args) i' = Some r' -> In h' hs -> ~ satisfies r' h') /\
    (forall j' h', (j' < j)%nat -> nth_error hs j' = Some h' -> ~ satisfies r h').
Proof. exact registry_first. Qed.
Print Assumptions C18_registry_first.

Theorem C18_registry_none : forall args hs,
  registry_find args hs = None <-> (forall r h, In r (all_alts args) -> In h hs -> ~ satisfies r h).
Proof. exact registry_none. Qed.
Print Assumptions C18_registry_none.

(* no host to ask, no launcher (a launchers.py without find_launcher(); the absence of launchers.py is the documented
   default "local host" and is outside the model: there is no host description to match against) *)
Theorem C18_registry_no_host : forall args, registry_find args [] = None.
Proof. exact registry_no_host. Qed.
Print Assumptions C18_registry_no_host.

(* one string with |, several strings, objects, objects built with |, or a mix: same answer *)
Theorem C18_registry_grouping : forall args args' hs,
  all_alts args = all_alts args' -> registry_find args hs = registry_find args' hs.
Proof. exact registry_grouping. Qed.
Print Assumptions C18_registry_grouping.

(* ---- a request given as text (character-level grammar of parser.py, model/LauncherParse.v) ---- *)
(* every well-formed expression (numbers not negative, brackets and alternatives not empty, cuda(..) holds mem=
   items, cpu(..) mem= and cores= items), written canonically, is read back as that very expression *)
Theorem C18_print_parse : forall e, wf_expr e -> parse_req (pr_expr e) = Some e.
Proof. exact print_parse. Qed.
Print Assumptions C18_print_parse.

(* the objects cpu(..) / cuda_gpu(..) * n / duration(..) combined with & (copies made as specs.py makes them, store
   with aliasing) have the value the visitor computes for the alternative *)
Theorem C18_prog_value_sem : forall ts, ts <> [] -> prog_value ts = sem_spec ts.
Proof. exact prog_value_sem. Qed.
Print Assumptions C18_prog_value_sem.

(* the clause "a request given as text means the same as the one built programmatically":
   for the canonical text of every expression ... *)
Theorem C18_text_programmatic : forall e, wf_expr e -> text_reqs (pr_expr e) = Some (map prog_value e).
Proof. exact text_programmatic. Qed.
Print Assumptions C18_text_programmatic.

(* ... and for EVERY text the grammar accepts, whatever its spacing: it means what the objects it names mean *)
Theorem C18_text_means_programmatic : forall t e,
  parse_req t = Some e -> text_reqs t = Some (map prog_value e).
Proof. exact text_means_programmatic. Qed.
Print Assumptions C18_text_means_programmatic.

(* so the text and the object get the same answer from every host and from every site *)
Theorem C18_text_same_answers : forall e, wf_expr e ->
  exists rs, text_reqs (pr_expr e) = Some rs /\ rs = map prog_value e /\
    (forall h, union_match rs h = union_match (map prog_value e) h) /\
    (forall hs, registry_find [(false, rs)] hs = registry_find [(false, map prog_value e)] hs).
Proof. exact text_same_answers. Qed.
Print Assumptions C18_text_same_answers.

(* C18_union_sound and C18_registry_first read for a textual request *)
Theorem C18_text_match : forall t rs h k s, text_reqs t = Some rs -> union_match rs h = Some (k, s) ->
  exists r, nth_error rs k = Some r /\ satisfies r h /\
    (forall j' r', (j' < k)%nat -> nth_error rs j' = Some r' -> match_simple r' h = None).
Proof. exact text_match. Qed.
Print Assumptions C18_text_match.

Theorem C18_text_registry : forall t rs hs i j, text_reqs t = Some rs ->
  registry_find [(false, rs)] hs = Some (i, j) ->
  exists r h, nth_error rs i = Some r /\ nth_error hs j = Some h /\ satisfies r h /\
    (forall i' r' h', (i' < i)%nat -> nth_error rs i' = Some r' -> In h' hs -> ~ satisfies r' h') /\
    (forall j' h', (j' < j)%nat -> nth_error hs j' = Some h' -> ~ satisfies r h').
Proof. exact text_registry. Qed.
Print Assumptions C18_text_registry.

(* observations: empty brackets are rejected, by the grammar before fixes/C18-2 and after it
   (cuda(), cpu(), cuda() * 2 -- the last one was a TypeError of the visitor) *)
Theorem C18_empty_brackets_rejected :
  parse_req t_cuda_empty = None /\ parse_req t_cpu_empty = None /\ parse_req t_cuda_empty_mult = None /\
  parse_req_prefix t_cuda_empty = None /\ parse_req_prefix t_cpu_empty = None /\
  parse_req_prefix t_cuda_empty_mult = None.
Proof. exact empty_brackets_rejected. Qed.
Print Assumptions C18_empty_brackets_rejected.

(* & and * never alter their operands, and compute the documented combination *)
Theorem C18_and_pure : forall st a b st' n,
  valid st a -> valid st b -> and_op st a b = (st', n) ->
  view st' a = view st a /\ view st' b = view st b /\ view st' n = add_req (view st a) (view st b).
Proof. exact and_op_pure. Qed.
Print Assumptions C18_and_pure.

Theorem C18_mul_pure : forall st a count st' n,
  valid st a -> mul_op st a count = (st', n) ->
  view st' a = view st a /\ view st' n = mul_req (view st a) count.
Proof. exact mul_op_pure. Qed.
Print Assumptions C18_mul_pure.

(* records of the two defects of the pinned commit (repaired by fix: commits) *)
Theorem C18_match_conj_refuted : exists r h s, match_simple_conj r h = Some s /\ ~ satisfies r h.
Proof. exact match_conj_refuted. Qed.
Print Assumptions C18_match_conj_refuted.

Theorem C18_and_shallow_refuted : exists st a b, valid st a /\ valid st b /\
  view (fst (and_op_shallow st a b)) a <> view st a.
Proof. exact and_shallow_refuted. Qed.
Print Assumptions C18_and_shallow_refuted.

(* handing all the alternatives to find_launcher as one union ("each host, then each alternative") lets a
   later alternative win although the first one is satisfiable *)
Theorem C18_registry_hostfirst_refuted : exists args hs i j i' j',
  registry_find args hs = Some (i, j) /\ registry_find_hostfirst args hs = Some (i', j') /\ (i < i')%nat.
Proof. exact registry_hostfirst_refuted. Qed.
Print Assumptions C18_registry_hostfirst_refuted.

(* registry.py read literally keeps an object built with | as one spec: the programmatic a | b then does not
   mean what the text "a | b" means (it agrees with registry_find on strings and simple objects) *)
Theorem C18_registry_union_object_refuted : exists alts hs,
  registry_find_objects [(true, alts)] hs <> registry_find_objects [(false, alts)] hs.
Proof. exact registry_union_object_refuted. Qed.
Print Assumptions C18_registry_union_object_refuted.

Theorem C18_registry_objects_simple : forall args hs,
  (forall a, In a args -> fst a = false) -> registry_find_objects args hs = registry_find args hs.
Proof. exact registry_objects_simple. Qed.
Print Assumptions C18_registry_objects_simple.

(* match() is not complete for the natural reading: it pairs the i-th smallest request with the i-th GPU in the
   order the host lists them, so the answer depends on that order (two GPUs of 20 on a host listing 8, 24, 24:
   refused; listing 24, 24, 8: accepted).  Not required by the property (which is an "only if"). *)
Theorem C18_match_positional_refuted : exists r h h',
  Permutation (h_cuda h) (h_cuda h') /\ offers_gpus r h /\ offers_gpus r h' /\
  match_simple r h = None /\ match_simple r h' <> None.
Proof. exact match_positional_refuted. Qed.
Print Assumptions C18_match_positional_refuted.

(* the grammar before fixes/C18-2 (ZeroOrMore in the brackets): `cuda() cpu(cores=2)` -- operator forgotten -- was
   accepted and meant cpu(cores=2) alone: a term with empty brackets vanished *)
Theorem C18_empty_brackets_dropped_refuted :
  parse_req_prefix t_dropped = Some [[TCpu [ICores 2]]] /\ parse_req t_dropped = None.
Proof. exact empty_brackets_dropped_refuted. Qed.
Print Assumptions C18_empty_brackets_dropped_refuted.
