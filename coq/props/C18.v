(* C18 - a launcher request only matches hosts that satisfy it.
   Statements only; every proof is `exact <lemma>`.                       *)
From Coq Require Import ZArith List.
From XV Require Import model.Launcher proofs.Launcher_lemmas.
Import ListNotations.
Open Scope Z_scope.

(* match() answers Some exactly on the hosts that satisfy the request *)
Theorem C18_match_sound : forall r h s, match_simple r h = Some s -> satisfies r h.
Proof. exact match_sound. Qed.
Print Assumptions C18_match_sound.

Theorem C18_match_iff : forall r h s, match_simple r h = Some s <-> (satisfies r h /\ s = h_prio h).
Proof. exact match_simple_iff. Qed.
Print Assumptions C18_match_iff.

(* alternatives are tried in the order given *)
Theorem C18_union_first : forall rs h, union_match rs h = first_match rs h 0%nat.
Proof. exact union_first. Qed.
Print Assumptions C18_union_first.

Theorem C18_union_sound : forall rs h k s,
  union_match rs h = Some (k, s) ->
  exists r, nth_error rs k = Some r /\ satisfies r h /\
    (forall j' r', (j' < k)%nat -> nth_error rs j' = Some r' -> match_simple r' h = None).
Proof. exact union_sound. Qed.
Print Assumptions C18_union_sound.

(* & and * never alter their operands, and compute the documented combination *)
Theorem C18_and_pure : forall st a b st' n,
  valid st a -> valid st b -> and_op st a b = (st', n) ->
  view st' a = view st a /\ view st' b = view st b /\ view st' n = add_req (view st a) (view st b).
Proof. exact and_op_pure. Qed.
Print Assumptions C18_and_pure.

Theorem C18_mul_pure : forall st a count st' n,
  valid st a -> mul_op st a count = (st', n) ->
  view st' a = view st a /\ view st' n = mul_req (view st a) count.
Proof. exact mul_op_pure. Qed.
Print Assumptions C18_mul_pure.

(* records of the two defects of the pinned commit (repaired by fix: commits) *)
Theorem C18_match_conj_refuted : exists r h s, match_simple_conj r h = Some s /\ ~ satisfies r h.
Proof. exact match_conj_refuted. Qed.
Print Assumptions C18_match_conj_refuted.

Theorem C18_and_shallow_refuted : exists st a b, valid st a /\ valid st b /\
  view (fst (and_op_shallow st a b)) a <> view st a.
Proof. exact and_shallow_refuted. Qed.
Print Assumptions C18_and_shallow_refuted.
