(* C09 - tokens are always given back and waiting jobs eventually run.
   Statements only; every proof is `exact <lemma>`.  Model: model/TokenFS.v.
   VF is the repaired code (fixes/C09-1..3 and C11-2), VL the literal code of the pinned commit. *)
From Coq Require Import ZArith List.
From XV Require Import model.TokenFS proofs.TokenFS_lemmas.
Import ListNotations.
Open Scope Z_scope.

(* whatever way the job ended (aborted start = Holding, success or failure = Ended), the
   release is possible, and afterwards the holding is gone from the directory and from the
   memory of the releasing process, whose `available` is exactly total - holdings          *)
Theorem C09_release_enabled : forall V C s p j,
  reachable V C s -> p_alive (s_procs s p) = true -> c_owner C j = p -> j_orph (s_jobs s j) = false ->
  j_ph (s_jobs s j) = Holding \/ j_ph (s_jobs s j) = Ended -> s_lock s = None ->
  exists s' r, step V C s (Release p j) = Some (s', r).
Proof. exact release_enabled. Qed.
Print Assumptions C09_release_enabled.

Theorem C09_release_on_every_exit : forall V C s p j s' r,
  reachable V C s -> step V C s (Release p j) = Some (s', r) ->
  s_disk s' j = Absent /\ p_cache (s_procs s' p) j = None /\
  p_avail (s_procs s' p) = c_total C - held_sum C s' /\
  ((j_ph (s_jobs s j) = Holding /\ j_ph (s_jobs s' j) = Idle) \/
   (j_ph (s_jobs s j) = Ended /\ j_ph (s_jobs s' j) = Done)).
Proof. exact release_on_every_exit. Qed.
Print Assumptions C09_release_on_every_exit.

(* repaired code: no handler ever ends the observer thread *)
Theorem C09_observer_survives : forall C s p,
  (forall j, 1 <= c_cnt C j) -> reachable VF C s -> p_alive (s_procs s p) = true -> p_obs (s_procs s p) = true.
Proof. exact observer_survives. Qed.
Print Assumptions C09_observer_survives.

(* at quiescence every live process shows the full capacity and knows no file; what is left
   in the directory belongs to ended jobs whose scheduler died and that no live process has
   seen yet (crash_reclaim_restart: whoever recounts next watches them)                   *)
Theorem C09_idle_full : forall C s,
  (forall j, 1 <= c_cnt C j) -> reachable VF C s -> quiescent s ->
  (forall p, p_alive (s_procs s p) = true ->
     p_avail (s_procs s p) = c_total C /\ forall k, p_cache (s_procs s p) k = None) /\
  (forall k, s_disk s k <> Absent ->
     j_ph (s_jobs s k) = Ended /\ j_orph (s_jobs s k) = true /\
     forall q, p_alive (s_procs s q) = true -> p_cache (s_procs s q) k = None).
Proof. exact idle_full. Qed.
Print Assumptions C09_idle_full.

Theorem C09_idle_no_file : forall C s,
  (forall j, 1 <= c_cnt C j) -> reachable VF C s -> quiescent s -> (forall j, j_orph (s_jobs s j) = false) ->
  forall k, s_disk s k = Absent.
Proof. exact idle_no_file. Qed.
Print Assumptions C09_idle_no_file.

(* death of the scheduler: every live process that knows the file of such a job has a
   watcher thread for it (or a pending deletion event for a stale entry of that name); the
   thread can run once the job has ended and then the file is gone; a process that starts
   watches every file it finds                                                           *)
Theorem C09_crash_reclaim : forall C s q k,
  (forall j, 1 <= c_cnt C j) -> reachable VF C s -> p_alive (s_procs s q) = true -> p_cache (s_procs s q) k <> None ->
  s_disk s k <> Absent -> j_orph (s_jobs s k) = true ->
  In k (p_wat (s_procs s q)) \/ In (EDeleted k) (p_evq (s_procs s q)).
Proof. exact crash_reclaim. Qed.
Print Assumptions C09_crash_reclaim.

(* (Ended = the job process is gone: after an orderly end, pid file removed, or after a kill,
   stale pid file left behind - j_pid is not constrained)                                 *)
Theorem C09_crash_reclaim_fires : forall V C s q k,
  reachable V C s ->
  p_alive (s_procs s q) = true -> In k (p_wat (s_procs s q)) -> j_ph (s_jobs s k) = Ended ->
  exists s', step V C s (Fire q k) = Some (s', ROk) /\ s_disk s' k = Absent.
Proof. exact crash_reclaim_fires. Qed.
Print Assumptions C09_crash_reclaim_fires.

Theorem C09_crash_reclaim_restart : forall V C s p s' r k,
  reachable V C s -> step V C s (Start p) = Some (s', r) -> s_disk s k <> Absent ->
  In k (p_wat (s_procs s' p)) /\ p_alive (s_procs s' p) = true.
Proof. exact crash_reclaim_restart. Qed.
Print Assumptions C09_crash_reclaim_restart.

(* "eventually launched" as absence of stuck states: in a quiescent state no job of a live
   scheduler whose observer is alive is WAITING on the token with a request that fits      *)
Theorem C09_eventual_launch : forall C s p j,
  (forall j, 1 <= c_cnt C j) -> reachable VF C s -> quiescent s -> p_obs (s_procs s p) = true ->
  ~ waiting_fits C s p j.
Proof. exact eventual_launch. Qed.
Print Assumptions C09_eventual_launch.

(* the pinned commit: three ways to violate the property (finite witnesses, vm_compute) *)
Theorem C09_observer_death_refuted : exists C tr s p j,
  run VL C init tr = Some s /\ quiescent s /\ waiting_fits C s p j /\ p_obs (s_procs s p) = false.
Proof. exact observer_death_refuted. Qed.
Print Assumptions C09_observer_death_refuted.

Theorem C09_release_unnotified_refuted : exists C tr s p j,
  run VL C init tr = Some s /\ quiescent s /\ waiting_fits C s p j /\ p_obs (s_procs s p) = true.
Proof. exact release_unnotified_refuted. Qed.
Print Assumptions C09_release_unnotified_refuted.

Theorem C09_idle_overfull_refuted : exists C tr s p,
  run VL C init tr = Some s /\ quiescent s /\ p_alive (s_procs s p) = true /\ p_obs (s_procs s p) = true /\
  c_total C < p_avail (s_procs s p).
Proof. exact idle_overfull_refuted. Qed.
Print Assumptions C09_idle_overfull_refuted.

(* start-up race of the code before fixes/C11-2 (the three C09 repairs applied): the watcher
   thread started by __init__'s _update deletes a stale token file before the directory watch
   is installed; StartRace is proved harmless for the repaired start-up by C09_eventual_launch *)
Theorem C09_restart_race_refuted : exists C tr s p j,
  run (mkV true true true false) C init tr = Some s /\ quiescent s /\ waiting_fits C s p j /\ p_obs (s_procs s p) = true.
Proof. exact restart_race_refuted. Qed.
Print Assumptions C09_restart_race_refuted.
