(* C09 - tokens are always given back and waiting jobs eventually run.
   Statements only; every proof is `exact <lemma>`.  Model: model/TokenFS.v.
   VF is the repaired code (fixes/C09-1..3 and C11-2), VL the literal code of the pinned commit. *)
From Coq Require Import ZArith List.
From XV Require Import model.TokenFS proofs.TokenFS_lemmas.
Import ListNotations.
Open Scope Z_scope.

(* [sanity: enabling conditions read back] with the repaired _update the token stays usable
   whatever is left in the directory - also the empty file of a scheduler killed between
   open() and write(): a release (after an aborted start = Holding, success or failure = Ended)
   and the start of a new scheduler only need token.lock                                   *)
Theorem C09_release_enabled : forall V C s p j,
  v_empty V = true -> p_alive (s_procs s p) = true -> c_owner C j = p -> j_orph (s_jobs s j) = false ->
  j_ph (s_jobs s j) = Holding \/ j_ph (s_jobs s j) = Ended -> s_lock s = None ->
  exists s' r, step V C s (Release p j) = Some (s', r).
Proof. exact release_enabled. Qed.
Print Assumptions C09_release_enabled.

Theorem C09_start_enabled : forall V C s p,
  v_empty V = true -> p_alive (s_procs s p) = false -> s_lock s = None ->
  exists s', step V C s (Start p) = Some (s', ROk) /\ p_alive (s_procs s' p) = true.
Proof. exact start_enabled. Qed.
Print Assumptions C09_start_enabled.

(* the half-created file is reclaimed: a starting scheduler leaves no unwritten file; after an
   acquire or release the only unwritten files left are the one being created now and those
   the process still had in cache under the same name (dropped with their pending event)    *)
Theorem C09_start_reclaims : forall V C s p s' r k,
  v_empty V = true -> step V C s (Start p) = Some (s', r) -> s_disk s' k <> Empty.
Proof. exact start_reclaims. Qed.
Print Assumptions C09_start_reclaims.

Theorem C09_recount_reclaims : forall V C s l p j s' r k,
  v_empty V = true -> l = Acquire p j \/ l = Release p j -> step V C s l = Some (s', r) ->
  s_disk s' k = Empty -> s_lock s' = Some k \/ p_cache (s_procs s p) k <> None.
Proof. exact recount_reclaims. Qed.
Print Assumptions C09_recount_reclaims.

Theorem C09_release_on_every_exit : forall V C s p j s' r,
  v_fire V = true -> reachable V C s -> step V C s (Release p j) = Some (s', r) ->
  s_disk s' j = Absent /\ p_cache (s_procs s' p) j = None /\
  p_avail (s_procs s' p) = c_total C - held_sum C s' /\
  ((j_ph (s_jobs s j) = Holding /\ j_ph (s_jobs s' j) = Idle) \/
   (j_ph (s_jobs s j) = Ended /\ j_ph (s_jobs s' j) = Done)).
Proof. exact release_on_every_exit. Qed.
Print Assumptions C09_release_on_every_exit.

(* repaired code: no handler ever ends the observer thread *)
Theorem C09_observer_survives : forall C s p,
  (forall j, 1 <= c_cnt C j) -> reachable VF C s -> p_alive (s_procs s p) = true -> p_obs (s_procs s p) = true.
Proof. exact observer_survives. Qed.
Print Assumptions C09_observer_survives.

(* at quiescence every live process shows the full capacity and knows no file; what is left
   in the directory belongs to ended jobs whose scheduler died and that no live process has
   seen yet (crash_reclaim_restart: whoever recounts next watches them)                   *)
Theorem C09_idle_full : forall C s,
  (forall j, 1 <= c_cnt C j) -> reachable VF C s -> quiescent s ->
  (forall p, p_alive (s_procs s p) = true ->
     p_avail (s_procs s p) = c_total C /\ forall k, p_cache (s_procs s p) k = None) /\
  (forall k, s_disk s k <> Absent ->
     j_ph (s_jobs s k) = Ended /\ j_orph (s_jobs s k) = true /\
     forall q, p_alive (s_procs s q) = true -> p_cache (s_procs s q) k = None).
Proof. exact idle_full. Qed.
Print Assumptions C09_idle_full.

Theorem C09_idle_no_file : forall C s,
  (forall j, 1 <= c_cnt C j) -> reachable VF C s -> quiescent s -> (forall j, j_orph (s_jobs s j) = false) ->
  forall k, s_disk s k = Absent.
Proof. exact idle_no_file. Qed.
Print Assumptions C09_idle_no_file.

(* death of the scheduler: every live process that knows the file of such a job has a
   watcher thread for it (or a pending deletion event for a stale entry of that name); the
   thread can run once the job has ended and then the file is gone; a process that starts
   watches every file it finds                                                           *)
Theorem C09_crash_reclaim : forall C s q k,
  (forall j, 1 <= c_cnt C j) -> reachable VF C s -> p_alive (s_procs s q) = true -> p_cache (s_procs s q) k <> None ->
  s_disk s k <> Absent -> j_orph (s_jobs s k) = true ->
  In k (p_wat (s_procs s q)) \/ In (EDeleted k) (p_evq (s_procs s q)).
Proof. exact crash_reclaim. Qed.
Print Assumptions C09_crash_reclaim.

(* (Ended = the job process is gone: after an orderly end, pid file removed, or after a kill,
   stale pid file left behind - j_pid is not constrained)                                 *)
Theorem C09_crash_reclaim_fires : forall V C s q k,
  v_fire V = true -> reachable V C s ->
  p_alive (s_procs s q) = true -> In k (p_wat (s_procs s q)) -> j_ph (s_jobs s k) = Ended ->
  exists s', step V C s (Fire q k) = Some (s', ROk) /\ s_disk s' k = Absent.
Proof. exact crash_reclaim_fires. Qed.
Print Assumptions C09_crash_reclaim_fires.

Theorem C09_crash_reclaim_restart : forall V C s p s' k c,
  v_fire V = true -> reachable V C s -> step V C s (Start p) = Some (s', ROk) -> s_disk s k = Written c ->
  In k (p_wat (s_procs s' p)) /\ p_alive (s_procs s' p) = true.
Proof. exact crash_reclaim_restart. Qed.
Print Assumptions C09_crash_reclaim_restart.

(* possibility: in a quiescent state with an empty directory every job of a live scheduler whose
   request fits can be launched at once (acquire succeeds, file written, process started).
   That a quiescent state is reached is the FAIRNESS ASSUMPTION (not proved): every pending
   event is eventually handled, every watcher thread eventually runs, every job process ends,
   every scheduler eventually releases what it took.                                        *)
Theorem C09_launch_possible : forall C s p j,
  (forall j, 1 <= c_cnt C j) -> reachable VF C s -> quiescent s -> (forall k, s_disk s k = Absent) ->
  p_alive (s_procs s p) = true -> (j < c_n C)%nat -> c_owner C j = p ->
  j_ph (s_jobs s j) = Idle -> j_orph (s_jobs s j) = false -> c_cnt C j <= c_total C ->
  exists s', run VF C s [Acquire p j; WriteF j; Launch j] = Some s' /\ j_ph (s_jobs s' j) = Running /\
             s_disk s' j = Written (c_cnt C j).
Proof. exact launch_possible. Qed.
Print Assumptions C09_launch_possible.

(* "eventually launched" as absence of stuck states: in a quiescent state no job of a live
   scheduler whose observer is alive is WAITING on the token with a request that fits      *)
Theorem C09_eventual_launch : forall C s p j,
  (forall j, 1 <= c_cnt C j) -> reachable VF C s -> quiescent s -> p_obs (s_procs s p) = true ->
  ~ waiting_fits C s p j.
Proof. exact eventual_launch. Qed.
Print Assumptions C09_eventual_launch.

(* defects of the pinned commit, each on the repaired code with that one repair taken out
   (the variants V_no_parse .. V_no_fire): finite witnesses, vm_compute *)
Theorem C09_observer_death_refuted : exists C tr s p j,
  run V_no_parse C init tr = Some s /\ quiescent s /\ waiting_fits C s p j /\ p_obs (s_procs s p) = false.
Proof. exact observer_death_refuted. Qed.
Print Assumptions C09_observer_death_refuted.

Theorem C09_release_unnotified_refuted : exists C tr s p j,
  run V_no_notify C init tr = Some s /\ quiescent s /\ waiting_fits C s p j /\ p_obs (s_procs s p) = true.
Proof. exact release_unnotified_refuted. Qed.
Print Assumptions C09_release_unnotified_refuted.

Theorem C09_idle_overfull_refuted : exists C tr s p,
  run V_no_count C init tr = Some s /\ quiescent s /\ p_alive (s_procs s p) = true /\ p_obs (s_procs s p) = true /\
  c_total C < p_avail (s_procs s p).
Proof. exact idle_overfull_refuted. Qed.
Print Assumptions C09_idle_overfull_refuted.

(* start-up race of the code before fixes/C11-2 (the three C09 repairs applied): the watcher
   thread started by __init__'s _update deletes a stale token file before the directory watch
   is installed; StartRace is proved harmless for the repaired start-up by C09_eventual_launch *)
Theorem C09_restart_race_refuted : exists C tr s p j,
  run V_no_watch C init tr = Some s /\ quiescent s /\ waiting_fits C s p j /\ p_obs (s_procs s p) = true.
Proof. exact restart_race_refuted. Qed.
Print Assumptions C09_restart_race_refuted.

(* a scheduler killed between open() and write() of its token file (code before fixes/C09-4):
   the empty file makes _update raise for ever: the READY job 1 of the live scheduler 1, whose
   request fits the unused token, cannot acquire, and no new scheduler can be started        *)
Theorem C09_kill_in_create_refuted : exists C tr s,
  run V_no_empty C init tr = Some s /\ quiescent s /\
  p_alive (s_procs s 1) = true /\ j_ph (s_jobs s 1) = Idle /\ j_ok (s_jobs s 1) = true /\ c_owner C 1%nat = 1%nat /\
  1 <= c_cnt C 1%nat <= c_total C /\ held_sum C s = c_cnt C 0%nat /\ j_ph (s_jobs s 0) = Ended /\
  step V_no_empty C s (Acquire 1 1) = None /\ step V_no_empty C s (Start 0) = Some (s, RRaised).
Proof. exact kill_in_create_refuted. Qed.
Print Assumptions C09_kill_in_create_refuted.
