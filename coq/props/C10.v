(* C10 - job directory markers stay truthful whenever the job process dies.
   Statements only; every proof is `exact <lemma>`.
   `launch v d o dth` = one launch of the job script on directory d: the scheduler writes the pid file,
   the runner (variant v: Fixed = with fixes/C10-1.diff, Prefix = the code as found) runs with body
   outcome o, and dies as dth says (None: it ends by itself; Some (g, k, c): signal g arrives when k
   effects of the undisturbed run have been performed, at a point of exception context c).
   Every statement holds for all k (unbounded) and all contexts c.                                   *)
From Coq Require Import ZArith List.
From XV Require Import model.Runner proofs.Runner_lemmas.
Import ListNotations.

(* whatever the instant and the kind of death: a success marker only if the body ran to completion,
   the lock is free once the process is gone (OS assumption made explicit in `die`), and a success
   marker that appears in this launch comes with a completed body of this launch                    *)
Theorem C10_kill_anywhere : forall v d o dth, Inv d ->
  Inv (launch v d o dth) /\
  (d_done (launch v d o dth) = true ->
     d_done d = true \/ (success o = true /\ d_completed (launch v d o dth) = S (d_completed d))).
Proof. exact kill_anywhere. Qed.
Print Assumptions C10_kill_anywhere.

(* SIGTERM / SIGINT while the body runs: failure marker, no success marker (and no pid file) *)
Theorem C10_term_in_body : forall v d o g c k,
  d_done d = false -> term_signal g -> in_body v o d k ->
  let d' := launch v d o (Some (g, k, c)) in
  d_done d' = false /\ d_failed d' <> None /\ d_pid d' = false /\
  (c = CTry -> d_failed d' = Some 1%Z).
Proof. exact term_in_body. Qed.
Print Assumptions C10_term_in_body.

(* a launch that is left alone executes the body exactly when there is no success marker *)
Theorem C10_relaunch_exact : forall v d o,
  let d' := launch v d o None in
  d_runs d' = (if d_done d then d_runs d else S (d_runs d)) /\
  d_done d' = (d_done d || success o)%bool.
Proof. exact relaunch_exact. Qed.
Print Assumptions C10_relaunch_exact.

(* ... and however it dies: never when the marker is there, never more than once *)
Theorem C10_relaunch_done_skips : forall v d o dth,
  d_done d = true ->
  let d' := launch v d o dth in
  d_done d' = true /\ d_runs d' = d_runs d /\ d_completed d' = d_completed d.
Proof. exact relaunch_done_skips. Qed.
Print Assumptions C10_relaunch_done_skips.

Theorem C10_relaunch_at_most_once : forall v d o dth,
  let d' := launch v d o dth in
  d_runs d' = d_runs d \/ (d_done d = false /\ d_runs d' = S (d_runs d)).
Proof. exact relaunch_at_most_once. Qed.
Print Assumptions C10_relaunch_at_most_once.

(* a run that ends by itself - success, exception, sys.exit(c), other BaseException - leaves no pid
   file (repaired runner) and has released the lock by its own code                                  *)
Theorem C10_own_exit_no_pid : forall d o, d_pid (launch Fixed d o None) = false.
Proof. exact own_exit_no_pid. Qed.
Print Assumptions C10_own_exit_no_pid.

Theorem C10_own_exit_unlocks : forall d o, In Unlock (effects Fixed o None d).
Proof. exact own_exit_unlocks. Qed.
Print Assumptions C10_own_exit_unlocks.

(* any finite sequence of launches, each with any outcome and any death *)
Theorem C10_histories : forall v l d, Inv d -> Inv (history v d l).
Proof. exact histories. Qed.
Print Assumptions C10_histories.

Theorem C10_histories_fresh : forall v l,
  let d := history v fresh l in
  Inv d /\
  (forall o, d_runs (launch v d o None) = (if d_done d then d_runs d else S (d_runs d))).
Proof. exact histories_fresh. Qed.
Print Assumptions C10_histories_fresh.

(* record of the defect of the pinned commit: the literal runner keeps the pid file after a success *)
Theorem C10_pid_left_on_success_refuted :
  exists d o, Inv d /\ success o = true /\ d_pid (launch Prefix d o None) = true.
Proof. exact pid_left_on_success_refuted. Qed.
Print Assumptions C10_pid_left_on_success_refuted.

Theorem C10_prefix_pid_left_only_on_return : forall d o,
  d_pid (launch Prefix d o None) = true -> d_done d = false /\ o = OOk.
Proof. exact prefix_pid_left_only_on_return. Qed.
Print Assumptions C10_prefix_pid_left_only_on_return.
