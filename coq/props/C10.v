(* C10 - job directory markers stay truthful whenever the job process dies.
   Statements only; every proof is `exact <lemma>`.
   `launch v d o dth` = one launch of the job script on directory d: the scheduler writes the pid file,
   the runner (variant v) runs with body outcome o, and dies as dth says (None: it ends by itself;
   Some (g, k, c): signal g arrives when k effects of the undisturbed run have been performed, at a
   point of exception context c).  Variants: Prefix = the code of the pinned commit, Fixed = with
   fixes/C10-1.diff (the code of /repo 3854c75), Guarded = with fixes/C10-2.diff as well (the failure
   marker and the pid file are touched only by a runner that has the run lock).
   `launch2 v d o dth j` = the same with a second death, SIGKILL after j effects of what the first
   signal set off.  `double v d oh ow dw dh` = two processes for one job: H is in its body with the run
   lock, W does what precedes lock.acquire and dies as dw says, then H goes on and ends as dh says.
   Every statement holds for all k, j (unbounded) and all contexts c.                                 *)
From Coq Require Import ZArith List.
From XV Require Import model.Runner proofs.Runner_lemmas.
Import ListNotations.

(* whatever the instant and the kind of death: a success marker only if the body ran to completion
   (Truthful = the two derived conjuncts of Inv), and a success marker that appears in this launch comes
   with a completed body of this launch.  Inv d, the hypothesis, also says that the lock is free when
   the launch starts.                                                                                  *)
Theorem C10_kill_anywhere : forall v d o dth, Inv d ->
  Truthful (launch v d o dth) /\
  (d_done (launch v d o dth) = true ->
     d_done d = true \/ (success o = true /\ d_completed (launch v d o dth) = S (d_completed d))).
Proof. exact kill_anywhere_truthful. Qed.
Print Assumptions C10_kill_anywhere.

(* ASSUMPTION, not a result: "the run lock dies with the process" is how the model ends a launch
   (`die` sets d_lock := false: the behaviour of fcntl locks); true by reflexivity.  It is stated here
   only so that nobody reads it into C10_kill_anywhere; the harness probes it after every death.      *)
Theorem C10_lock_free_after_death_is_the_models_assumption :
  forall v d o dth, d_lock (launch v d o dth) = false.
Proof. exact lock_free_after_death_by_definition. Qed.
Print Assumptions C10_lock_free_after_death_is_the_models_assumption.

(* SIGTERM / SIGINT while the body runs: failure marker, no success marker (and no pid file) *)
Theorem C10_term_in_body : forall v d o g c k,
  d_done d = false -> term_signal g -> in_body v o d k ->
  let d' := launch v d o (Some (g, k, c)) in
  d_done d' = false /\ d_failed d' <> None /\ d_pid d' = false /\
  (c = CTry -> d_failed d' = Some 1%Z).
Proof. exact term_in_body. Qed.
Print Assumptions C10_term_in_body.

(* a launch that is left alone executes the body exactly when there is no success marker *)
Theorem C10_relaunch_exact : forall v d o,
  let d' := launch v d o None in
  d_runs d' = (if d_done d then d_runs d else S (d_runs d)) /\
  d_done d' = (d_done d || success o)%bool.
Proof. exact relaunch_exact. Qed.
Print Assumptions C10_relaunch_exact.

(* ... and however it dies: never when the marker is there, never more than once *)
Theorem C10_relaunch_done_skips : forall v d o dth,
  d_done d = true ->
  let d' := launch v d o dth in
  d_done d' = true /\ d_runs d' = d_runs d /\ d_completed d' = d_completed d.
Proof. exact relaunch_done_skips. Qed.
Print Assumptions C10_relaunch_done_skips.

Theorem C10_relaunch_at_most_once : forall v d o dth,
  let d' := launch v d o dth in
  d_runs d' = d_runs d \/ (d_done d = false /\ d_runs d' = S (d_runs d)).
Proof. exact relaunch_at_most_once. Qed.
Print Assumptions C10_relaunch_at_most_once.

(* a run that ends by itself - success, exception, sys.exit(c), other BaseException - leaves no pid
   file (every repaired runner) ...                                                                  *)
Theorem C10_own_exit_no_pid : forall v d o, v <> Prefix -> d_pid (launch v d o None) = false.
Proof. exact own_exit_no_pid_v. Qed.
Print Assumptions C10_own_exit_no_pid.

(* ... and has given the lock back by its own code before the process is gone: the live process no
   longer holds it at the end of its run, and the release is the last thing it does                    *)
Theorem C10_own_exit_unlocks : forall v d o, v <> Prefix ->
  lock (run_effs (effects v o None d) (boot d)) = false /\
  last (effects v o None d) RegAtexit = Unlock.
Proof. exact own_exit_lock_released. Qed.
Print Assumptions C10_own_exit_unlocks.

(* any finite sequence of launches, each with any outcome and any death *)
Theorem C10_histories : forall v l d, Inv d -> Truthful (history v d l).
Proof. exact histories_truthful. Qed.
Print Assumptions C10_histories.

Theorem C10_histories_fresh : forall v l,
  let d := history v fresh l in
  Truthful d /\
  (forall o, d_runs (launch v d o None) = (if d_done d then d_runs d else S (d_runs d))).
Proof. exact histories_fresh_truthful. Qed.
Print Assumptions C10_histories_fresh.

(* ---------------------------------------------------------------- a second death of the same process *)
(* SIGKILL while the handler of the first signal (or the except clause / exit callback it leads to)
   runs: the success marker and the body counters are those of the first death alone, so every
   statement above about them carries over ...                                                       *)
Theorem C10_kill_in_handler_same_markers : forall v d o dth j,
  d_done (launch2 v d o dth j) = d_done (launch v d o (Some dth)) /\
  d_runs (launch2 v d o dth j) = d_runs (launch v d o (Some dth)) /\
  d_completed (launch2 v d o dth j) = d_completed (launch v d o (Some dth)) /\
  d_lock (launch2 v d o dth j) = false.
Proof. exact launch2_fields. Qed.
Print Assumptions C10_kill_in_handler_same_markers.

(* ... in particular along any sequence of launches that end by themselves, by one signal, or by two *)
Theorem C10_histories_any_fate : forall v l d, Inv d -> Truthful (historyf v d l).
Proof. exact histories_f. Qed.
Print Assumptions C10_histories_any_fate.

Theorem C10_relaunch_any_fate : forall v d o f,
  let d' := launchf v d o f in
  (d_done d = true -> d_done d' = true /\ d_runs d' = d_runs d /\ d_completed d' = d_completed d) /\
  (d_runs d' = d_runs d \/ (d_done d = false /\ d_runs d' = S (d_runs d))).
Proof. exact relaunch_f. Qed.
Print Assumptions C10_relaunch_any_fate.

(* ---------------------------------------------------------------- two processes for one job *)
(* the literal handler (code of /repo 3854c75) refuted: H's body succeeds undisturbed, W gets SIGTERM
   while it waits for the lock (its next effect would be Lock).  With H still in its body the directory
   shows a failure marker and no pid file; at the end both markers are there although the body ran
   once and succeeded.                                                                               *)
Theorem C10_waiter_marks_failed_refuted :
  exists d oh ow dw,
    Inv d /\ d_done d = false /\ success oh = true /\
    nth_error (trace Fixed ow d) 3 = Some Lock /\ dw = (STerm, 3, CTry) /\
    d_failed (double_mid Fixed d ow dw) = Some 1%Z /\ d_pid (double_mid Fixed d ow dw) = false /\
    d_lock (double_mid Fixed d ow dw) = true /\
    d_done (double Fixed d oh ow dw None) = true /\ d_failed (double Fixed d oh ow dw None) = Some 1%Z /\
    d_runs (double Fixed d oh ow dw None) = 1 /\ d_completed (double Fixed d oh ow dw None) = 1.
Proof. exact waiter_marks_failed_refuted. Qed.
Print Assumptions C10_waiter_marks_failed_refuted.

(* repaired handler: whatever signal W gets, wherever (any index: 0-2 before one of its three private
   steps, >= 3 waiting for the lock) and in whatever context, the directory when W is gone is the
   directory H's body started with: no failure marker, the pid file, the lock held, the counters    *)
Theorem C10_waiter_signal_changes_nothing : forall d ow dw, d_done d = false ->
  double_mid Guarded d ow dw = snap (at_body d).
Proof. exact waiter_silent. Qed.
Print Assumptions C10_waiter_signal_changes_nothing.

(* hence the double launch ends exactly like the launch of H alone, H dying (or not) at the same place:
   everything proved about `launch` holds for it - also when both processes die                       *)
Theorem C10_double_is_single : forall d oh ow dw dh, d_done d = false ->
  double Guarded d oh ow dw dh = launch Guarded d oh (shift d dh).
Proof. exact double_is_single. Qed.
Print Assumptions C10_double_is_single.

(* the markers of a double launch tell the truth about the one run of the body *)
Theorem C10_double_truthful : forall d oh ow dw, d_done d = false ->
  let d' := double Guarded d oh ow dw None in
  d_done d' = success oh /\
  (success oh = true -> d_failed d' = None) /\
  (success oh = false -> oh <> OBase -> d_failed d' <> None) /\
  d_pid d' = false /\
  d_runs d' = S (d_runs d) /\
  d_completed d' = (if success oh then S (d_completed d) else d_completed d).
Proof. exact double_truthful. Qed.
Print Assumptions C10_double_truthful.

Theorem C10_double_both_may_die : forall d oh ow dw dh, Inv d -> d_done d = false ->
  Truthful (double Guarded d oh ow dw dh) /\
  (d_done (double Guarded d oh ow dw dh) = true -> success oh = true).
Proof. exact double_inv. Qed.
Print Assumptions C10_double_both_may_die.

(* ---------------------------------------------------------------- a body that forks *)
(* `launch_f v fsafe d fk o dth`: the body forks once (fk = Some ce: how the child leaves - CQuit = os._exit,
   CExit c = sys.exit(c), CRaise = an exception) between its beginning and its end; the at-fork hook runs in the
   CHILD, the job process keeps its handlers and its exit callback; fsafe = true: with fixes/C10-3.diff the
   except clauses of TaskRunner.run re-raise in a process that is not the job.  wellbehaved fk: no fork, or a
   child that leaves through os._exit (multiprocessing).                                                      *)
Theorem C10_fork_none_is_plain : forall v fsafe d o dth, launch_f v fsafe d None o dth = launch v d o dth.
Proof. exact launch_f_none. Qed.
Print Assumptions C10_fork_none_is_plain.

(* literal code refuted (1): the child leaves with sys.exit(0) - the success marker is created by the child
   while the parent is in its body; SIGKILL of the parent then leaves a marker without a completed body, and
   the next launch skips the body                                                                         *)
Theorem C10_forked_child_exit0_refuted :
  exists d o k,
    Inv d /\ nth_error (trace_f Guarded false (Some (CExit 0)) o d) k = Some (BodyEnd true) /\
    let d' := launch_f Guarded false d (Some (CExit 0)) o (Some (SKill, k, CTry)) in
    d_done d' = true /\ d_completed d' = 0 /\ d_runs d' = 1 /\ ~ Truthful d' /\
    d_runs (launch Guarded d' OOk None) = 1 /\ d_completed (launch Guarded d' OOk None) = 0.
Proof. exact forked_child_exit0_refuted. Qed.
Print Assumptions C10_forked_child_exit0_refuted.

(* literal code refuted (2): the child leaves with sys.exit(3): it writes the failure marker and removes the
   pid file while the parent runs on; the parent succeeds undisturbed: both markers                        *)
Theorem C10_forked_child_failure_refuted :
  exists d ce o,
    Inv d /\ success o = true /\
    let d' := launch_f Guarded false d (Some ce) o None in
    d_done d' = true /\ d_failed d' = Some 3%Z /\ d_runs d' = 1 /\ d_completed d' = 1 /\
    d_pid (die (run_effs (firstn 9 (trace_f Guarded false (Some ce) o d)) (boot d))) = false.
Proof. exact forked_child_failure_refuted. Qed.
Print Assumptions C10_forked_child_failure_refuted.

(* repaired clauses (any child), or a child that leaves through os._exit (literal code too): whatever the
   instant and the kind of death of the job process, before or after the fork                              *)
Theorem C10_fork_kill_anywhere : forall v fsafe d fk o dth, Inv d -> (fsafe || wellbehaved fk)%bool = true ->
  Truthful (launch_f v fsafe d fk o dth) /\
  (d_done (launch_f v fsafe d fk o dth) = true ->
     d_done d = true \/ (success o = true /\ d_completed (launch_f v fsafe d fk o dth) = S (d_completed d))).
Proof. exact fork_kill_anywhere_truthful. Qed.
Print Assumptions C10_fork_kill_anywhere.

(* SIGTERM / SIGINT while the body runs, the next effect being the fork or the end of the body (i.e. before
   or AFTER the fork): failure marker, no success marker, no pid file - the job process has kept its handlers *)
Theorem C10_fork_term_in_body : forall v fsafe ce d o g c k,
  (fsafe || wellbehaved (Some ce))%bool = true ->
  d_done d = false -> term_signal g -> in_body_f v fsafe (Some ce) o d k ->
  let d' := launch_f v fsafe d (Some ce) o (Some (g, k, c)) in
  d_done d' = false /\ d_failed d' <> None /\ d_pid d' = false /\
  (c = CTry -> d_failed d' = Some 1%Z).
Proof. exact fork_term_in_body. Qed.
Print Assumptions C10_fork_term_in_body.

(* a job whose body forked and that ends by itself leaves no pid file and has released the lock (it has kept
   its exit callback), ran the body exactly when there was no marker, and the marker tells its outcome      *)
Theorem C10_fork_own_exit : forall v fsafe ce d o, v <> Prefix -> (fsafe || wellbehaved (Some ce))%bool = true ->
  let d' := launch_f v fsafe d (Some ce) o None in
  d_pid d' = false /\
  lock (run_effs (effects_f v fsafe (Some ce) o None d) (boot d)) = false /\
  d_runs d' = (if d_done d then d_runs d else S (d_runs d)) /\
  d_done d' = (d_done d || success o)%bool.
Proof. exact fork_own_exit. Qed.
Print Assumptions C10_fork_own_exit.

Theorem C10_fork_histories : forall v fsafe l d, Inv d ->
  (forall x, In x l -> (fsafe || wellbehaved (fst (fst x)))%bool = true) ->
  Truthful (history_f v fsafe d l).
Proof. exact fork_histories. Qed.
Print Assumptions C10_fork_histories.

(* ---------------------------------------------------------------- the end-of-job notification raises *)
(* `runner_n ord nf v o`: the undisturbed run with the place of report_eoj() in cleanup explicit (ord) and a
   notification that raises (nf = true).  Notification last (the code): the run is the run of `runner`,
   whatever nf - so every statement above holds when the notification raises; in particular              *)
Theorem C10_notify_last_is_runner : forall nf v o d,
  map snd (runner_n NotifyLast nf v o (boot d)) = trace v o d.
Proof. exact notify_last_is_runner. Qed.
Print Assumptions C10_notify_last_is_runner.

Theorem C10_notify_raises_own_exit : forall nf v d o, v <> Prefix ->
  pid (end_n NotifyLast nf v d o) = false /\ lock (end_n NotifyLast nf v d o) = false.
Proof. exact notify_last_own_exit. Qed.
Print Assumptions C10_notify_raises_own_exit.

(* the other order refuted: notification before the removal of the pid file, and it raises *)
Theorem C10_notify_first_refuted :
  exists d, Inv d /\
    pid (end_n NotifyFirst true Guarded d OOk) = true /\ done (end_n NotifyFirst true Guarded d OOk) = true /\
    lock (end_n NotifyFirst true Guarded d OOk) = true /\
    pid (end_n NotifyFirst true Guarded d ORaise) = true /\ failed (end_n NotifyFirst true Guarded d ORaise) = Some 1%Z.
Proof. exact notify_first_refuted. Qed.
Print Assumptions C10_notify_first_refuted.

(* ---------------------------------------------------------------- the relaunch of a finished job *)
Theorem C10_relaunch_of_finished_job_marks_failed_refuted :
  exists d k, Inv d /\ d_done d = true /\ d_failed d = None /\
    d_failed (launch Fixed d OOk (Some (STerm, k, CTry))) = Some 1%Z /\
    d_done (launch Fixed d OOk (Some (STerm, k, CTry))) = true.
Proof. exact relaunch_of_finished_job_marks_failed_refuted. Qed.
Print Assumptions C10_relaunch_of_finished_job_marks_failed_refuted.

(* repaired handler (fixes/C10-5.diff): a launch that finds the success marker, however it dies, leaves the
   failure marker as it found it (in particular absent)                                                    *)
Theorem C10_relaunch_of_finished_job_keeps_failed : forall d o dth, d_done d = true ->
  d_failed (launch Guarded d o dth) = d_failed d.
Proof. exact relaunch_of_finished_job_keeps_failed. Qed.
Print Assumptions C10_relaunch_of_finished_job_keeps_failed.

(* ---------------------------------------------------------------- the run lock is a lock on an inode *)
(* `lk_run lk0 l`: any sequence l of open / acquire / release / unlink events of any number of processes on
   the lock file (open creates the file when the path names nothing; acquire succeeds only when nobody holds
   the lock of the inode the process has open).  As long as the file is never unlinked: one holder at most *)
Theorem C10_lock_file_kept_exclusive : forall l, no_unlink l = true -> length (lk_held (lk_run lk0 l)) <= 1.
Proof. exact lock_file_kept_exclusive. Qed.
Print Assumptions C10_lock_file_kept_exclusive.

(* unlinking the lock file after releasing it, refuted: A (0) ends while B (1) waits, C (2) comes later *)
Theorem C10_lock_file_unlinked_refuted :
  exists l, lk_held (lk_run lk0 l) = [(2, 1); (1, 0)] /\
            l = [LOpen 0; LAcquire 0; LOpen 1; LAcquire 1; LRelease 0; LUnlink; LAcquire 1; LOpen 2; LAcquire 2].
Proof. exact lock_file_unlinked_refuted. Qed.
Print Assumptions C10_lock_file_unlinked_refuted.

(* record of the defect of the pinned commit: the literal runner keeps the pid file after a success *)
Theorem C10_pid_left_on_success_refuted :
  exists d o, Inv d /\ success o = true /\ d_pid (launch Prefix d o None) = true.
Proof. exact pid_left_on_success_refuted. Qed.
Print Assumptions C10_pid_left_on_success_refuted.

Theorem C10_prefix_pid_left_only_on_return : forall d o,
  d_pid (launch Prefix d o None) = true -> d_done d = false /\ o = OOk.
Proof. exact prefix_pid_left_only_on_return. Qed.
Print Assumptions C10_prefix_pid_left_only_on_return.
