(* C19 - job filters mean what they say; cleaning commands delete only what is selected.
   Statements only; every proof is `exact <lemma>`.                        *)
From Coq Require Import NArith List Bool.
From XV Require Import model.Filter model.Clean model.FilterParse.
From XV Require Import proofs.Filter_lemmas proofs.Clean_lemmas proofs.FilterParse_lemmas.
Import ListNotations.
Open Scope N_scope.

(* ---- filters ------------------------------------------------------------ *)
(* the compiled filter answers True exactly when the documented meaning holds,
   for every expression and every assignment of tags, state and name        *)
Theorem C19_eval_meaning : forall x e, eval x e = true <-> meaning x e.
Proof. exact eval_meaning. Qed.
Print Assumptions C19_eval_meaning.

(* `~` : a prefix of the value (the whole value with a trailing $) is in the
   language of the regular expression                                        *)
Theorem C19_regex_language : forall p s, re_match p s = true <-> matches p s.
Proof. exact re_match_spec. Qed.
Print Assumptions C19_regex_language.

(* chains of and/or are folded left to right, without precedence *)
Theorem C19_chain_fold_left : forall x e,
  eval x e = fold_left (step_bool e) (x_rest x) (eval_atom (x_first x) e).
Proof. exact eval_fold_left. Qed.
Print Assumptions C19_chain_fold_left.

(* ... which coincides with every bracketing of a single-operator chain *)
Theorem C19_chain_and : forall t a l e,
  leaves t = a :: l -> eval_tree BAnd t e = eval (chain BAnd a l) e.
Proof. exact chain_and. Qed.
Print Assumptions C19_chain_and.

Theorem C19_chain_or : forall t a l e,
  leaves t = a :: l -> eval_tree BOr t e = eval (chain BOr a l) e.
Proof. exact chain_or. Qed.
Print Assumptions C19_chain_or.

(* ---- jobs clean ---------------------------------------------------------- *)
(* removed = finished and selected (experiment, filter), only with --perform *)
Theorem C19_clean_exact : forall w o k,
  In k (clean w o) <->
  o_perform o = true /\
  exists j, In j (w_jobs w) /\ job_key j = k /\ selected_spec w o j /\ finished_spec j.
Proof. exact clean_exact. Qed.
Print Assumptions C19_clean_exact.

Theorem C19_clean_exact_job : forall w o j,
  NoDup (map job_key (w_jobs w)) -> In j (w_jobs w) ->
  (In (job_key j) (clean w o) <-> o_perform o = true /\ selected_spec w o j /\ finished_spec j).
Proof. exact clean_exact_job. Qed.
Print Assumptions C19_clean_exact_job.

Theorem C19_clean_only_with_perform : forall w o, o_perform o = false -> clean w o = [].
Proof. exact clean_only_with_perform. Qed.
Print Assumptions C19_clean_only_with_perform.

(* a job with a live process that has not recorded completion is never removed *)
Theorem C19_never_running : forall w o j,
  NoDup (map job_key (w_jobs w)) -> In j (w_jobs w) ->
  In (job_key j) (clean w o) -> running j = false.
Proof. exact never_running. Qed.
Print Assumptions C19_never_running.

(* design of the filter language, stated: no precedence between and / or (the chain is read left to right) ... *)
Theorem C19_mixed_chain_left : forall a b c e,
  eval {| x_first := a; x_rest := [(BOr, b); (BAnd, c)] |} e = (eval_atom a e || eval_atom b e) && eval_atom c e
  /\ eval {| x_first := a; x_rest := [(BAnd, b); (BOr, c)] |} e = (eval_atom a e && eval_atom b e) || eval_atom c e.
Proof. exact mixed_chain_left. Qed.
Print Assumptions C19_mixed_chain_left.

(* ... so the usual convention (and binds tighter) is NOT what a filter means *)
Theorem C19_usual_precedence_refuted : exists a b c e,
  eval {| x_first := a; x_rest := [(BOr, b); (BAnd, c)] |} e = false /\
  (meaning_atom a e \/ (meaning_atom b e /\ meaning_atom c e)).
Proof. exact usual_precedence_refuted. Qed.
Print Assumptions C19_usual_precedence_refuted.

(* a missing left-hand side equals nothing: `model = bm25` (quotes forgotten, no tag bm25) selects no job without a
   `model` tag.  Before fixes/C19-13 the comparison was None == None: true *)
Theorem C19_missing_equals_nothing : forall v o e, get v e = None -> eval (single (AEq v o)) e = false.
Proof. exact missing_equals_nothing. Qed.
Print Assumptions C19_missing_equals_nothing.

Theorem C19_none_equals_none_refuted : exists v w e,
  ~ meaning_atom (AEq v (OVar w)) e /\ ostr_eqb (get v e) (oget (OVar w) e) = true.
Proof. exact none_equals_none_refuted. Qed.
Print Assumptions C19_none_equals_none_refuted.

(* ---- the text of a filter (character-level grammar, model/FilterParse.v) ---- *)
(* an accepted text has "and" or "or" -- in exactly that spelling -- between its tests *)
Theorem C19_parse_ops : forall t r,
  parse_filter t = Some r -> Forall (fun oa => fst oa = s_and \/ fst oa = s_or) (r_rest r).
Proof. exact parse_ops. Qed.
Print Assumptions C19_parse_ops.

(* what is built from an accepted text answers True exactly when the documented meaning of the expression it
   stands for holds, and that expression has a conjunction where the text says "and", a disjunction where it
   says "or" (dec = re.compile on the sources that occur) *)
Theorem C19_parse_meaning : forall dec t r x e,
  parse_filter t = Some r -> expr_of dec r = Some x ->
  (reval dec r e = Some true <-> meaning x e)
  /\ Forall2 (fun (oa : str * ratom) (ob : bop * atom) =>
                (fst oa = s_and /\ fst ob = BAnd) \/ (fst oa = s_or /\ fst ob = BOr)) (r_rest r) (x_rest x).
Proof. exact parse_meaning. Qed.
Print Assumptions C19_parse_meaning.

Theorem C19_parse_stands_for : forall dec, (forall s, dec s <> None) -> forall r, exists x, expr_of dec r = Some x.
Proof. exact expr_of_total. Qed.
Print Assumptions C19_parse_stands_for.

(* every expression (variables @state, @name or letters; strings without double quote, newline, tab; non-empty
   lists) can be written as a text that is read back as that very expression *)
Theorem C19_print_parse : forall r, wf_expr r -> parse_filter (pr_expr r) = Some r.
Proof. exact print_parse. Qed.
Print Assumptions C19_print_parse.

(* a tag name is a letter followed by letters, digits, underscores (the grammar before fixes/C19-10 had letters only) *)
Theorem C19_tag_names_alphanumeric :
  parse_filter tagname_text = Some {| r_first := RAEq [109;111;100;101;108;95;50] (ROConst [97]); r_rest := [] |}.
Proof. exact tag_names_alphanumeric. Qed.
Print Assumptions C19_tag_names_alphanumeric.

(* ---- orphans ------------------------------------------------------------- *)
Theorem C19_orphans_exact : forall w c io k,
  In k (orphans_clean w c io) <->
  c = true /\ (exists j, In j (w_jobs w) /\ job_key j = k) /\ ~ referenced w io k.
Proof. exact orphans_exact. Qed.
Print Assumptions C19_orphans_exact.

Theorem C19_orphans_exact_default : forall w k,
  In k (orphans_clean w true false) <->
  (exists j, In j (w_jobs w) /\ job_key j = k) /\
  (forall x, In x (w_xps w) -> ~ In k (x_jobs x) /\ ~ In k (bak_keys x)).
Proof. exact orphans_exact_default. Qed.
Print Assumptions C19_orphans_exact_default.

(* workspaces where entries of jobs/<task>/ are links to job directories (left by `deprecated list --fix`):
   a real job directory is removed exactly when no index entry leads to it, by its own name or through a link *)
Theorem C19_orphans_links_exact : forall w links c io k,
  In k (orphans_clean_l w links c io) <->
  c = true /\ (exists j, In j (w_jobs w) /\ job_key j = k) /\ ~ referenced_l w links io k.
Proof. exact orphans_l_exact. Qed.
Print Assumptions C19_orphans_links_exact.

Theorem C19_orphans_links_keeps_referenced : forall w links c io x k',
  In x (w_xps w) -> In k' (x_jobs x) -> ~ In (resolve links k') (orphans_clean_l w links c io).
Proof. exact orphans_l_keeps_referenced. Qed.
Print Assumptions C19_orphans_links_keeps_referenced.

Theorem C19_orphans_links_none : forall w c io, orphans_clean_l w [] c io = orphans_clean w c io.
Proof. exact orphans_l_nolinks. Qed.
Print Assumptions C19_orphans_links_none.

(* ---- records of the defects of the pinned commit (literal model) -------- *)
Theorem C19_in_always_false_refuted : exists v l e,
  meaning_atom (AIn v l) e /\ eval_prefix (single (AIn v l)) e = Some false.
Proof. exact in_always_false_refuted. Qed.
Print Assumptions C19_in_always_false_refuted.

Theorem C19_not_in_always_true_refuted : exists v l e,
  ~ meaning_atom (ANotIn v l) e /\ eval_prefix (single (ANotIn v l)) e = Some true.
Proof. exact not_in_always_true_refuted. Qed.
Print Assumptions C19_not_in_always_true_refuted.

Theorem C19_regex_raises_refuted : exists v p e,
  meaning_atom (ARegex v p) e /\ eval_prefix (single (ARegex v p)) e = None.
Proof. exact regex_raises_refuted. Qed.
Print Assumptions C19_regex_raises_refuted.

(* with the literal code, `jobs clean --filter 'v not in [...]' --perform`
   removes every finished job of every workspace                            *)
Theorem C19_not_in_deletes_all_prefix : forall w v l,
  clean_prefix w {| o_experiment := []; o_filter := Some (single (ANotIn v l)); o_perform := true |}
  = map job_key (filter (fun j => finished (state_prefix j)) (w_jobs w)).
Proof. exact not_in_deletes_all_prefix. Qed.
Print Assumptions C19_not_in_deletes_all_prefix.

Theorem C19_clean_not_in_refuted : exists w o j,
  In j (w_jobs w) /\ In (job_key j) (clean_prefix w o) /\ ~ selected_spec w o j.
Proof. exact clean_not_in_refuted. Qed.
Print Assumptions C19_clean_not_in_refuted.

Theorem C19_clean_experiment_refuted : exists w o j,
  In j (w_jobs w) /\ o_experiment o <> [] /\ In (job_key j) (clean_prefix w o) /\
  ~ in_experiment w (o_experiment o) j.
Proof. exact clean_experiment_refuted. Qed.
Print Assumptions C19_clean_experiment_refuted.

Theorem C19_clean_running_refuted : exists w o j,
  NoDup (map job_key (w_jobs w)) /\ In j (w_jobs w) /\ running j = true /\
  In (job_key j) (clean_prefix w o).
Proof. exact clean_running_refuted. Qed.
Print Assumptions C19_clean_running_refuted.

(* the code before fixes/C19-6, literally: entries compared by relative path, rmtree on whatever is in no index *)
Theorem C19_orphans_through_link_refuted : exists w links k l,
  orphans_clean_l_prefix w links true false = Some l /\ In k l /\ referenced_l w links false k.
Proof. exact orphans_through_link_refuted. Qed.
Print Assumptions C19_orphans_through_link_refuted.

Theorem C19_orphans_link_raises_prefix : exists w links, orphans_clean_l_prefix w links true false = None.
Proof. exact orphans_link_raises_prefix. Qed.
Print Assumptions C19_orphans_link_raises_prefix.

(* the grammar before fixes/C19-5 (and/or as plain literals) read  x = "a" order = "b"  as  x = "a" or der = "b" *)
Theorem C19_literal_ops_refuted : exists t r,
  parse_filter_literal t = Some r /\ parse_filter t = None /\
  r_rest r = [(s_or, RAEq [100; 101; 114] (ROConst [98]))].
Proof. exact literal_ops_refuted. Qed.
Print Assumptions C19_literal_ops_refuted.

(* RegexExpr.filter before fixes/C19-11 (`if not value: return False`): an empty tag value failed a pattern that matches it *)
Theorem C19_regex_empty_value_refuted : exists v p e,
  meaning_atom (ARegex v p) e /\ eval_regex_emptyfalse v p e = false /\ eval (single (ARegex v p)) e = true.
Proof. exact regex_empty_value_refuted. Qed.
Print Assumptions C19_regex_empty_value_refuted.
