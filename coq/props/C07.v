(* C07 - failures are contained: dependents are cancelled, others still run.
   Statements only (model: model/Sched.v); every proof is `exact <lemma>`.                    *)
From Coq Require Import ZArith List Bool.
From XV Require Import model.Sched proofs.Sched_lemmas proofs.Sched_inv proofs.Sched_thm proofs.Sched_live.
Import ListNotations.
Open Scope Z_scope.

(* `fanc W s j`: some chain of job dependencies k -> ... -> j where k is in state ERROR and no job
   strictly between k and j was decided by an earlier run (success marker, or a process of an earlier
   scheduler still running at submission).  Such a job is never launched; if it was not itself decided
   by an earlier run, it ends ERROR with failure_status DEPENDENCY *)
Theorem C07_failed_ancestor_not_launched : forall W s j r, wf W = true -> reachable W s ->
  fanc W s j -> j_marker (spec W j) = false -> adopted W j = None ->
  launches (jobs s j) = 0%nat /\
  (pc (jobs s j) = PReturned r -> r = ERROR /\ fdep (jobs s j) = true).
Proof. exact failed_ancestor_not_launched. Qed.
Print Assumptions C07_failed_ancestor_not_launched.

(* a job that has returned ERROR makes its dependents instances of the theorem above *)
Theorem C07_returned_error_is_failed_ancestor : forall W s j k, wf W = true -> reachable W s ->
  In (DJob k) (deps W j) -> pc (jobs s k) = PReturned ERROR -> fanc W s j.
Proof. exact returned_error_fanc. Qed.
Print Assumptions C07_returned_error_is_failed_ancestor.

(* a job all of whose job dependencies succeeded, and that was not decided by an earlier run (no
   marker, no process left running), ends according to its own exit code *)
Theorem C07_independent_unaffected : forall W s j r, wf W = true -> reachable W s ->
  pc (jobs s j) = PReturned r -> j_marker (spec W j) = false -> adopted W j = None ->
  (forall k, In (DJob k) (deps W j) -> st (jobs s k) = DONE) ->
  launches (jobs s j) = 1%nat /\ r = code_state (j_code (spec W j)).
Proof. exact independent_unaffected. Qed.
Print Assumptions C07_independent_unaffected.

(* at the step where wait() completes: it raises iff failedJobs is non-empty; then some job returned ERROR; and a
   job that returned ERROR and is still the registered submission of its identifier (it has not been submitted
   again: since ccf82b1 a re-submission drops the failure recorded for the identifier) makes it raise *)
Theorem C07_exit_reports : forall W s l s', wf W = true -> reachable W s -> step W s l = Some s' ->
  wait_completes s s' ->
  (wst s' = WRaised <-> fdict s' <> []) /\
  (fdict s' <> [] -> exists j, pc (jobs s' j) = PReturned ERROR) /\
  (forall j, pc (jobs s' j) = PReturned ERROR -> reg s' (j_ident (spec W j)) = Some j -> fdict s' <> []).
Proof. exact exit_reports. Qed.
Print Assumptions C07_exit_reports.

(* containment stated on the workload alone (from the independent audit, finding 9): with
   okjob / kojob defined on the workload (decided by an earlier run, or own exit code and the
   dependencies' classes), in every reachable state at rest every submitted job has returned the
   result of its class; a job not decided by an earlier run whose dependencies all succeed was
   launched exactly once; a cancelled one never, and carries failure_status DEPENDENCY - whatever the
   schedule, the submission order, the moment at which failures arrive.  The two classes are exhaustive. *)
Theorem C07_results_closed : forall W s, wf W = true -> posreq W -> reachable W s ->
  queue s = [] -> has_pending s W = false ->
  forall j, spawned (pc (jobs s j)) = true ->
    (okjob W j -> pc (jobs s j) = PReturned DONE) /\
    (kojob W j -> pc (jobs s j) = PReturned ERROR) /\
    (adopted W j = None -> j_marker (spec W j) = false -> (forall k, In (DJob k) (deps W j) -> okjob W k) ->
       launches (jobs s j) = 1%nat /\ pc (jobs s j) = PReturned (code_state (j_code (spec W j)))) /\
    (cancelled W j -> launches (jobs s j) = 0%nat /\ pc (jobs s j) = PReturned ERROR /\ fdep (jobs s j) = true).
Proof. exact results_closed. Qed.
Print Assumptions C07_results_closed.

Theorem C07_every_job_classified : forall W, wf W = true -> forall j, okjob W j \/ kojob W j.
Proof. exact every_job_classified. Qed.
Print Assumptions C07_every_job_classified.

(* the adoption anomaly of 027db70 (audit finding 3; repaired by fb683b6), on the model with every repair
   but that one: a job adopted while its process was running is set to ERROR by the failure of its
   dependency (state s1: ERROR shown while the coroutine still waits for the process), later returns
   DONE, and its dependent, all of whose dependencies are then DONE, has been cancelled without being
   launched *)
Theorem C07_adoption_error_refuted : exists W ls s s1, wf W = true /\
  steps_gen W fixed_but6 (init W) ls = Some s /\
  (exists ls1, steps_gen W fixed_but6 (init W) ls1 = Some s1 /\ st (jobs s1 1) = ERROR /\ pc (jobs s1 1) = PExt AAdopt) /\
  pc (jobs s 1) = PReturned DONE /\
  pc (jobs s 2) = PReturned ERROR /\ fdep (jobs s 2) = true /\ launches (jobs s 2) = 0%nat /\
  (forall k, In (DJob k) (deps W 2) -> st (jobs s k) = DONE).
Proof. exact adoption_error_refuted. Qed.
Print Assumptions C07_adoption_error_refuted.

(* the reading of "unless it had already succeeded in an earlier run" made explicit: A <- B <- C, B has its
   success marker, A is run again and fails, C never ran.  B is DONE by its marker and C, whose only
   dependency is DONE, is launched once and ends DONE; leaving the experiment raises.  A job decided by an
   earlier run cuts the failure chain (the ancestor relation `fanc` of C07_failed_ancestor_not_launched) *)
Theorem C07_marker_cuts_chain :
  let s := final W_cut all_fixed (expand W_cut all_fixed (init W_cut) X_cut) in
  wf W_cut = true /\
  is_some (steps_gen W_cut all_fixed (init W_cut) (expand W_cut all_fixed (init W_cut) X_cut)) = true /\
  queue s = [] /\ has_pending s W_cut = false /\
  pc (jobs s 0) = PReturned ERROR /\
  pc (jobs s 1) = PReturned DONE /\ launches (jobs s 1) = 0%nat /\
  pc (jobs s 2) = PReturned DONE /\ launches (jobs s 2) = 1%nat /\ wst s = WRaised.
Proof. exact marker_cuts_chain. Qed.
Print Assumptions C07_marker_cuts_chain.
