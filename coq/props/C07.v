(* C07 - failures are contained: dependents are cancelled, others still run.
   Statements only (model: model/Sched.v); every proof is `exact <lemma>`.                    *)
From Coq Require Import ZArith List Bool.
From XV Require Import model.Sched proofs.Sched_lemmas proofs.Sched_inv proofs.Sched_thm.
Import ListNotations.
Open Scope Z_scope.

(* `fanc W s j`: some chain of job dependencies k -> ... -> j where k is in state ERROR and no job
   strictly between k and j was decided by an earlier run (success marker, or a process of an earlier
   scheduler still running at submission).  Such a job is never launched; if it was not itself decided
   by an earlier run, it ends ERROR with failure_status DEPENDENCY *)
Theorem C07_failed_ancestor_not_launched : forall W s j r, wf W = true -> reachable W s ->
  fanc W s j -> j_marker (spec W j) = false -> adopted W j = None ->
  launches (jobs s j) = 0%nat /\
  (pc (jobs s j) = PReturned r -> r = ERROR /\ fdep (jobs s j) = true).
Proof. exact failed_ancestor_not_launched. Qed.
Print Assumptions C07_failed_ancestor_not_launched.

(* a job that has returned ERROR makes its dependents instances of the theorem above *)
Theorem C07_returned_error_is_failed_ancestor : forall W s j k, wf W = true -> reachable W s ->
  In (DJob k) (deps W j) -> pc (jobs s k) = PReturned ERROR -> fanc W s j.
Proof. exact returned_error_fanc. Qed.
Print Assumptions C07_returned_error_is_failed_ancestor.

(* a job all of whose job dependencies succeeded (none of them being a job whose process was left
   running by an earlier scheduler) ends according to its own exit code *)
Theorem C07_independent_unaffected : forall W s j r, wf W = true -> reachable W s ->
  pc (jobs s j) = PReturned r -> j_marker (spec W j) = false -> adopted W j = None ->
  (forall k, In (DJob k) (deps W j) -> st (jobs s k) = DONE /\ adopted W k = None) ->
  launches (jobs s j) = 1%nat /\ r = code_state (j_code (spec W j)).
Proof. exact independent_unaffected. Qed.
Print Assumptions C07_independent_unaffected.

(* at the step where wait() completes: it raises iff failedJobs is non-empty iff some job returned ERROR *)
Theorem C07_exit_reports : forall W s l s', wf W = true -> reachable W s -> step W s l = Some s' ->
  wait_completes s s' ->
  (wst s' = WRaised <-> failed s' <> []) /\
  (failed s' <> [] <-> exists j, pc (jobs s' j) = PReturned ERROR).
Proof. exact exit_reports. Qed.
Print Assumptions C07_exit_reports.
