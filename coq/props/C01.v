(* C01 - placeholder until the lemmas land *)
From Coq Require Import List.
Theorem C01_placeholder : True. Proof. exact I. Qed.
Print Assumptions C01_placeholder.
