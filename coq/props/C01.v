(* C01 - a configuration's identifier is a pure function of its content.
   Statements only; every proof is `exact <lemma>`.  H is an arbitrary hash
   function; `look` is an arbitrary state of the identifier cache.            *)
From Coq Require Import ZArith NArith List Bool Permutation.
From XV Require Import core.Value model.Hash model.Cache model.Edits
  model.Spec model.Seal proofs.Hash_lemmas proofs.Neutral_lemmas proofs.Cache_lemmas proofs.Spec_lemmas
  proofs.Walk_reach_lemmas proofs.Vperm_lemmas model.HashReach proofs.Cyclic_lemmas.
Import ListNotations.

(* keyword order: the stored values of any node in another order (distinct
   names) leave the identifier of every node of the graph unchanged            *)
Theorem C01_keyword_order : forall H cs h look n x f',
  nth_error h n = Some x -> Permutation (n_fields x) f' -> NoDup (map fst (n_fields x)) ->
  forall fuel m, raw_ident H cs h look fuel m = raw_ident H cs (upd_nth h n (with_fields x f')) look fuel m.
Proof. exact kwarg_order_neutral. Qed.
Print Assumptions C01_keyword_order.

(* the identifier reads a graph only through signatures and meta flags: it is a
   function of the content (not of object identity, construction order, ...)    *)
Theorem C01_function_of_content : forall H cs cs' h h' look,
  meta_eq h h' -> (forall n, nsig cs h n = nsig cs' h' n) ->
  forall fuel n, raw_ident H cs h look fuel n = raw_ident H cs' h' look fuel n.
Proof. exact ident_sig_ext. Qed.
Print Assumptions C01_function_of_content.

(* acyclic graphs: the identifier computed for a node in any context (as a nested
   value of any chain of enclosing configurations, with any cache state) is the one
   computed at top level - so reusing it, whatever was requested before, is sound  *)
Theorem C01_acyclic_context_independent : forall H cs h look, ordered h ->
  forall fuel st n, above (S n) st ->
  hnode H cs h look (S fuel) st n = hnode H cs h look (S fuel) [] n.
Proof. exact hnode_ctx_independent. Qed.
Print Assumptions C01_acyclic_context_independent.

Theorem C01_acyclic_no_cycle_reference : forall H cs h look, ordered h ->
  forall fuel k st st' v, below k v -> above k st -> above k st' ->
  hv H cs h look fuel st v = hv H cs h look fuel st' v /\
  (forall b e, hv H cs h look fuel st v = Ok (b, e) -> e = 0).
Proof. exact hv_ctx_independent. Qed.
Print Assumptions C01_acyclic_no_cycle_reference.

(* record of defect #1 (repaired by a fix: commit): on the machine of the pinned
   commit, whose cache test never sees the loop flag, the identifier answered for
   node 1 of a sealed 3-cycle depends on what was requested before               *)
Theorem C01_cache_prefix_refuted :
  exists ops1 ops2 d1 d2,
    nth 3 (cyc_run false ops1) ASealed = ADigest d1 /\
    nth 1 (cyc_run false ops2) ASealed = ADigest d2 /\
    nth_error ops1 3 = Some (OpRaw 1) /\ nth_error ops2 1 = Some (OpRaw 1) /\ d1 <> d2.
Proof. exact cache_prefix_order_dependent. Qed.
Print Assumptions C01_cache_prefix_refuted.

(* acyclic graphs: every identifier the model computes - with any fuel, in any context,
   with any sound cache - is the identifier of the fuel-free table specification ...       *)
Theorem C01_acyclic_computation_is_spec : forall H cs h, ordered h ->
  forall look, (forall m d, look m = Some d -> d = nth m (T H cs h) []) ->
  forall fuel n d e, hnode H cs h look fuel [] n = Ok (d, e) -> d = spec_id H cs h n /\ e = 0.
Proof. exact hnode_spec. Qed.
Print Assumptions C01_acyclic_computation_is_spec.

(* ... and the cache machine is sound for EVERY history of identifier requests and seals,
   from every sound state (in particular the initial one): each answer is the table
   identifier of the requested node, whatever was requested or sealed before             *)
Theorem C01_cache_sound_acyclic : forall H cs h, ordered h ->
  forall fuel fixflag ops s, csound H cs h s ->
  Forall2 (answer_spec H cs h) ops (run H cs h fuel fixflag s ops).
Proof. exact cache_sound. Qed.
Print Assumptions C01_cache_sound_acyclic.

Theorem C01_initial_state_sound : forall H cs h flags, csound H cs h (map centry0 flags).
Proof. exact csound_init. Qed.
Print Assumptions C01_initial_state_sound.

(* the FULL identifier (the job directory name): the pre-task collection visits exactly the
   configurations reachable from the node, so the full identifier depends on successors as
   sets - in particular it does not depend on keyword order                               *)
Theorem C01_pretask_collection_is_reachability : forall h n, wf_heap h -> n < length h ->
  forall m, In m (walk h (walk_fuel h) [n] []) <-> reach h n m.
Proof. exact walk_reach. Qed.
Print Assumptions C01_pretask_collection_is_reachability.

Theorem C01_full_identifier_same_successors : forall H cs cs' h h' fuel n d,
  wf_heap h -> same_succs h h' -> n < length h ->
  (forall m, raw_pure H cs h fuel m = raw_pure H cs' h' fuel m) ->
  full_pure H cs h fuel n = Ok d -> full_pure H cs' h' fuel n = Ok d.
Proof. exact full_pure_same_succs. Qed.
Print Assumptions C01_full_identifier_same_successors.

Theorem C01_keyword_order_full_identifier : forall H cs h n x f' fuel m d,
  wf_heap h -> nth_error h n = Some x -> Permutation (n_fields x) f' -> NoDup (map fst (n_fields x)) -> m < length h ->
  full_pure H cs h fuel m = Ok d -> full_pure H cs (upd_nth h n (with_fields x f')) fuel m = Ok d.
Proof. exact kwarg_order_full. Qed.
Print Assumptions C01_keyword_order_full_identifier.

(* dict insertion order: the same value with dict items inserted in another order, at any depth
   (vperm), stored in any parameter of any node, leaves the identifier of EVERY node unchanged *)
Theorem C01_dict_insertion_order : forall H cs h look n x k v v',
  nth_error h n = Some x -> assoc k (n_fields x) = Some v -> vperm v v' ->
  forall fuel m, raw_ident H cs h look fuel m
               = raw_ident H cs (upd_nth h n (with_fields x (set_field k v' (n_fields x)))) look fuel m.
Proof. exact dict_order_neutral. Qed.
Print Assumptions C01_dict_insertion_order.

(* CYCLIC graphs, repaired cache (fix af4df17: the loop flag is recorded truthfully).
   1. a false loop flag is truthful: no hash cycle passes through the node                      *)
Theorem C01_flag_false_means_no_cycle : forall H cs h fuel n d,
  hnode H cs h (fun _ => None) fuel [] n = Ok (d, 0) -> ~ reach_avoid cs h [n] n n.
Proof. exact flag_false_no_cycle. Qed.
Print Assumptions C01_flag_false_means_no_cycle.

(* 2. such a node hashes to the same bytes in every context (any stack of enclosing nodes that is
      a chain of hash edges down to it), with every fuel: reusing its cached identifier is sound *)
Theorem C01_flag_false_context_independent : forall H cs h fuel0 n d st,
  hnode H cs h (fun _ => None) fuel0 [] n = Ok (d, 0) ->
  chain cs h (n :: st) ->
  forall fuel, hnode H cs h (fun _ => None) fuel st n = hnode H cs h (fun _ => None) fuel [] n.
Proof. exact flag_false_context_independent. Qed.
Print Assumptions C01_flag_false_context_independent.

(* 3. the computation is monotone in fuel: more fuel never changes a result                      *)
Theorem C01_fuel_monotone : forall H cs h look f f' st n r,
  f <= f' -> hnode H cs h look f st n = Ok r -> hnode H cs h look f' st n = Ok r.
Proof. exact hnode_mono. Qed.
Print Assumptions C01_fuel_monotone.

(* 4. the cache machine is sound on ANY graph, cycles included, for EVERY history of identifier
      requests and seals: each answer is the identifier computed afresh with no cache ...        *)
Theorem C01_cache_sound_cyclic : forall H cs h fuel ops s, csound_c H cs h s ->
  Forall2 (answer_pure H cs h) ops (run H cs h fuel true s ops).
Proof. exact cache_sound_cyclic. Qed.
Print Assumptions C01_cache_sound_cyclic.

Theorem C01_initial_state_sound_cyclic : forall H cs h flags, csound_c H cs h (map centry0 flags).
Proof. exact csound_c_init. Qed.
Print Assumptions C01_initial_state_sound_cyclic.

(* 5. ... hence two histories (any requests, any seals, any sound starting caches, any fuels) that
      both answer the same request answer it with the same identifier - the statement that
      C01_cache_prefix_refuted shows to be FALSE of the code before the repair                   *)
Theorem C01_history_independent_cyclic : forall H cs h fuel1 fuel2 ops1 ops2 s1 s2 i j o d1 d2,
  csound_c H cs h s1 -> csound_c H cs h s2 ->
  nth_error ops1 i = Some o -> nth_error ops2 j = Some o ->
  nth_error (run H cs h fuel1 true s1 ops1) i = Some (ADigest d1) ->
  nth_error (run H cs h fuel2 true s2 ops2) j = Some (ADigest d2) ->
  d1 = d2.
Proof. exact history_independent_cyclic. Qed.
Print Assumptions C01_history_independent_cyclic.
