(* C12 - saving and loading a configuration graph loses nothing.
   Statements only; every proof is `exact <lemma>`.                                  *)
From Coq Require Import ZArith NArith List Bool.
From XV Require Import core.Value model.Hash model.Edits model.Serial model.Seal
  proofs.Hash_lemmas proofs.Serial_lemmas proofs.Walk_reach_lemmas proofs.ExecPlan_lemmas.
Import ListNotations.

(* one definition, loaded back, is the node it was written from: same class, meta flag (also an
   explicit False), producing task, pre-tasks, init tasks, and the same value for EVERY parameter,
   ignored ones included - for every class and every node that is `complete` (values only for
   declared parameters; defaulted / optional parameters hold a value, as TypeConfig.__init__
   guarantees)                                                                                   *)
Theorem C12_definition_round_trip : forall cs h n x c d,
  nth_error h n = Some x -> nth_error cs (n_cls x) = Some c -> complete c x ->
  def_of cs true h n = Some d ->
  exists y, load_node cs true true d = Some y /\ node_equiv x y.
Proof. exact load_def_roundtrip. Qed.
Print Assumptions C12_definition_round_trip.

(* every definition written by save describes the node it names (any graph, any sharing, cycles) *)
Theorem C12_saved_definitions_faithful : forall cs h fuel r d,
  In d (save cs true h fuel r) -> def_of cs true h (d_id d) = Some d.
Proof. exact save_defs_ok. Qed.
Print Assumptions C12_saved_definitions_faithful.

(* when loading succeeds (every reference resolves - the real loader raises otherwise), every
   configuration reachable from the root through parameters, lists, dicts, the producing task,
   pre-tasks and init tasks has been saved: nothing is silently left out                         *)
Theorem C12_saves_all_reachable : forall cs h fuel r h',
  (forall n, complete_at cs h n) ->
  reload cs true true h (S fuel) r = Some h' -> (exists d, def_of cs true h r = Some d) ->
  forall m, reach h r m -> exists d, In d (save cs true h (S fuel) r) /\ d_id d = m.
Proof. exact reload_saves_all_reachable. Qed.
Print Assumptions C12_saves_all_reachable.

(* the reloaded graph is equivalent to the original node by node (sharing is preserved: references
   are positions), and every identifier recomputed on it - any hash function, any cache state -
   equals the original                                                                            *)
Theorem C12_reload_identifiers : forall cs H h fuel r h' look,
  (forall d, In d (save cs true h fuel r) -> complete_at cs h (d_id d)) ->
  reload cs true true h fuel r = Some h' ->
  heap_equiv h h' /\ forall f n, raw_ident H cs h look f n = raw_ident H cs h' look f n.
Proof. exact reload_ident. Qed.
Print Assumptions C12_reload_identifiers.

(* records of defects #7 and #8 of the pinned commit (repaired by fix: commits) *)
Theorem C12_meta_false_dropped_refuted :
  exists h', reload [c12_class] false false c12_heap 10 1 = Some h' /\
             option_map n_meta (nth_error h' 0) <> option_map n_meta (nth_error c12_heap 0).
Proof. exact meta_false_dropped_prefix. Qed.
Print Assumptions C12_meta_false_dropped_refuted.

Theorem C12_init_tasks_dropped_refuted :
  exists h', reload [c12_class] false false c12_heap 10 1 = Some h' /\
             option_map n_init (nth_error h' 1) <> option_map n_init (nth_error c12_heap 1).
Proof. exact init_tasks_dropped_prefix. Qed.
Print Assumptions C12_init_tasks_dropped_refuted.

(* ... and so does the FULL identifier (job directory name) of every node: the pre-task collection
   walk visits exactly the reachable configurations, which reloading preserves                  *)
Theorem C12_reload_full_identifier : forall cs H h fuel r h',
  wf_heap h -> fields_nodup h -> (forall c, In c cs -> NoDup (map a_name (c_args c))) ->
  (forall n, complete_at cs h n) ->
  reload cs true true h fuel r = Some h' ->
  forall f n d, n < length h -> full_pure H cs h f n = Ok d -> full_pure H cs h' f n = Ok d.
Proof. exact reload_full_ident. Qed.
Print Assumptions C12_reload_full_identifier.

(* ---- what the job process executes before the task (fromParameters, instance mode) ----------- *)
(* nothing is executed twice *)
Theorem C12_exec_plan_nodup : forall ds, NoDup (exec_plan ds).
Proof. exact exec_plan_nodup. Qed.
Print Assumptions C12_exec_plan_nodup.

(* every pre-task of every saved configuration is executed ... *)
Theorem C12_exec_pre_complete : forall ds d p, In d ds -> In p (d_pre d) -> In p (snd (exec_pre ds)).
Proof. exact exec_pre_complete. Qed.
Print Assumptions C12_exec_pre_complete.

(* ... and nothing else is executed as a pre-task *)
Theorem C12_exec_pre_sound : forall ds p, In p (snd (exec_pre ds)) -> exists d, In d ds /\ In p (d_pre d).
Proof. exact exec_pre_sound. Qed.
Print Assumptions C12_exec_pre_sound.

(* the init tasks executed are init tasks of the task that runs (the last definition), of no other task *)
Theorem C12_exec_init_only_root : forall ds t,
  In t (exec_init ds) -> exists d r, rev ds = d :: r /\ In t (d_init d).
Proof. exact exec_init_only_root. Qed.
Print Assumptions C12_exec_init_only_root.

(* every init task of the task that runs is executed, as an init task or earlier as a pre-task *)
Theorem C12_exec_init_complete : forall ds d r t, rev ds = d :: r -> In t (d_init d) -> In t (exec_plan ds).
Proof. exact exec_init_complete. Qed.
Print Assumptions C12_exec_init_complete.

(* the variant that collects the init tasks of every definition executes a foreign init task *)
Theorem C12_all_inits_refuted : exists ds t, In t (plan_all_inits ds) /\ ~ In t (exec_plan ds).
Proof. exact all_inits_runs_foreign_init. Qed.
Print Assumptions C12_all_inits_refuted.
