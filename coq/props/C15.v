(* C15 - parameters only ever hold values of their declared type; submit fails fast.
   Statements only; every proof is `exact <lemma>`.                              *)
From Coq Require Import ZArith List String.
From XV Require Import model.Types proofs.Types_lemmas.
Import ListNotations.
Open Scope Z_scope.

(* ---- assignment: Type.validate / ConfigInformation.set *)

(* whatever validate returns is of the declared type - for every type expression
   over int, float, bool, str, path, enums, lists, dicts, configuration classes
   (subclassing, "a task must have been submitted"), at any nesting depth        *)
Theorem C15_validate_sound : forall cl t v v',
  validate cl t v = Ok v' -> has_type cl v' t.
Proof. exact validate_sound. Qed.
Print Assumptions C15_validate_sound.

(* a value of the declared type is accepted and stored unchanged *)
Theorem C15_validate_conforming : forall cl t v,
  has_type cl v t -> validate cl t v = Ok v.
Proof. exact validate_conforming. Qed.
Print Assumptions C15_validate_conforming.

(* the documented coercions (integral float -> int, int -> float, str -> path),
   applied at any depth inside lists and dicts, give exactly the documented result *)
Theorem C15_validate_coerces : forall cl t v v',
  coerced cl t v v' -> validate cl t v = Ok v'.
Proof. exact validate_coerces. Qed.
Print Assumptions C15_validate_coerces.

(* conversely, a value that is accepted is the given value up to the documented coercions,
   unless one of the listed oddities (model/Types.v, `odd`) occurs somewhere in it: a bool
   where a float is expected (float(True) = 1.0), the serialised dict form where a path is
   expected, dict keys that become equal once validated (the entries collapse)           *)
Theorem C15_validate_explained : forall cl t v v',
  validate cl t v = Ok v' -> coerced cl t v v' \/ odd cl t v.
Proof. exact validate_explained. Qed.
Print Assumptions C15_validate_explained.

(* hence a candidate that is not of the type up to the documented coercions - e.g. off by
   one constructor at any depth - and contains none of the oddities is rejected         *)
Theorem C15_nonconforming_rejected : forall cl t v,
  (forall v', ~ coerced cl t v v') -> ~ odd cl t v -> validate cl t v = Err.
Proof. exact nonconforming_rejected. Qed.
Print Assumptions C15_nonconforming_rejected.

(* a parameter with a checker (Annotated[T, Choices([...])], any Checker): the type coerces,
   then the checker looks at the coerced value; what is stored is the COERCED value - a value
   of the declared type - never the caller's raw value                                      *)
Theorem C15_checked_value_is_coerced : forall cl d v v',
  arg_validate cl d v = Ok v' ->
  validate cl (a_ty d) v = Ok v' /\ check_ok (a_checker d) v' = true /\ has_type cl v' (a_ty d).
Proof. exact arg_validate_coerced. Qed.
Print Assumptions C15_checked_value_is_coerced.

Theorem C15_checker_accepts : forall cl d v v',
  coerced cl (a_ty d) v v' -> check_ok (a_checker d) v' = true -> arg_validate cl d v = Ok v'.
Proof. exact arg_validate_accepts. Qed.
Print Assumptions C15_checker_accepts.

Theorem C15_checker_refuses : forall cl d v v',
  validate cl (a_ty d) v = Ok v' -> check_ok (a_checker d) v' = false -> arg_validate cl d v = Err.
Proof. exact arg_validate_checker_refuses. Qed.
Print Assumptions C15_checker_refuses.

(* what an assignment stores: None only for a parameter declared Optional (a default does
   not make None a value of the parameter); anything else is the coerced value, and its
   checker accepted it                                                                    *)
Theorem C15_assign_stored : forall cl d sealed v v',
  assign cl d sealed false v = Ok v' ->
  (v = VNone /\ v' = VNone /\ a_optional d = true /\ a_required d = false) \/
  (v <> VNone /\ validate cl (a_ty d) v = Ok v' /\ check_ok (a_checker d) v' = true).
Proof. exact assign_stored. Qed.
Print Assumptions C15_assign_stored.

(* config.k = v either raises and leaves the configuration as it was, or stores a
   value of the declared type (None only for a non-required parameter) under k
   and changes nothing else                                                      *)
Theorem C15_assign_stores_or_raises : forall cl n k v n' o,
  cfg_set cl n k v = (n', o) ->
  (o <> Stored /\ n' = n) \/
  (o = Stored /\ exists d v',
      nth_error (class_args cl (n_cls n)) k = Some d /\
      cfg_get n' k = Some v' /\ arg_has_type cl d v' /\
      (forall j, j <> k -> cfg_get n' j = cfg_get n j) /\
      n_cls n' = n_cls n /\ n_pre n' = n_pre n /\ n_init n' = n_init n /\ n_sealed n' = n_sealed n).
Proof. exact assign_stores_or_raises. Qed.
Print Assumptions C15_assign_stores_or_raises.

(* a conforming value (that its checker, if any, accepts) given to a writable parameter reads
   back equal; None only where the parameter is declared Optional                        *)
Theorem C15_readback : forall cl n k d v,
  nth_error (class_args cl (n_cls n)) k = Some d ->
  n_sealed n = false -> a_generated d = false -> a_constant d = false ->
  (v = VNone /\ a_required d = false /\ a_optional d = true) \/
  (has_type cl v (a_ty d) /\ check_ok (a_checker d) v = true) ->
  exists n', cfg_set cl n k v = (n', Stored) /\ cfg_get n' k = Some v.
Proof. exact readback. Qed.
Print Assumptions C15_readback.

(* ---- construction: TypeConfig.__init__ (declared defaults go through set) *)

(* a configuration that has just been built - declared defaults, None for what is not
   required, then the keyword arguments - only holds values of the declared types   *)
Theorem C15_new_typed : forall cl defs c kw n,
  cfg_new cl defs c kw = Ok n -> fields_typed cl n /\ n_cls n = c.
Proof. exact new_typed. Qed.
Print Assumptions C15_new_typed.

(* a parameter that was never assigned holds its declared default after the documented
   coercions, at any depth (Param[float] = 1 holds 1.0, Param[List[float]] = [1, 2]
   holds [1.0, 2.0], Param[Path] = "d" holds Path("d")), not the default as written   *)
Theorem C15_new_default_coerced : forall cl defs c n i d dv x,
  cfg_new cl defs c [] = Ok n ->
  nth_error (class_args cl c) i = Some d -> nth_error defs i = Some (Some dv) ->
  dv <> VNone -> coerced cl (a_ty d) dv x -> check_ok (a_checker d) x = true ->
  cfg_get n i = Some x.
Proof. exact new_default_coerced. Qed.
Print Assumptions C15_new_default_coerced.

(* ... which is exactly what assigning the default would store *)
Theorem C15_new_default_as_assigned : forall cl defs c n i d dv n0,
  cfg_new cl defs c [] = Ok n ->
  nth_error (class_args cl c) i = Some d -> nth_error defs i = Some (Some dv) ->
  dv <> VNone -> a_generated d = false -> a_constant d = false ->
  n_cls n0 = c -> n_sealed n0 = false ->
  exists n1, cfg_set cl n0 i dv = (n1, Stored) /\ cfg_get n1 i = cfg_get n i.
Proof. exact new_default_as_assigned. Qed.
Print Assumptions C15_new_default_as_assigned.

(* over any history of assignments, submits and validations on a set of objects
   (task values are accepted according to the job flags at the time of the assignment),
   every parameter of every object keeps holding a value of its declared type        *)
Theorem C15_history_typed : forall cl ops s,
  heap_typed cl (s_heap s) -> heap_typed cl (s_heap (sess_run cl s ops)).
Proof. exact sess_run_typed. Qed.
Print Assumptions C15_history_typed.

(* ---- submission: ConfigInformation.validate before registration (repaired code) *)

(* a required, non-generated value missing at any node reachable through
   configuration-typed values (directly, as list elements, as dict values, at any
   depth), pre-tasks or init tasks - cycles and sharing allowed - makes submit
   raise, and the registry is what it was                                         *)
Theorem C15_missing_rejected : forall cl h registry root m,
  reach objs cl h root m -> lacks_required cl h m ->
  submit cl h registry root = (registry, Rejected).
Proof. exact missing_rejected. Qed.
Print Assumptions C15_missing_rejected.

(* conversely a graph without missing values is accepted and registered (validation terminates) *)
Theorem C15_complete_accepted : forall cl h registry root,
  (forall m, reach objs cl h root m -> ~ lacks_required cl h m) ->
  submit cl h registry root = (registry ++ [root], Accepted).
Proof. exact complete_accepted. Qed.
Print Assumptions C15_complete_accepted.

(* submit step by step (job created, validation, registration as separate steps), in any
   state of a session - whichever objects already have a job - and for both behaviours of
   a rejected submit (rb = true: the job is dropped again; false: the code as it is):
   a required value missing below the submitted task makes submit raise, and in NO state
   the submit goes through has the registry gained anything                             *)
Theorem C15_session_missing_rejected : forall rb cl s root init n m,
  nth_error (s_heap s) root = Some n ->
  let h' := upd_nth (s_heap s) root (set_init n init) in
  reach objs cl h' root m -> lacks_required cl h' m ->
  exists tr, submit_trace rb cl s root init = (tr, Rejected) /\
             Forall (fun s' => s_reg s' = s_reg s) tr.
Proof. exact session_missing_rejected. Qed.
Print Assumptions C15_session_missing_rejected.

(* "before any job is registered", derived: whatever the submit, every state it goes
   through has the registry it started with, or has gained the task - and then the validation
   of the task with its new init tasks has answered VOk                                              *)
Theorem C15_registered_only_after_validation : forall rb cl s root init tr v,
  submit_trace rb cl s root init = (tr, v) ->
  Forall (fun s' => s_reg s' = s_reg s \/
                    (s_reg s' = s_reg s ++ [root] /\ v = Accepted /\
                     exists n vis, nth_error (s_heap s) root = Some n /\
                       cfg_validate cl (s_heap (begin_submit s root n init)) root = Some (VOk vis))) tr.
Proof. exact registered_only_after_validation. Qed.
Print Assumptions C15_registered_only_after_validation.

(* a complete task that has no job yet is accepted and registered, in any session state *)
Theorem C15_session_complete_accepted : forall rb cl s root init n,
  nth_error (s_heap s) root = Some n ->
  mem root (s_jobs s) = false -> class_task cl (n_cls n) = true ->
  let h' := upd_nth (s_heap s) root (set_init n init) in
  (forall m, reach objs cl h' root m -> ~ lacks_required cl h' m) ->
  exists s', sess_step_gen rb cl s (OSubmit root init) = (s', Accepted) /\ s_reg s' = s_reg s ++ [root].
Proof. exact session_complete_accepted. Qed.
Print Assumptions C15_session_complete_accepted.

(* instantiating validates as well: with a required value missing below it a configuration
   cannot be instantiated, and nothing is sealed.  (Sealed configurations are walked like
   the others by every validation: a loaded configuration is sealed without having been
   validated, a task instantiated before submit gets its init tasks afterwards - examples
   loaded_incomplete_rejected, presealed_task_incomplete_init_rejected.)                  *)
Theorem C15_instance_missing_rejected : forall rb cl s root m,
  reach objs cl (s_heap s) root m -> lacks_required cl (s_heap s) m ->
  sess_step_gen rb cl s (OInstance root) = (s, Rejected).
Proof. exact instance_missing_rejected. Qed.
Print Assumptions C15_instance_missing_rejected.

(* repaired code (fixes/C15-4): a call that raises - a rejected submit in particular -
   leaves every object, every job flag and the registry as they were                  *)
Theorem C15_rejected_changes_nothing : forall cl s o s',
  sess_step cl s o = (s', Rejected) -> s' = s.
Proof. exact rejected_changes_nothing. Qed.
Print Assumptions C15_rejected_changes_nothing.

(* the walk with an explicit stack used above is the recursive method: whatever
   the recursive validate() answers (it did not exhaust its recursion budget),
   cfg_validate answers                                                          *)
Theorem C15_recursive_validate_agrees : forall cl h fuel root r,
  validate_rec objs cl h fuel [] root = Some r -> cfg_validate cl h root = Some r.
Proof. exact recursive_validate_agrees. Qed.
Print Assumptions C15_recursive_validate_agrees.

(* the literal walk of the pinned commit is only correct for configurations held
   directly and when the marks left by earlier validations are sound              *)
Theorem C15_missing_rejected_prefix : forall cl h st root m,
  closed_marks objs_prefix cl h (fst st) ->
  reach objs_prefix cl h root m -> lacks_required cl h m ->
  exists marks, submit_prefix cl h st root = ((marks, snd st), Rejected).
Proof. exact missing_rejected_prefix. Qed.
Print Assumptions C15_missing_rejected_prefix.

(* ---- records of the defects of the pinned commit *)

(* #13: a Meta value missing on a configuration inside a list: accepted and registered *)
Theorem C15_missing_in_list_refuted : exists cl h root m,
  reach objs cl h root m /\ lacks_required cl h m /\
  submit_prefix cl h ([], []) root = (([1; 0]%nat, [root]), Accepted).
Proof. exact missing_in_list_refuted. Qed.
Print Assumptions C15_missing_in_list_refuted.

(* the _validated mark survives a failed validation: the second task is accepted *)
Theorem C15_stale_mark_refuted : exists cl h t1 t2 m st1,
  reach objs_prefix cl h t2 m /\ lacks_required cl h m /\
  submit_prefix cl h ([], []) t1 = (st1, Rejected) /\
  submit_prefix cl h st1 t2 = ((t2 :: fst st1, [t2]), Accepted).
Proof. exact stale_mark_refuted. Qed.
Print Assumptions C15_stale_mark_refuted.

(* ObjectType.validate(None) returns None: List[A] stores [None] *)
Theorem C15_none_in_container_refuted : exists cl t v v',
  validate_prefix cl t v = Ok v' /\ ~ has_type cl v' t.
Proof. exact none_in_container_refuted. Qed.
Print Assumptions C15_none_in_container_refuted.

(* the code as it is (5d2cab3): a REJECTED submit changes the task - its job stays (nothing
   is registered): the task is then accepted where a submitted task is required, and once
   completed it is refused ("already submitted") although its validation passes          *)
Theorem C15_rejected_submit_leaves_job_refuted : exists cl s root init s',
  sess_step_prefix cl s (OSubmit root init) = (s', Rejected) /\ s' <> s /\
  s_reg s' = [] /\
  snd (sess_step_prefix cl s' (OSet 0 1 (VObj root 0 false))) = Accepted /\
  snd (sess_step_prefix cl s (OSet 0 1 (VObj root 0 false))) = Rejected /\
  let s2 := fst (sess_step_prefix cl s' (OSet root 0 (VInt 5))) in
  snd (sess_step_prefix cl s' (OSet root 0 (VInt 5))) = Accepted /\
  snd (sess_step_prefix cl s2 (OSubmit root init)) = Rejected /\
  exists vis, cfg_validate cl (s_heap s2) root = Some (VOk vis).
Proof. exact rejected_submit_leaves_job_refuted. Qed.
Print Assumptions C15_rejected_submit_leaves_job_refuted.

(* the code as it is: BoolType.validate is bool(value) for any value - a list, a string, a
   float given to a Param[bool] is silently stored as True/False                          *)
Theorem C15_bool_accepts_anything_refuted : exists cl v v',
  validate_prefix cl TBool v = Ok v' /\ ~ coerced cl TBool v v' /\ ~ odd cl TBool v /\
  validate_prefix cl TBool (VStr "no") = Ok (VBool true).
Proof. exact bool_accepts_anything_refuted. Qed.
Print Assumptions C15_bool_accepts_anything_refuted.

(* the code before fixes/C15-7: x: Param[int] = 3 (not Optional) assigned None holds None *)
Theorem C15_none_for_defaulted_refuted : exists cl d v',
  a_optional d = false /\ assign_prefix cl d false false VNone = Ok v' /\ ~ has_type cl v' (a_ty d).
Proof. exact none_for_defaulted_refuted. Qed.
Print Assumptions C15_none_for_defaulted_refuted.
