(* C15 - parameters only ever hold values of their declared type; submit fails fast.
   Statements only; every proof is `exact <lemma>`.                              *)
From Coq Require Import ZArith List String.
From XV Require Import model.Types proofs.Types_lemmas.
Import ListNotations.
Open Scope Z_scope.

(* ---- assignment: Type.validate / ConfigInformation.set *)

(* whatever validate returns is of the declared type - for every type expression
   over int, float, bool, str, path, enums, lists, dicts, configuration classes
   (subclassing, "a task must have been submitted"), at any nesting depth        *)
Theorem C15_validate_sound : forall cl t v v',
  validate cl t v = Ok v' -> has_type cl v' t.
Proof. exact validate_sound. Qed.
Print Assumptions C15_validate_sound.

(* a value of the declared type is accepted and stored unchanged *)
Theorem C15_validate_conforming : forall cl t v,
  has_type cl v t -> validate cl t v = Ok v.
Proof. exact validate_conforming. Qed.
Print Assumptions C15_validate_conforming.

(* the documented coercions (integral float -> int, int -> float, str -> path),
   applied at any depth inside lists and dicts, give exactly the documented result *)
Theorem C15_validate_coerces : forall cl t v v',
  coerced cl t v v' -> validate cl t v = Ok v'.
Proof. exact validate_coerces. Qed.
Print Assumptions C15_validate_coerces.

(* config.k = v either raises and leaves the configuration as it was, or stores a
   value of the declared type (None only for a non-required parameter) under k
   and changes nothing else                                                      *)
Theorem C15_assign_stores_or_raises : forall cl n k v n' o,
  cfg_set cl n k v = (n', o) ->
  (o <> Stored /\ n' = n) \/
  (o = Stored /\ exists d v',
      nth_error (class_args cl (n_cls n)) k = Some d /\
      cfg_get n' k = Some v' /\ arg_has_type cl d v' /\
      (forall j, j <> k -> cfg_get n' j = cfg_get n j) /\
      n_cls n' = n_cls n /\ n_pre n' = n_pre n /\ n_init n' = n_init n /\ n_sealed n' = n_sealed n).
Proof. exact assign_stores_or_raises. Qed.
Print Assumptions C15_assign_stores_or_raises.

(* a conforming value given to a writable parameter reads back equal *)
Theorem C15_readback : forall cl n k d v,
  nth_error (class_args cl (n_cls n)) k = Some d ->
  n_sealed n = false -> a_generated d = false -> a_constant d = false ->
  arg_has_type cl d v ->
  exists n', cfg_set cl n k v = (n', Stored) /\ cfg_get n' k = Some v.
Proof. exact readback. Qed.
Print Assumptions C15_readback.

(* ---- submission: ConfigInformation.validate before registration (repaired code) *)

(* a required, non-generated value missing at any node reachable through
   configuration-typed values (directly, as list elements, as dict values, at any
   depth), pre-tasks or init tasks - cycles and sharing allowed - makes submit
   raise, and the registry is what it was                                         *)
Theorem C15_missing_rejected : forall cl h registry root m,
  reach objs cl h root m -> lacks_required cl h m ->
  submit cl h registry root = (registry, Rejected).
Proof. exact missing_rejected. Qed.
Print Assumptions C15_missing_rejected.

(* conversely a graph without missing values is accepted and registered (validation terminates) *)
Theorem C15_complete_accepted : forall cl h registry root,
  (forall m, reach objs cl h root m -> ~ lacks_required cl h m) ->
  submit cl h registry root = (registry ++ [root], Accepted).
Proof. exact complete_accepted. Qed.
Print Assumptions C15_complete_accepted.

(* the walk with an explicit stack used above is the recursive method: whatever
   the recursive validate() answers (it did not exhaust its recursion budget),
   cfg_validate answers                                                          *)
Theorem C15_recursive_validate_agrees : forall cl h fuel root r,
  validate_rec objs cl h fuel [] root = Some r -> cfg_validate cl h root = Some r.
Proof. exact recursive_validate_agrees. Qed.
Print Assumptions C15_recursive_validate_agrees.

(* the literal walk of the pinned commit is only correct for configurations held
   directly and when the marks left by earlier validations are sound              *)
Theorem C15_missing_rejected_prefix : forall cl h st root m,
  closed_marks objs_prefix cl h (fst st) ->
  reach objs_prefix cl h root m -> lacks_required cl h m ->
  exists marks, submit_prefix cl h st root = ((marks, snd st), Rejected).
Proof. exact missing_rejected_prefix. Qed.
Print Assumptions C15_missing_rejected_prefix.

(* ---- records of the defects of the pinned commit *)

(* #13: a Meta value missing on a configuration inside a list: accepted and registered *)
Theorem C15_missing_in_list_refuted : exists cl h root m,
  reach objs cl h root m /\ lacks_required cl h m /\
  submit_prefix cl h ([], []) root = (([1; 0]%nat, [root]), Accepted).
Proof. exact missing_in_list_refuted. Qed.
Print Assumptions C15_missing_in_list_refuted.

(* the _validated mark survives a failed validation: the second task is accepted *)
Theorem C15_stale_mark_refuted : exists cl h t1 t2 m st1,
  reach objs_prefix cl h t2 m /\ lacks_required cl h m /\
  submit_prefix cl h ([], []) t1 = (st1, Rejected) /\
  submit_prefix cl h st1 t2 = ((t2 :: fst st1, [t2]), Accepted).
Proof. exact stale_mark_refuted. Qed.
Print Assumptions C15_stale_mark_refuted.

(* ObjectType.validate(None) returns None: List[A] stores [None] *)
Theorem C15_none_in_container_refuted : exists cl t v v',
  validate_prefix cl t v = Ok v' /\ ~ has_type cl v' t.
Proof. exact none_in_container_refuted. Qed.
Print Assumptions C15_none_in_container_refuted.
