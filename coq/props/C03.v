(* C03 - configurations with different signatures never share an identifier.
   Statements only; every proof is `exact <lemma>`.  H is an arbitrary hash
   function: the conclusions are about the byte stream fed to H, so two different
   signatures share an identifier only if H itself collides on the two exhibited
   streams.                                                                      *)
From Coq Require Import ZArith NArith List Bool.
From XV Require Import core.Value model.Hash model.Ser model.Deep proofs.Ser_lemmas proofs.Tok_lemmas proofs.Deep_lemmas proofs.OwnMark_lemmas.
Import ListNotations.

(* the encoding of a parameter value is uniquely readable: for every well-formed
   declared type (scalars, strings and enum names without control characters, nested
   identifiers, optionals, lists, dicts nested so that an item of an enclosing dict can
   never be read as an item of an inner one - in particular dicts nested at most two
   levels), two values of that type with the same encoding, each followed by an
   admissible continuation of the stream, are equal and so are the continuations     *)
Theorem C03_value_encoding_injective : forall t, wf_ty t ->
  forall v1 v2 r1 r2, has_type t v1 -> has_type t v2 -> fol t r1 -> fol t r2 ->
    enc v1 ++ r1 = enc v2 ++ r2 -> v1 = v2 /\ r1 = r2.
Proof. exact enc_inj. Qed.
Print Assumptions C03_value_encoding_injective.

(* the stream hashed for one configuration determines its type identifier, the task that
   produced it, and the exact list of (parameter name, value): list order and length, dict
   keys, enum member, which nested list or dict an element sits in, constants, ...        *)
Theorem C03_signature_encoding_injective : forall s1 s2,
  wf_sig s1 -> wf_sig s2 -> same_decl s1 s2 -> enc_sig s1 = enc_sig s2 -> s1 = s2.
Proof. exact enc_sig_inj. Qed.
Print Assumptions C03_signature_encoding_injective.

(* the model of HashComputer hashes exactly that stream *)
Theorem C03_model_hashes_the_encoding : forall H cs h look ty fuel st n,
  hnode H cs h look fuel st n
  = (do r <- tok_node H cs h look ty fuel st n; Ok (H (enc_sig (fst r)), snd r)).
Proof. exact hnode_tok. Qed.
Print Assumptions C03_model_hashes_the_encoding.

(* hence: two configurations, of any two graphs, in the typed domain: equal identifiers
   force equal token-level signatures, or exhibit two different streams on which H collides *)
Theorem C03_identifiers_differ_or_collision :
  forall H ty cs1 h1 look1 f1 st1 n1 cs2 h2 look2 f2 st2 n2 s1 e1 s2 e2 d1 x1 d2 x2,
  tok_node H cs1 h1 look1 ty f1 st1 n1 = Ok (s1, e1) -> tok_node H cs2 h2 look2 ty f2 st2 n2 = Ok (s2, e2) ->
  wf_sig s1 -> wf_sig s2 ->
  (forall k t v, In (k, t, v) (ss_args s1) \/ In (k, t, v) (ss_args s2) -> t = ty k) ->
  hnode H cs1 h1 look1 f1 st1 n1 = Ok (d1, x1) -> hnode H cs2 h2 look2 f2 st2 n2 = Ok (d2, x2) ->
  d1 = d2 -> s1 = s2 \/ collision H.
Proof. exact ident_inj_or_collision. Qed.
Print Assumptions C03_identifiers_differ_or_collision.

(* the decidable domain test evaluated on every generated configuration is sound *)
Theorem C03_domain_test_sound : forall s, wf_sigb true s = true -> wf_sig s.
Proof. exact wf_sigb_ok. Qed.
Print Assumptions C03_domain_test_sound.

(* the domain is tight: the two families named in the property do collide *)
Theorem C03_string_collision_outside_domain :
  let s1 := {| ss_task := None; ss_tid := [115]%N;
               ss_args := [([97]%N, TStr, SStr [120]%N); ([98]%N, TStr, SStr [121]%N)] |} in
  let s2 := {| ss_task := None; ss_tid := [115]%N;
               ss_args := [([97]%N, TStr, SStr [120; 3; 98; 5; 3; 121]%N)] |} in
  s1 <> s2 /\ enc_sig s1 = enc_sig s2.
Proof. exact str_collision_outside_domain. Qed.
Print Assumptions C03_string_collision_outside_domain.

Theorem C03_dict3_collision_outside_domain :
  let i1 := SDict [([120]%N, SInt 1)] in
  let v1 := SDict [([97]%N, SDict [([98]%N, i1)]); ([99]%N, SDict [])] in
  let v2 := SDict [([97]%N, SDict [([98]%N, i1); ([99]%N, SDict [])])] in
  v1 <> v2 /\ enc v1 = enc v2 /\ ~ wf_ty (TDict (TDict (TDict TInt))).
Proof. exact dict3_collision_outside_domain. Qed.
Print Assumptions C03_dict3_collision_outside_domain.

(* the full identifier (job directory): the outer stream raw ‖ sorted pre-task identifiers ‖
   [INIT_TASKS ‖ init-task identifiers] determines the raw identifier, the collection of pre-task
   identifiers and the SEQUENCE of init-task identifiers (32-byte identifiers; excluded event: a
   pre-task identifier starting with the INIT_TASKS byte)                                        *)
Theorem C03_full_identifier_stream_injective : forall raw1 raw2 p1 p2 i1 i2,
  id32 raw1 -> id32 raw2 -> Forall id32 p1 -> Forall id32 p2 -> Forall not_marker p1 -> Forall not_marker p2 ->
  Forall id32 i1 -> Forall id32 i2 ->
  full_stream raw1 p1 i1 = full_stream raw2 p2 i2 -> raw1 = raw2 /\ p1 = p2 /\ i1 = i2.
Proof. exact full_stream_inj. Qed.
Print Assumptions C03_full_identifier_stream_injective.

Theorem C03_model_full_identifier_hashes_stream : forall H raw pre init,
  full_of H raw pre init = H (full_stream raw (sort_by (fun x => x) pre) init).
Proof. exact full_of_stream. Qed.
Print Assumptions C03_model_full_identifier_hashes_stream.

(* RECURSIVELY: the deep signature of a configuration is its signature with every nested
   configuration unfolded (type identifiers, parameter names, declared types and values at every
   depth; cycle references at their relative positions).  The identifier of a node is the identifier
   of its deep signature ...                                                                       *)
Theorem C03_identifier_of_deep_signature : forall H cs h cty fuel st n,
  hnode H cs h (fun _ => None) fuel st n = (do r <- dnode cs h cty fuel st n; Ok (node_id H (fst r), snd r)).
Proof. exact hnode_deep. Qed.
Print Assumptions C03_identifier_of_deep_signature.

(* ... and two configurations, of any two graphs, whose deep signatures are in the typed domain at
   every level (declared types given by type identifier and parameter name): equal identifiers force
   EQUAL DEEP SIGNATURES - a difference anywhere below, at any depth, changes the identifier - or two
   different byte streams on which H collides are exhibited                                        *)
Theorem C03_deep_injective : forall H cty cs1 h1 f1 st1 n1 cs2 h2 f2 st2 n2 t1 e1 t2 e2 d1 x1 d2 x2,
  dnode cs1 h1 cty f1 st1 n1 = Ok (t1, e1) -> dnode cs2 h2 cty f2 st2 n2 = Ok (t2, e2) ->
  wfd H cty t1 -> wfd H cty t2 ->
  hnode H cs1 h1 (fun _ => None) f1 st1 n1 = Ok (d1, x1) -> hnode H cs2 h2 (fun _ => None) f2 st2 n2 = Ok (d2, x2) ->
  d1 = d2 -> t1 = t2 \/ collision H.
Proof. exact deep_ident_inj. Qed.
Print Assumptions C03_deep_injective.

Theorem C03_deep_domain_test_sound : forall H cty v, wfdb H cty true v = true -> wfd H cty v.
Proof. exact wfdb_sound. Qed.
Print Assumptions C03_deep_domain_test_sound.

(* the one-level theorem with declared types that need only agree when the type identifiers agree *)
Theorem C03_signature_encoding_injective_per_class : forall s1 s2,
  wf_sig s1 -> wf_sig s2 -> (ss_tid s1 = ss_tid s2 -> same_decl s1 s2) -> enc_sig s1 = enc_sig s2 -> s1 = s2.
Proof. exact enc_sig_inj_tid. Qed.
Print Assumptions C03_signature_encoding_injective_per_class.

(* ---- the recorded open finding C03:collision:init-tasks-of-producing-task, in the model: the clause "the task that
   produced an embedded task output" holds for the RAW identity of the producing task only; two submissions of one task
   that differ by their init tasks are two jobs, and what embeds their outputs is one configuration.               *)
Theorem C03_init_tasks_of_producer_refuted :
  full_pure (fun b => b) it_classes (it_heap 1) 9 1 <> full_pure (fun b => b) it_classes (it_heap 2) 9 1
  /\ (exists d, full_pure (fun b => b) it_classes (it_heap 1) 9 3 = Ok d
                /\ full_pure (fun b => b) it_classes (it_heap 2) 9 3 = Ok d).
Proof. exact init_tasks_of_producer_collide. Qed.
Print Assumptions C03_init_tasks_of_producer_refuted.
