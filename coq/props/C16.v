(* C16 - the experiment's job index lists exactly the jobs of the last completed plan.
   Statements only; every proof is `exact <lemma>`.                                   *)
From Coq Require Import ZArith List.
From XV Require Import model.XpIndex proofs.XpIndex_lemmas.
Import ListNotations.
Open Scope Z_scope.

(* When __exit__ returns after a block that ended without exception (last event `Done p`), the
   job folder links exactly the jobs p submitted during that run, each link points to the
   directory of its job, no backup index remains and the lock is free.  Any history before. *)
Theorem C16_completed_exact : forall tr p s,
  run init (tr ++ [Done p]) = Some s ->
  same_set (names (jobs s)) (subs_of p (tr ++ [Done p])) /\ NoDup (names (jobs s)) /\
  (forall l, In l (jobs s) -> snd l = dir_of (fst l)) /\
  bak s = None /\ lock s = None.
Proof. exact completed_exact. Qed.
Print Assumptions C16_completed_exact.

(* After any history (any number of runs and jobs, ended normally, by an exception or by a
   kill between any two filesystem operations, any interleaving of several processes), the links
   made by the last run whose block ended without exception and every link made by a later
   run are all still in jobs/ or jobs.bak/ ...                                              *)
Theorem C16_backup_keeps : forall tr s, run init tr = Some s ->
  incl (kept tr) (names (jobs s) ++ names (bakl s)).
Proof. exact backup_keeps. Qed.
Print Assumptions C16_backup_keeps.

(* ... so the orphans command (the set difference it computes) never reports them *)
Theorem C16_never_orphan : forall tr s j, run init tr = Some s -> In j (kept tr) -> ~ In j (orphans s).
Proof. exact never_orphan. Qed.
Print Assumptions C16_never_orphan.

(* "the previous index is kept as backup": except for the rmtree of an exit without exception,
   no step (exception, kill, enter, link, ...) ever removes a name from jobs/ + jobs.bak/.
   Holds in every state, reachable or not.                                                  *)
Theorem C16_only_ok_exit_forgets : forall s e s', step s e = Some s' ->
  (forall p n, e <> RmEntry p n) ->
  incl (names (jobs s) ++ names (bakl s)) (names (jobs s') ++ names (bakl s')).
Proof. exact only_ok_exit_forgets. Qed.
Print Assumptions C16_only_ok_exit_forgets.

(* "If the block raises, the previous index is kept as backup" - for every class of exception:
   __exit__ treats a block left through an Exception and one left through a BaseException that is not
   an Exception (sys.exit, KeyboardInterrupt, GeneratorExit, CancelledError) in the same way ...       *)
Theorem C16_abort_class_irrelevant : forall s p c c', step s (EndExc p c) = step s (EndExc p c').
Proof. exact abort_class_irrelevant. Qed.
Print Assumptions C16_abort_class_irrelevant.

(* ... and after any history, leaving the block through an exception of any class changes neither
   jobs/ nor jobs.bak/, the backup directory exists, the lock is free, and everything to keep is there *)
Theorem C16_raise_keeps_index : forall tr s p c s', run init tr = Some s -> step s (EndExc p c) = Some s' ->
  jobs s' = jobs s /\ bak s' = bak s /\ (exists b, bak s' = Some b) /\ lock s' = None /\ ph s' p = Out /\
  incl (kept (tr ++ [EndExc p c])) (names (jobs s') ++ names (bakl s')).
Proof. exact raise_keeps_index. Qed.
Print Assumptions C16_raise_keeps_index.

(* sensitivity: with an __exit__ that only counts instances of Exception as a failure (not the code),
   a run left through sys.exit()/KeyboardInterrupt drops the index of the last completed plan       *)
Theorem C16_exception_only_variant_refuted : exists tr s,
  run_exconly init tr = Some s /\ ~ incl (kept tr) (names (jobs s) ++ names (bakl s)) /\ In 1 (orphans s).
Proof. exact exception_only_variant_refuted. Qed.
Print Assumptions C16_exception_only_variant_refuted.

(* AUDIT finding: "last completed plan" read as "last run whose wait() returned" (kept_w) instead of "last
   run whose block ended" (kept).  The code as it is removes jobs.bak BEFORE wait(): a run killed while
   waiting for its jobs, or whose wait() raises, has already forgotten the previous plan - refuted
   (key C16:backup-dropped-before-wait, fixes/C16-1.diff)                                          *)
Theorem C16_wait_based_keep_refuted : exists tr s,
  run init tr = Some s /\ ~ incl (kept_w tr) (names (jobs s) ++ names (bakl s)) /\ In 1 (orphans s).
Proof. exact wait_based_keep_refuted. Qed.
Print Assumptions C16_wait_based_keep_refuted.

(* With the repaired order (step_late: wait() first, rmtree(jobs.bak) only after it returned) the stronger
   statement holds after any history: kills anywhere (also anywhere inside __exit__), wait() raising,
   exceptions of any class, any interleaving of processes                                          *)
Theorem C16_late_backup_keeps : forall tr s, run_late init tr = Some s ->
  incl (kept_w tr) (names (jobs s) ++ names (bakl s)).
Proof. exact late_backup_keeps. Qed.
Print Assumptions C16_late_backup_keeps.

Theorem C16_late_never_orphan : forall tr s j, run_late init tr = Some s -> In j (kept_w tr) -> ~ In j (orphans s).
Proof. exact late_never_orphan. Qed.
Print Assumptions C16_late_never_orphan.

Theorem C16_late_completed_exact : forall tr p s,
  run_late init (tr ++ [Done p]) = Some s ->
  same_set (names (jobs s)) (subs_of p (tr ++ [Done p])) /\ NoDup (names (jobs s)) /\
  (forall l, In l (jobs s) -> snd l = dir_of (fst l)) /\
  bak s = None /\ lock s = None.
Proof. exact late_completed_exact. Qed.
Print Assumptions C16_late_completed_exact.

Theorem C16_late_only_completed_exit_forgets : forall s e s', step_late s e = Some s' ->
  (forall p n, e <> RmEntry p n) ->
  incl (names (jobs s) ++ names (bakl s)) (names (jobs s') ++ names (bakl s')).
Proof. exact late_only_completed_exit_forgets. Qed.
Print Assumptions C16_late_only_completed_exit_forgets.

Theorem C16_late_exclusive : forall tr s p q, run_late init tr = Some s ->
  is_out (ph s p) = false -> is_out (ph s q) = false -> p = q.
Proof. exact late_exclusive. Qed.
Print Assumptions C16_late_exclusive.

(* Run kinds other than NORMAL (round 6).  A generate-only run takes the experiment lock but neither rotates
   nor rebuilds the index; a dry run has no event at all.  Every theorem of this file quantifies over histories
   in which such runs are interleaved with normal ones; in addition: whatever a generate-only run does, jobs/
   and jobs.bak/ stay as they were (code as it was, and repaired order) ...                                  *)
Theorem C16_generate_only_keeps_index : forall s p e s', ph s p = GenIn -> actor e = Some p ->
  step s e = Some s' -> jobs s' = jobs s /\ bak s' = bak s.
Proof. exact generate_only_keeps_index. Qed.
Print Assumptions C16_generate_only_keeps_index.

Theorem C16_generate_only_keeps_index_late : forall s p e s', ph s p = GenIn -> actor e = Some p ->
  step_late s e = Some s' -> jobs s' = jobs s /\ bak s' = bak s.
Proof. exact generate_only_keeps_index_late. Qed.
Print Assumptions C16_generate_only_keeps_index_late.

(* ... and it enters only while the lock is free (same assumption about the primitive as for `Lock`) *)
Theorem C16_generate_only_enters_alone : forall s p s', step s (LockGen p) = Some s' -> lock s = None /\ lock s' = Some p.
Proof. exact generate_only_enters_alone. Qed.
Print Assumptions C16_generate_only_enters_alone.

(* sensitivity: with an __exit__ that removes jobs.bak whenever the lock is held (not the code), a generate-only
   run ending normally after an aborted normal run loses a job of the last completed plan                  *)
Theorem C16_genrm_variant_refuted : exists tr s,
  run_genrm init tr = Some s /\ ~ incl (kept_w tr) (names (jobs s) ++ names (bakl s)) /\ In 2 (orphans s).
Proof. exact genrm_variant_refuted. Qed.
Print Assumptions C16_genrm_variant_refuted.

(* Mutual exclusion.  That an fcntl lock on one file excludes two PROCESSES is an assumption, written into
   the model as the guard of `Lock` (enabled only while `lock = None`) and observed on the implementation
   by the two- and three-process probes; it is not derived.  What the next five statements add is the
   protocol around it: the lock is the first thing taken and the last thing released (or dies with the
   process), so a process is anywhere between __enter__ and the end of __exit__ iff it is the holder, and
   every change of the index is made by the holder.                                                 *)
(* Two processes never hold the same experiment at once *)
Theorem C16_exclusive : forall tr s p q, run init tr = Some s ->
  is_out (ph s p) = false -> is_out (ph s q) = false -> p = q.
Proof. exact exclusive. Qed.
Print Assumptions C16_exclusive.

Theorem C16_inside_iff_holder : forall tr s p, run init tr = Some s ->
  (is_out (ph s p) = false <-> lock s = Some p).
Proof. exact inside_iff_holder. Qed.
Print Assumptions C16_inside_iff_holder.

(* entering is enabled only while the lock is free *)
Theorem C16_enter_needs_free_lock : forall s p s', step s (Lock p) = Some s' -> lock s = None /\ lock s' = Some p.
Proof. exact enter_needs_free_lock. Qed.
Print Assumptions C16_enter_needs_free_lock.

Theorem C16_enter_blocked_while_held : forall s p q, lock s = Some q -> step s (Lock p) = None.
Proof. exact enter_blocked_while_held. Qed.
Print Assumptions C16_enter_blocked_while_held.

(* and every change of jobs/ or jobs.bak/ is made by the holder of the lock *)
Theorem C16_index_changes_under_lock : forall tr s e s', run init tr = Some s -> step s e = Some s' ->
  (jobs s' <> jobs s \/ bak s' <> bak s) -> exists p, actor e = Some p /\ lock s = Some p.
Proof. exact index_changes_under_lock. Qed.
Print Assumptions C16_index_changes_under_lock.

(* sensitivity: with an __enter__ that starts a fresh backup instead of merging into the existing
   one (not the code), two aborted runs in a row lose the last completed plan               *)
Theorem C16_replace_variant_refuted : exists tr s,
  run_replace init tr = Some s /\ ~ incl (kept tr) (names (jobs s) ++ names (bakl s)) /\ In 1 (orphans s).
Proof. exact replace_variant_refuted. Qed.
Print Assumptions C16_replace_variant_refuted.

(* what `lock : option proc` stands for: the fcntl lock of the file named xp/<name>/lock.  The lock
   belongs to the file, not to the name; since the code never removes the file, all processes
   contend for one file and at most one holds it ...                                              *)
Theorem C16_lockfile_exclusive : forall tr s i j p q, lf_run lf_init tr = Some s ->
  lf_holder s i = Some p -> lf_holder s j = Some q -> i = j /\ p = q.
Proof. exact lockfile_exclusive. Qed.
Print Assumptions C16_lockfile_exclusive.

(* ... whereas an __exit__ that also unlinks the lock file after releasing it (not the code) lets a
   waiter acquire the nameless old file while a later contender creates and locks a fresh one   *)
Theorem C16_unlink_variant_refuted : exists tr s i j p q, lf_run_unlink lf_init tr = Some s /\
  lf_holder s i = Some p /\ lf_holder s j = Some q /\ p <> q.
Proof. exact unlink_variant_refuted. Qed.
Print Assumptions C16_unlink_variant_refuted.
