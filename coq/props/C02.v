(* C02 - the identifier ignores everything documented as outside the signature.
   Statements only; every proof is `exact <lemma>`.  H (the hash function) is
   arbitrary; `look` is any state of the identifier cache, so the statements
   hold for fresh and for cached computations alike.                          *)
From Coq Require Import ZArith NArith List Bool Permutation.
From XV Require Import core.Value model.Hash model.Edits proofs.Hash_lemmas proofs.Neutral_lemmas proofs.Full_lemmas proofs.MetaMember_lemmas proofs.OwnMark_lemmas proofs.DefaultSig_lemmas.
Import ListNotations.

(* The general principle: the identifier of every node depends on a graph only
   through the node signatures (type identifier, producing task, the selected
   (name, value) pairs in name order) and the meta flags.                      *)
Theorem C02_depends_on_signature_only : forall H cs cs' h h' look,
  meta_eq h h' -> (forall n, nsig cs h n = nsig cs' h' n) ->
  forall fuel n, raw_ident H cs h look fuel n = raw_ident H cs' h' look fuel n.
Proof. exact ident_sig_ext. Qed.
Print Assumptions C02_depends_on_signature_only.

(* One assignment config.k := v' at any node n, at any depth of any graph, leaves
   the identifier of EVERY node m unchanged as soon as the old and the new value
   are both skipped by the argument loop ...                                    *)
Theorem C02_assignment_neutral : forall H cs h look n x k v v',
  nth_error h n = Some x ->
  assoc k (n_fields x) = Some v ->
  (forall c a, nth_error cs (n_cls x) = Some c -> In a (c_args c) -> a_name a = k ->
               skipped h a v /\ skipped h a v') ->
  forall fuel m, raw_ident H cs h look fuel m
               = raw_ident H cs (upd_nth h n (with_fields x (set_field k v' (n_fields x)))) look fuel m.
Proof. exact assign_neutral. Qed.
Print Assumptions C02_assignment_neutral.

(* ... which is the case for each documented rule: *)
Theorem C02_rule_meta_option_path_parameter : forall h a v,
  a_ignored a = true -> is_meta_false h v = false -> skipped h a v.
Proof. exact skipped_ignored. Qed.
Print Assumptions C02_rule_meta_option_path_parameter.

Theorem C02_rule_generated_parameter : forall h a v, a_gen a = true -> skipped h a v.
Proof. exact skipped_generated. Qed.
Print Assumptions C02_rule_generated_parameter.

Theorem C02_rule_value_equal_to_default : forall h a v d,
  a_const a = false -> a_default a = Some d -> pyeq d (remove_meta h v) = true -> skipped h a v.
Proof. exact skipped_default. Qed.
Print Assumptions C02_rule_value_equal_to_default.

Theorem C02_rule_optional_left_unset : forall h a,
  a_const a = false -> a_required a = false -> a_default a = None -> skipped h a VNone.
Proof. exact skipped_optional_none. Qed.
Print Assumptions C02_rule_optional_left_unset.

Theorem C02_rule_meta_flagged_value : forall h a v, is_meta h v = true -> skipped h a v.
Proof. exact skipped_meta_value. Qed.
Print Assumptions C02_rule_meta_flagged_value.

(* Any change whatsoever (values, class, pre-tasks, ...) inside a configuration
   flagged meta leaves the identifier of every other node unchanged.            *)
Theorem C02_inside_meta_configuration : forall H cs h look m x x',
  nth_error h m = Some x -> n_meta x = Some true -> n_meta x' = Some true ->
  (forall n y, n <> m -> nth_error h n = Some y -> n_task y <> Some m) ->
  forall fuel n, n <> m -> raw_ident H cs h look fuel n = raw_ident H cs (upd_nth h m x') look fuel n.
Proof. exact meta_node_edit_neutral. Qed.
Print Assumptions C02_inside_meta_configuration.

(* Adding to a class a parameter that is skipped on every existing configuration of
   that class (defaulted and left at its default, Meta/Option, generated) leaves
   the identifiers of all existing configurations unchanged.                     *)
Theorem C02_class_extension : forall H cs h look k c a,
  nth_error cs k = Some c ->
  (forall n x, nth_error h n = Some x -> n_cls x = k -> argsel_of h (n_fields x) a = ASkip) ->
  forall fuel m, raw_ident H cs h look fuel m
               = raw_ident H (upd_nth cs k (with_args c (a :: c_args c))) h look fuel m.
Proof. exact class_extension_neutral. Qed.
Print Assumptions C02_class_extension.

(* The full identifier (the job directory name) follows: it is a function of the raw
   identifiers, the collected pre-tasks and the init tasks.                        *)
Theorem C02_full_identifier : forall H cs cs' h h' fuel n,
  (forall m, raw_pure H cs h fuel m = raw_pure H cs' h' fuel m) ->
  map succs h = map succs h' -> map n_pre h = map n_pre h' -> map n_init h = map n_init h' ->
  full_pure H cs h fuel n = full_pure H cs' h' fuel n.
Proof. exact full_pure_ext. Qed.
Print Assumptions C02_full_identifier.

(* configurations flagged as meta, as list elements or dict values AT ANY DEPTH: hashing a value is
   hashing its normal form remove_meta (every meta-flagged member removed, recursively) ...      *)
Theorem C02_hash_ignores_meta_members : forall H cs h look fuel st v,
  hv H cs h look fuel st v = hv H cs h look fuel st (remove_meta h v).
Proof. exact hv_strip. Qed.
Print Assumptions C02_hash_ignores_meta_members.

(* ... and replacing the stored value of a parameter of any node by a value with the same normal
   form leaves the identifier of EVERY node unchanged - including the decision "equal to the
   default, hence not hashed", which the pinned commit took on a one-level normal form           *)
Theorem C02_meta_members_any_depth : forall H cs h look n x k v v',
  nth_error h n = Some x -> assoc k (n_fields x) = Some v -> remove_meta h v = remove_meta h v' ->
  forall fuel m, raw_ident H cs h look fuel m
               = raw_ident H cs (upd_nth h n (with_fields x (set_field k v' (n_fields x)))) look fuel m.
Proof. exact meta_member_neutral. Qed.
Print Assumptions C02_meta_members_any_depth.

Theorem C02_default_test_one_level_refuted : exists h d v v',
  remove_meta h v = remove_meta h v' /\ pyeq d (remove_meta1 h v) <> pyeq d (remove_meta1 h v').
Proof. exact default_test_one_level_refuted. Qed.
Print Assumptions C02_default_test_one_level_refuted.

(* ---- the default test of the repaired implementation for defaults that hold configurations (bb7497a): "both are
   hashed alike".  It ignores meta-flagged members of the value and of the default at any depth, cannot tell apart two
   values that are hashed alike, and sees the mark of the producing task.                                           *)
Theorem C02_default_by_signature_ignores_meta_members : forall H cs h look fuel d v,
  is_default_sig H cs h look fuel d v = is_default_sig H cs h look fuel d (remove_meta h v).
Proof. exact default_sig_ignores_meta_members. Qed.
Print Assumptions C02_default_by_signature_ignores_meta_members.

Theorem C02_default_by_signature_ignores_meta_members_of_default : forall H cs h look fuel d v,
  is_default_sig H cs h look fuel d v = is_default_sig H cs h look fuel (remove_meta h d) v.
Proof. exact default_sig_ignores_meta_members_of_default. Qed.
Print Assumptions C02_default_by_signature_ignores_meta_members_of_default.

Theorem C02_default_by_signature_respects_hash : forall H cs h look fuel d v v',
  hv H cs h look fuel [] v = hv H cs h look fuel [] v' ->
  is_default_sig H cs h look fuel d v = is_default_sig H cs h look fuel d v'.
Proof. exact default_sig_respects_hash. Qed.
Print Assumptions C02_default_by_signature_respects_hash.

Theorem C02_default_by_signature_sees_task_mark :
  is_default_sig (fun b => b) om_classes (mark om_heap 0 1 ++ om_heap) (fun _ => None) 6 (VRef 2) (VRef 0) = false
  /\ is_default_sig (fun b => b) om_classes (mark om_heap 0 1 ++ om_heap) (fun _ => None) 6 (VRef 2) (VRef 2) = true.
Proof. exact default_sig_sees_task_mark. Qed.
Print Assumptions C02_default_by_signature_sees_task_mark.
