(* C08 - jobs running under a token never hold more than its capacity.
   Statements only; every proof is `exact <lemma>`.  Model: model/TokenFS.v.
   `reachable V C s`: s is reached from the empty directory by any finite sequence of steps
   of any number of scheduler processes (start, kill, acquire, write, launch, job end,
   release, delivery of any pending filesystem event in any order, watcher threads firing),
   including kills between open() and write() of a token file.  V ranges over every variant
   whose watcher thread tests and deletes under the job lock (`v_fire V = true`, fixes/C08-1):
   the capacity theorems do not depend on the C09 repairs, but they are FALSE for the pinned
   watcher thread (C08_stale_watcher_refuted).                                            *)
From Coq Require Import ZArith List.
From XV Require Import model.TokenFS proofs.TokenFS_lemmas.
Import ListNotations.
Open Scope Z_scope.

(* the holdings recorded in the token directory never exceed the total: with the file that
   is being created counted at its job's request (held_sum) and for the written files
   alone (written_sum)                                                                   *)
Theorem C08_capacity_disk : forall V C s,
  (forall j, 0 <= c_cnt C j) -> 0 <= c_total C -> v_fire V = true -> reachable V C s ->
  held_sum C s <= c_total C /\ written_sum C s <= c_total C.
Proof. exact capacity_disk. Qed.
Print Assumptions C08_capacity_disk.

(* a job between the acquisition of its token and the end of its process has its token
   file, with its full request                                                           *)
Theorem C08_running_has_file : forall V C s j,
  v_fire V = true -> reachable V C s -> j_ph (s_jobs s j) = Holding \/ j_ph (s_jobs s j) = Running ->
  s_disk s j = Written (c_cnt C j).
Proof. exact running_has_file. Qed.
Print Assumptions C08_running_has_file.

(* no step of any process (release, watcher thread, start-up sweep, event handler ...) deletes or
   alters the token file of a job that is and stays running                                    *)
Theorem C08_running_file_stable : forall V C s l s' r j,
  v_fire V = true -> reachable V C s -> step V C s l = Some (s', r) ->
  j_ph (s_jobs s j) = Running -> j_ph (s_jobs s' j) = Running ->
  s_disk s j = Written (c_cnt C j) /\ s_disk s' j = Written (c_cnt C j).
Proof. exact running_file_stable. Qed.
Print Assumptions C08_running_file_stable.

(* hence the jobs whose process is alive together hold at most the total *)
Theorem C08_running_sum : forall V C s,
  (forall j, 0 <= c_cnt C j) -> 0 <= c_total C -> v_fire V = true -> reachable V C s ->
  sumf (c_n C) (fun j => match j_ph (s_jobs s j) with Running => c_cnt C j | _ => 0 end) <= c_total C.
Proof. exact running_sum. Qed.
Print Assumptions C08_running_sum.

(* [the first two conjuncts read back the enabling condition of Fire (sanity); the content is
   the third: in every reachable state that condition implies that the job is not between
   acquire and exit]                                                                      *)
Theorem C08_watcher_not_early : forall V C s p n s' r,
  v_fire V = true -> reachable V C s -> step V C s (Fire p n) = Some (s', r) ->
  j_lock (s_jobs s n) = false /\ (j_pid (s_jobs s n) = false \/ j_ph (s_jobs s n) <> Running) /\
  (j_ph (s_jobs s n) = Idle \/ j_ph (s_jobs s n) = Ended \/ j_ph (s_jobs s n) = Done).
Proof. exact watcher_not_early. Qed.
Print Assumptions C08_watcher_not_early.

(* ... because the scheduler holds the job lock from before the token is taken until the job
   process is started and its pid file written (Scheduler.aio_start l.683-735)            *)
Theorem C08_start_window_locked : forall V C s j,
  v_fire V = true -> reachable V C s ->
  (j_ph (s_jobs s j) = Creating \/ j_ph (s_jobs s j) = Holding -> j_lock (s_jobs s j) = true) /\
  (j_ph (s_jobs s j) = Running -> j_pid (s_jobs s j) = true).
Proof. exact start_window_locked. Qed.
Print Assumptions C08_start_window_locked.

(* the process-level token: available never negative, available + holdings = total *)
Theorem C08_capacity_inproc : forall total n cnt t,
  (forall j, 0 <= cnt j) -> 0 <= total -> preachable total n cnt t ->
  0 <= pt_avail t /\ pt_avail t + pheld_sum n cnt t = total.
Proof. exact capacity_inproc. Qed.
Print Assumptions C08_capacity_inproc.

(* the pinned watcher thread (delete outside the job lock, by name): after an aborted start the
   thread of another process deletes the token file of the next start of the same job, which
   then runs uncounted: two running jobs hold 2 > total 1 (vm_compute witness)              *)
Theorem C08_stale_watcher_refuted : exists C tr s,
  run V_no_fire C init tr = Some s /\
  j_ph (s_jobs s 0) = Running /\ s_disk s 0 = Absent /\ j_ph (s_jobs s 1) = Running /\
  c_total C < sumf (c_n C) (fun j => match j_ph (s_jobs s j) with Running => c_cnt C j | _ => 0 end).
Proof. exact stale_watcher_refuted. Qed.
Print Assumptions C08_stale_watcher_refuted.
