(* placeholder while developing *)
From XV Require Import model.Sched.
Theorem C06_placeholder : True. Proof. exact I. Qed.
Print Assumptions C06_placeholder.
