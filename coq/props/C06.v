(* C06 - every job reaches a truthful, stable final state and the experiment exits.
   Statements only (model: model/Sched.v, `step` = the repaired scheduler, `step_prefix` = the
   literal code of the unchanged tree); every proof is `exact <lemma>`.                       *)
From Coq Require Import ZArith List Bool.
From XV Require Import model.Sched proofs.Sched_lemmas proofs.Sched_inv proofs.Sched_thm proofs.Sched_live.
Import ListNotations.
Open Scope Z_scope.

(* the state assigned when the coroutine leaves its loop is finished and no later transition,
   of any job, in any order, changes it *)
Theorem C06_final_absorbing : forall W ls s s' j, wf W = true -> reachable W s -> steps W s ls = Some s' ->
  past_loop (pc (jobs s j)) = true ->
  st (jobs s' j) = st (jobs s j) /\ past_loop (pc (jobs s' j)) = true.
Proof. exact final_absorbing. Qed.
Print Assumptions C06_final_absorbing.

(* what job.wait() returned is the job's state, is a finished state, and stays so *)
Theorem C06_returned_stable : forall W ls s s' j r, wf W = true -> reachable W s -> steps W s ls = Some s' ->
  pc (jobs s j) = PReturned r -> pc (jobs s' j) = PReturned r /\ st (jobs s' j) = r /\ finished r = true.
Proof. exact returned_stable. Qed.
Print Assumptions C06_returned_stable.

(* the value returned is truthful: when a process left by an earlier scheduler was still running at
   submission (adopted W j = Some v) it is v, i.e. DONE iff that process gave exit code 0 or the marker
   exists once it has ended; otherwise DONE exactly when the marker pre-existed or the process was
   launched and exited with 0 *)
Theorem C06_final_truthful : forall W s j r, wf W = true -> reachable W s -> pc (jobs s j) = PReturned r ->
  st (jobs s j) = r /\
  match adopted W j with
  | Some v => r = v
  | None => r = DONE <-> (j_marker (spec W j) = true \/ ((launches (jobs s j) >= 1)%nat /\ j_code (spec W j) = 0))
  end /\
  (r <> DONE -> r = ERROR).
Proof. exact final_truthful. Qed.
Print Assumptions C06_final_truthful.

(* unfinishedJobs = number of registered jobs that have not returned; never negative *)
Theorem C06_counter_exact : forall W s, wf W = true -> reachable W s ->
  unfinished s = Z.of_nat (length (filter (fun j => counted (pc (jobs s j))) (seq 0 (njobs W)))) /\ 0 <= unfinished s.
Proof. exact counter_exact. Qed.
Print Assumptions C06_counter_exact.

(* experiment.wait() returns or raises only when every submitted job has returned *)
Theorem C06_wait_sound : forall W s l s', wf W = true -> reachable W s -> step W s l = Some s' ->
  wait_completes s s' -> all_final s /\ all_final s' /\ unfinished s = 0.
Proof. exact wait_sound. Qed.
Print Assumptions C06_wait_sound.

(* never hanging, as deadlock freedom: in every reachable state with no ready callback and no pending
   external completion (helper thread / process), every submitted job has returned and a pending
   experiment.wait() has completed - for all workloads in which a token request is at least 1, all
   schedules, all submission histories.  Nothing is assumed about the size of the requests (`wf` only
   says that dependencies point to earlier jobs and that tokens exist): a job that asks more of a token
   than its total is refused at submission (a963860; the guard `fits` of LSubmit, next two theorems) *)
Theorem C06_no_hang : forall W s, wf W = true -> posreq W -> reachable W s ->
  queue s = [] -> has_pending s W = false ->
  (forall j, spawned (pc (jobs s j)) = true -> exists r, pc (jobs s j) = PReturned r) /\
  (wst s = WNone \/ wst s = WReturned \/ wst s = WRaised).
Proof. exact no_hang. Qed.
Print Assumptions C06_no_hang.

(* the three defects of the unchanged tree, on the literal pre-fix model *)
Theorem C06_resubmit_counter_refuted : exists W ls s, wf W = true /\ steps_prefix W (init W) ls = Some s /\
  unfinished s < 0 /\ quiescent W s /\ wst s = WBlocked /\
  (forall j, (j < njobs W)%nat -> exists r, pc (jobs s j) = PReturned r).
Proof. exact resubmit_counter_refuted. Qed.
Print Assumptions C06_resubmit_counter_refuted.

Theorem C06_ready_overwrite_refuted : exists W ls s j, wf W = true /\ steps_prefix W (init W) ls = Some s /\
  pc (jobs s j) = PReturned READY /\ launches (jobs s j) = 1%nat /\ j_code (spec W j) = 0.
Proof. exact ready_overwrite_refuted. Qed.
Print Assumptions C06_ready_overwrite_refuted.

Theorem C06_abort_race_refuted : exists W ls s j, wf W = true /\ steps_prefix W (init W) ls = Some s /\
  quiescent W s /\ pc (jobs s j) = PAwaitReady /\ st (jobs s j) = WAITING /\ uns (jobs s j) = 0 /\
  (forall t, avail s t = total W t) /\ wst s = WBlocked.
Proof. exact abort_race_refuted. Qed.
Print Assumptions C06_abort_race_refuted.

(* ------------------------------------------------------------------ start attempts (audit finding 2) *)
(* the refusal at submission (a963860): a job whose requests on some token add up to more than its total
   is not accepted, and every job that was accepted fits *)
Theorem C06_oversubscribed_refused : forall W s j, fits W j = false -> step W s (LSubmit j) = None.
Proof. exact oversubscribed_refused. Qed.
Print Assumptions C06_oversubscribed_refused.

Theorem C06_submitted_fits : forall W s j, reachable W s -> pc (jobs s j) <> PNot -> fits W j = true.
Proof. exact submitted_fits. Qed.
Print Assumptions C06_submitted_fits.

(* without that refusal (`step5`, `reach5`: every other repair in place): a job is only launched when
   every token can give, at that moment, all that the job asks of it; hence a job that asks more than a
   total is never launched *)
Theorem C06_launch_needs_room : forall W s l s' j t, wf W = true -> posreq W -> reach5 W s -> step5 W s l = Some s' ->
  launches (jobs s' j) <> launches (jobs s j) ->
  (sumreq (deps W j) t <= avail s t)%nat /\ (avail s t <= total W t)%nat.
Proof. exact launch_needs_room. Qed.
Print Assumptions C06_launch_needs_room.

Theorem C06_oversubscribed_never_launched : forall W s j t, wf W = true -> posreq W -> reach5 W s ->
  (total W t < sumreq (deps W j) t)%nat -> launches (jobs s j) = 0%nat.
Proof. exact oversubscribed_never_launched. Qed.
Print Assumptions C06_oversubscribed_never_launched.

(* ... and the scheduler of 027db70 never came to rest on such a job: one job with two requests of 1 on a
   token of 1 (each request within the total); once submitted it is never launched, never returns, and
   no reachable state is quiescent, whatever the schedule *)
Theorem C06_livelock_refuted : exists W, wf W = true /\ posreq W /\
  (exists s, reach5 W s /\ spawned (pc (jobs s 0)) = true) /\
  forall s, reach5 W s -> spawned (pc (jobs s 0)) = true ->
    launches (jobs s 0) = 0%nat /\ (forall r, pc (jobs s 0) <> PReturned r) /\
    ~ (queue s = [] /\ has_pending s W = false).
Proof. exact livelock_refuted. Qed.
Print Assumptions C06_livelock_refuted.

(* with the refusal: a start attempt of job j only fails because another job holds, at that moment, part
   of the token it stopped on - a job whose process is running or whose release is under way - *)
Theorem C06_abort_blames_other : forall W s j i t c av hd, wf W = true -> posreq W -> reachable W s ->
  fits W j = true -> pc (jobs s j) = PWoken ALockIn ->
  acquire_l (avail s) (held (jobs s j)) (deps W j) 0 = (av, hd, Some i) ->
  nth_error (deps W j) i = Some (DTok t c) ->
  exists k, k <> j /\ (k < njobs W)%nat /\ (hcount (held (jobs s k)) t > 0)%nat /\
            exists a, pc (jobs s k) = PExt a \/ pc (jobs s k) = PWoken a.
Proof. exact abort_blames_other. Qed.
Print Assumptions C06_abort_blames_other.

(* ... so that when nobody else holds anything the start succeeds *)
Theorem C06_calm_start_succeeds : forall W s j, wf W = true -> posreq W -> reachable W s ->
  fits W j = true -> pc (jobs s j) = PWoken ALockIn ->
  (forall k, k <> j -> held (jobs s k) = []) ->
  exists av hd, acquire_l (avail s) (held (jobs s j)) (deps W j) 0 = (av, hd, None).
Proof. exact calm_start_succeeds. Qed.
Print Assumptions C06_calm_start_succeeds.

(* progress: no infinite run is made only of ready callbacks and of completions other than the delivery of
   `lock (aenter)` to a waiting job (a start attempt).  Start attempts are the one thing that can repeat:
   a fitting job retries while another job holds part of its token (proofs/Sched_live.v, ex_busy_retry);
   that ends when the holder exits, which is an assumption on the environment (processes end, completions
   are delivered) and is not proved here.  Together with C06_no_hang: a run that stops has ended well,
   and a run can only go on for ever by retrying starts while some process runs. *)
Theorem C06_inflight_terminates : forall W (f : nat -> state) (ls : nat -> label), wf W = true ->
  reachable W (f 0%nat) ->
  (forall n, step W (f n) (ls n) = Some (f (S n)) /\ inflight (f n) (ls n)) -> False.
Proof. exact inflight_terminates. Qed.
Print Assumptions C06_inflight_terminates.

(* a Dependency object used again for a job submitted again after a failure (36bcb7f: the recorded status is
   not reset when the object is attached): the registration of a dependency whose object still says OK, the
   token being available, leaves the job asleep with unsatisfied = 1; with the status starting from WAIT
   (fresh object, or fixes/C06-5.diff) the job is READY and goes to its start *)
Theorem C06_reused_dependency_refuted :
  (let r := reg_stale [DOK] [DOK] in
   uns r = 1 /\ st r = WAITING /\ ev r = false /\ pc (fst (main_loop_l r)) = PAwaitReady) /\
  (let r := reg_stale [DWAIT] [DOK] in
   uns r = 0 /\ st r = READY /\ pc (fst (main_loop_l r)) = PExt ALockIn).
Proof. exact reused_dependency_refuted. Qed.
Print Assumptions C06_reused_dependency_refuted.
