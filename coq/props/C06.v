(* C06 - every job reaches a truthful, stable final state and the experiment exits.
   Statements only (model: model/Sched.v, `step` = the repaired scheduler, `step_prefix` = the
   literal code of the unchanged tree); every proof is `exact <lemma>`.                       *)
From Coq Require Import ZArith List Bool.
From XV Require Import model.Sched proofs.Sched_lemmas proofs.Sched_inv proofs.Sched_thm proofs.Sched_live.
Import ListNotations.
Open Scope Z_scope.

(* the state assigned when the coroutine leaves its loop is finished and no later transition,
   of any job, in any order, changes it *)
Theorem C06_final_absorbing : forall W ls s s' j, wf W = true -> reachable W s -> steps W s ls = Some s' ->
  past_loop (pc (jobs s j)) = true ->
  st (jobs s' j) = st (jobs s j) /\ past_loop (pc (jobs s' j)) = true.
Proof. exact final_absorbing. Qed.
Print Assumptions C06_final_absorbing.

(* what job.wait() returned is the job's state, is a finished state, and stays so *)
Theorem C06_returned_stable : forall W ls s s' j r, wf W = true -> reachable W s -> steps W s ls = Some s' ->
  pc (jobs s j) = PReturned r -> pc (jobs s' j) = PReturned r /\ st (jobs s' j) = r /\ finished r = true.
Proof. exact returned_stable. Qed.
Print Assumptions C06_returned_stable.

(* the value returned is truthful: when a process left by an earlier scheduler was still running at
   submission (adopted W j = Some v) it is v, i.e. DONE iff that process gave exit code 0 or the marker
   exists once it has ended; otherwise DONE exactly when the marker pre-existed or the process was
   launched and exited with 0 *)
Theorem C06_final_truthful : forall W s j r, wf W = true -> reachable W s -> pc (jobs s j) = PReturned r ->
  st (jobs s j) = r /\
  match adopted W j with
  | Some v => r = v
  | None => r = DONE <-> (j_marker (spec W j) = true \/ ((launches (jobs s j) >= 1)%nat /\ j_code (spec W j) = 0))
  end /\
  (r <> DONE -> r = ERROR).
Proof. exact final_truthful. Qed.
Print Assumptions C06_final_truthful.

(* unfinishedJobs = number of registered jobs that have not returned; never negative *)
Theorem C06_counter_exact : forall W s, wf W = true -> reachable W s ->
  unfinished s = Z.of_nat (length (filter (fun j => counted (pc (jobs s j))) (seq 0 (njobs W)))) /\ 0 <= unfinished s.
Proof. exact counter_exact. Qed.
Print Assumptions C06_counter_exact.

(* experiment.wait() returns or raises only when every submitted job has returned *)
Theorem C06_wait_sound : forall W s l s', wf W = true -> reachable W s -> step W s l = Some s' ->
  wait_completes s s' -> all_final s /\ all_final s' /\ unfinished s = 0.
Proof. exact wait_sound. Qed.
Print Assumptions C06_wait_sound.

(* never hanging, as deadlock freedom: in every reachable state with no ready callback and no pending
   external completion (helper thread / process), every submitted job has returned and a pending
   experiment.wait() has completed - for all workloads in which a token request is between 1 and
   the total of its token, all schedules, all submission histories *)
Theorem C06_no_hang : forall W s, wf W = true -> posreq W -> reachable W s ->
  queue s = [] -> has_pending s W = false ->
  (forall j, spawned (pc (jobs s j)) = true -> exists r, pc (jobs s j) = PReturned r) /\
  (wst s = WNone \/ wst s = WReturned \/ wst s = WRaised).
Proof. exact no_hang. Qed.
Print Assumptions C06_no_hang.

(* the three defects of the unchanged tree, on the literal pre-fix model *)
Theorem C06_resubmit_counter_refuted : exists W ls s, wf W = true /\ steps_prefix W (init W) ls = Some s /\
  unfinished s < 0 /\ quiescent W s /\ wst s = WBlocked /\
  (forall j, (j < njobs W)%nat -> exists r, pc (jobs s j) = PReturned r).
Proof. exact resubmit_counter_refuted. Qed.
Print Assumptions C06_resubmit_counter_refuted.

Theorem C06_ready_overwrite_refuted : exists W ls s j, wf W = true /\ steps_prefix W (init W) ls = Some s /\
  pc (jobs s j) = PReturned READY /\ launches (jobs s j) = 1%nat /\ j_code (spec W j) = 0.
Proof. exact ready_overwrite_refuted. Qed.
Print Assumptions C06_ready_overwrite_refuted.

Theorem C06_abort_race_refuted : exists W ls s j, wf W = true /\ steps_prefix W (init W) ls = Some s /\
  quiescent W s /\ pc (jobs s j) = PAwaitReady /\ st (jobs s j) = WAITING /\ uns (jobs s j) = 0 /\
  (forall t, avail s t = total W t) /\ wst s = WBlocked.
Proof. exact abort_race_refuted. Qed.
Print Assumptions C06_abort_race_refuted.
