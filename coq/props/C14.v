(* C14 - submitted configurations are frozen together with their identity.
   Statements only; every proof is `exact <lemma>`.                          *)
From Coq Require Import ZArith NArith List Bool.
From XV Require Import core.Value model.Hash model.Cache model.Seal model.Spec
  proofs.Cache_lemmas proofs.Spec_lemmas proofs.Seal_lemmas proofs.Cyclic_lemmas proofs.Coherence_lemmas model.StateInv proofs.OwnMark_lemmas.
Import ListNotations.

(* seal(r) marks every configuration reachable from r - through parameters, lists, dicts,
   the producing task, pre-tasks, init tasks and cycles - whatever was sealed before
   (the Sealer stops at sealed nodes: sound because a sealed node's successors are sealed) *)
Theorem C14_seal_reaches_all : forall h s r m,
  wf_heap h -> length s = length h -> closed h s -> r < length h ->
  reach h r m -> sealed_in (seal_walk h (walk_fuel h) [r] s) m = true.
Proof. exact seal_reaches_all. Qed.
Print Assumptions C14_seal_reaches_all.

Theorem C14_seal_keeps_closed : forall h, wf_heap h -> forall s r, length s = length h -> closed h s ->
  let s' := seal_walk h (walk_fuel h) [r] s in
  closed h s' /\ (forall n, sealed_in s n = true -> sealed_in s' n = true) /\
  (r < length h -> sealed_in s' r = true) /\ length s' = length h.
Proof. exact seal_closes. Qed.
Print Assumptions C14_seal_keeps_closed.

(* an assignment, a meta-flag change or an added pre-task on a sealed configuration is
   rejected and changes nothing                                                          *)
Theorem C14_sealed_rejects : forall H cs fuel h s o n, target o = Some n -> sealed_in s n = true ->
  sstep H cs fuel (h, s) o = ((h, s), ARejected).
Proof. exact sealed_rejects. Qed.
Print Assumptions C14_sealed_rejects.

(* for EVERY history of such attempts on sealed configurations, interleaved with seals and
   identifier requests on any node: every attempt is rejected, the graph is unchanged, and
   every identifier answered is the one of the graph as it was sealed (acyclic graphs)    *)
Theorem C14_frozen_identity : forall H cs fuel h, ordered h -> forall ops s, csound H cs h s ->
  (forall o n, In o ops -> target o = Some n -> sealed_in s n = true) ->
  fst (fst (srun H cs fuel (h, s) ops)) = h /\
  Forall2 (frozen_answer H cs h) ops (snd (srun H cs fuel (h, s) ops)).
Proof. exact frozen. Qed.
Print Assumptions C14_frozen_identity.

(* ANY graph (cycles included), EVERY history of assignments, meta-flag changes and added pre-tasks
   (accepted exactly on unsealed configurations, rejected on sealed ones), seals and identifier
   requests, from every state satisfying the invariant (sealed set closed under successors, cached
   identifiers only on sealed configurations and correct): each identifier answered is the identifier
   computed afresh, without any cache, of the graph as it is when the request is made.
   The seal-gated cache is coherent although the graph keeps changing around the sealed part.   *)
Theorem C14_coherent_under_edits : forall H cs fuel ops g, ginv H cs g ->
  (forall o, In o ops -> op_ok (length (fst g)) o) ->
  answers_ok H cs fuel g ops (snd (srun H cs fuel g ops)).
Proof. exact coherent_under_edits. Qed.
Print Assumptions C14_coherent_under_edits.

(* ... and a sealed configuration keeps its stored content, its identifier and its full identifier
   (job directory) through every such history, whatever is accepted elsewhere in the graph      *)
Theorem C14_sealed_identity_stable : forall H cs fuel ops g, ginv H cs g ->
  (forall o, In o ops -> op_ok (length (fst g)) o) ->
  forall m, sealed_in (snd g) m = true ->
  let g' := fst (srun H cs fuel g ops) in
  sealed_in (snd g') m = true /\ nth_error (fst g') m = nth_error (fst g) m /\
  (forall d e, pure_id H cs (fst g) m d e -> pure_id H cs (fst g') m d e) /\
  (forall d, pure_full H cs (fst g) m d -> pure_full H cs (fst g') m d).
Proof. exact sealed_identity_stable. Qed.
Print Assumptions C14_sealed_identity_stable.

Theorem C14_initial_state_invariant : forall H cs h flags, wf_heap h -> length flags = length h ->
  closed h (map centry0 flags) -> ginv H cs (h, map centry0 flags).
Proof. exact ginv_init. Qed.
Print Assumptions C14_initial_state_invariant.

(* the identifier of a configuration depends only on the configurations reachable from it: two
   graphs that agree on a successor-closed set R give every node of R the same identifier      *)
Theorem C14_identifier_frame : forall H cs h h' look (R : nat -> Prop),
  (forall m, R m -> nth_error h m = nth_error h' m) ->
  (forall m x, R m -> nth_error h m = Some x -> forall k, In k (succs x) -> R k) ->
  forall fuel st m, R m -> hnode H cs h look fuel st m = hnode H cs h' look fuel st m.
Proof. exact hnode_frame. Qed.
Print Assumptions C14_identifier_frame.

(* the invariant is decidable by computation: the correspondence run evaluates ginv_b (with SHA-256)
   on every state exported from the implementation, so the hypothesis of the theorems above is
   checked on the observed states                                                               *)
Theorem C14_state_invariant_checkable : forall H cs fuel g, ginv_b H cs fuel g = true -> ginv H cs g.
Proof. exact ginv_b_sound. Qed.
Print Assumptions C14_state_invariant_checkable.

(* ---- a task that marks one of its own parameters as its output (task_outputs returns dep(self.c)) --------------
   `mark h c t` is the graph after the mark has been set on the (so far unmarked) configuration c.  The identifier
   of the task t - the name of its job directory - computed on the marked graph, in any context, has the bytes it
   had on the graph the task was submitted with (only the loop flag may differ).                                  *)
Theorem C14_own_mark_keeps_task_identifier : forall H cs h look c t x,
  nth_error h c = Some x -> n_task x = None -> t <> c -> forall fuel st d e,
  hnode H cs (mark h c t) look fuel st t = Ok (d, e) -> exists e', hnode H cs h look fuel st t = Ok (d, e').
Proof. exact mark_keeps_task_identifier. Qed.
Print Assumptions C14_own_mark_keeps_task_identifier.

(* more generally: everything hashed while the task is on the stack (its whole own graph) *)
Theorem C14_own_mark_invisible_within_task : forall H cs h look c t x,
  nth_error h c = Some x -> n_task x = None -> t <> c -> forall fuel st v b e, In t st ->
  hv H cs (mark h c t) look fuel st v = Ok (b, e) -> exists e', hv H cs h look fuel st v = Ok (b, e').
Proof. exact mark_invisible_within_task. Qed.
Print Assumptions C14_own_mark_invisible_within_task.

(* non-vacuity, and the mark is NOT invisible from outside the task: the output's own identifier carries it *)
Theorem C14_own_mark_example :
  exists d e e', hnode (fun b => b) om_classes (mark om_heap 0 1) (fun _ => None) 5 [] 1 = Ok (d, e)
                 /\ hnode (fun b => b) om_classes om_heap (fun _ => None) 5 [] 1 = Ok (d, e') /\ e = 1 /\ e' = 0.
Proof. exact own_mark_example. Qed.
Print Assumptions C14_own_mark_example.

Theorem C14_own_mark_output_differs :
  hnode (fun b => b) om_classes (mark om_heap 0 1) (fun _ => None) 5 [] 0
  <> hnode (fun b => b) om_classes om_heap (fun _ => None) 5 [] 0.
Proof. exact own_mark_output_differs. Qed.
Print Assumptions C14_own_mark_output_differs.

(* ---- an output that is already the output of another task (e2f4b5e): the task's output is a copy appended to the
   graph, marked by the task; every identifier of the graph before is unchanged in the extended graph              *)
Theorem C14_output_copy_keeps_every_identifier : forall H cs h look c t fuel st n,
  (forall m x, nth_error h m = Some x -> forall k, In k (succs x) -> k < length h) ->
  n < length h ->
  hnode H cs h look fuel st n = hnode H cs (add_output h c t) look fuel st n.
Proof. exact output_copy_keeps_every_identifier. Qed.
Print Assumptions C14_output_copy_keeps_every_identifier.

Theorem C14_output_copy_is_marked : forall h c t x,
  nth_error h c = Some x -> nth_error (add_output h c t) (length h) = Some (with_task x (Some t)).
Proof. exact output_copy_is_marked. Qed.
Print Assumptions C14_output_copy_is_marked.
