(* C14 - submitted configurations are frozen together with their identity.
   Statements only; every proof is `exact <lemma>`.                          *)
From Coq Require Import ZArith NArith List Bool.
From XV Require Import core.Value model.Hash model.Cache model.Seal model.Spec
  proofs.Cache_lemmas proofs.Spec_lemmas proofs.Seal_lemmas.
Import ListNotations.

(* seal(r) marks every configuration reachable from r - through parameters, lists, dicts,
   the producing task, pre-tasks, init tasks and cycles - whatever was sealed before
   (the Sealer stops at sealed nodes: sound because a sealed node's successors are sealed) *)
Theorem C14_seal_reaches_all : forall h s r m,
  wf_heap h -> length s = length h -> closed h s -> r < length h ->
  reach h r m -> sealed_in (seal_walk h (walk_fuel h) [r] s) m = true.
Proof. exact seal_reaches_all. Qed.
Print Assumptions C14_seal_reaches_all.

Theorem C14_seal_keeps_closed : forall h, wf_heap h -> forall s r, length s = length h -> closed h s ->
  let s' := seal_walk h (walk_fuel h) [r] s in
  closed h s' /\ (forall n, sealed_in s n = true -> sealed_in s' n = true) /\
  (r < length h -> sealed_in s' r = true) /\ length s' = length h.
Proof. exact seal_closes. Qed.
Print Assumptions C14_seal_keeps_closed.

(* an assignment, a meta-flag change or an added pre-task on a sealed configuration is
   rejected and changes nothing                                                          *)
Theorem C14_sealed_rejects : forall H cs fuel h s o n, target o = Some n -> sealed_in s n = true ->
  sstep H cs fuel (h, s) o = ((h, s), ARejected).
Proof. exact sealed_rejects. Qed.
Print Assumptions C14_sealed_rejects.

(* for EVERY history of such attempts on sealed configurations, interleaved with seals and
   identifier requests on any node: every attempt is rejected, the graph is unchanged, and
   every identifier answered is the one of the graph as it was sealed (acyclic graphs)    *)
Theorem C14_frozen_identity : forall H cs fuel h, ordered h -> forall ops s, csound H cs h s ->
  (forall o n, In o ops -> target o = Some n -> sealed_in s n = true) ->
  fst (fst (srun H cs fuel (h, s) ops)) = h /\
  Forall2 (frozen_answer H cs h) ops (snd (srun H cs fuel (h, s) ops)).
Proof. exact frozen. Qed.
Print Assumptions C14_frozen_identity.
