(* C13 - runtime objects mirror the configuration graph and are initialised once.
   Statements only; every proof is `exact <lemma>`.

   instantiate h constructed root = what root.instance(objects=store) does on graph h when the
   store already holds the constructed configurations `constructed` ([] for a fresh store):
   objects created (named by their configuration), the log of __post_init__/execute calls.
   load h root = writing the parameter file of task root (__get_objects__ order) and running it:
   load_objects, the pre-tasks, the init tasks, the body.  from_params defs = the same on an
   arbitrary list of definitions.                                                            *)
From Coq Require Import NArith List.
From XV Require Import model.Walk model.Instance proofs.Walk_lemmas proofs.Instance_lemmas.
Import ListNotations.

(* instance() answers on every graph (cycles included); exactly one object per configuration
   reachable through configurations that the store had not constructed yet, none for others *)
Theorem C13_one_object_per_node : forall h constructed root,
  exists r, instantiate h constructed root = Some r /\
    NoDup (map o_id (r_objects r)) /\
    (forall n, In n (map o_id (r_objects r)) <->
               reach h (node_edges false) (cut_constructed constructed) root n).
Proof. exact one_object_per_node. Qed.
Print Assumptions C13_one_object_per_node.

(* instantiate runs the calls of the code one by one - for every created configuration, in walk order:
   setattr(object, name, value) for each parameter, then object.__post_init__(); then execute() of the
   gathered pre-tasks - on a memory of objects (Instance.replay); r_objects are the attributes the objects
   end up with, PostInit n l in r_log means: __post_init__ of n ran when exactly the attributes l were set.
   fields_nodup h: the parameter names of every configuration are pairwise distinct (.values is a dict).

   attribute k of the object of n is the image of parameter k of n (OObj m = the object of m),
   and every object it names was created by this call or constructed before - through cycles too *)
Theorem C13_wired_like_graph : forall h constructed, fields_nodup h -> forall root r,
  instantiate h constructed root = Some r ->
  (forall o, In o (r_objects r) ->
     o_attrs o = map (fun kv => (fst kv, image (snd kv))) (fields (node_at h (o_id o)))) /\
  (forall o k ov m, In o (r_objects r) -> In (k, ov) (o_attrs o) -> In m (orefs ov) -> m < length h ->
     In m (map o_id (r_objects r)) \/ In m constructed).
Proof. exact wired_like_graph. Qed.
Print Assumptions C13_wired_like_graph.

(* the log is: one __post_init__ per created object, with all its own parameters set, then
   the executed pre-tasks *)
Theorem C13_post_init_once_after_fields : forall h constructed, fields_nodup h -> forall root r,
  instantiate h constructed root = Some r ->
  exists ids pres,
    r_log r = map (fun n => PostInit n (map fst (fields (node_at h n)))) ids ++ map Execute pres /\
    ids = map o_id (r_objects r) /\ NoDup ids /\
    (forall n, In n ids <-> reach h (node_edges false) (cut_constructed constructed) root n).
Proof. exact post_init_once_after_fields. Qed.
Print Assumptions C13_post_init_once_after_fields.

(* the statement tells the order of the two steps: with __post_init__ called before the attribute copy
   (instantiate_post_first) the __post_init__ of a configuration that has parameters sees none of them *)
Theorem C13_post_init_before_copy_refuted : exists h root r n,
  fields_nodup h /\ instantiate_post_first h [] root = Some r /\
  In (PostInit n []) (r_log r) /\ fields (node_at h n) <> [] /\
  ~ In (PostInit n (map fst (fields (node_at h n)))) (r_log r).
Proof. exact post_first_refuted. Qed.
Print Assumptions C13_post_init_before_copy_refuted.

(* each pre-task attached to some created configuration is executed exactly once, also when it
   is attached to several; nothing else is executed; all of it after every __post_init__      *)
Theorem C13_pretasks_once : forall h constructed root r,
  instantiate h constructed root = Some r ->
  NoDup (execs (r_log r)) /\
  (forall p, In p (execs (r_log r)) <->
     exists n, reach h (node_edges false) (cut_constructed constructed) root n /\ In p (pre (node_at h n))) /\
  (exists k, posts (firstn k (r_log r)) = posts (r_log r) /\ execs (skipn k (r_log r)) = execs (r_log r)).
Proof. exact pretasks_once. Qed.
Print Assumptions C13_pretasks_once.

(* parameter file, any list of definitions: one object per definition, identities = ids,
   attributes = images, every named object is one of them *)
Theorem C13_params_objects : forall defs r, from_params defs = Some r ->
  map o_id (r_objects r) = map d_id defs /\ NoDup (map o_id (r_objects r)) /\
  (forall d, In d defs ->
     In {| o_id := d_id d; o_attrs := map (fun kv => (fst kv, image (snd kv))) (d_fields d) |} (r_objects r)) /\
  (forall o k ov m, In o (r_objects r) -> In (k, ov) (o_attrs o) -> In m (orefs ov) ->
     In m (map o_id (r_objects r))).
Proof. exact params_objects. Qed.
Print Assumptions C13_params_objects.

(* from_params = the loader with fixes/C13-1.diff (each lightweight task once); from_params_listed = the
   loader before it (every ENTRY of the init-task list is executed).
   inits true defs last = the init tasks of the last definition, first occurrences, without those that
   are pre-tasks.  The executed sequence: __post_init__ of every definition in order (each with its
   own fields set), the distinct pre-tasks in definition order, these init tasks, the body          *)
Theorem C13_init_after_pre_before_body : forall defs r, from_params defs = Some r ->
  exists front last, defs = front ++ [last] /\
    r_log r = map (fun d => PostInit (d_id d) (map fst (d_fields d))) defs
              ++ map Execute (pretasks defs) ++ map Execute (inits true defs last) ++ [Body (d_id last)] /\
    NoDup (pretasks defs) /\
    (forall p, In p (pretasks defs) <-> exists d, In d defs /\ In p (d_pre d)) /\
    execs (r_log r) = pretasks defs ++ inits true defs last /\
    posts (r_log r) = map d_id defs /\
    NoDup (inits true defs last) /\
    (forall p, In p (inits true defs last) <-> In p (d_init last) /\ ~ In p (pretasks defs)).
Proof. exact init_after_pre_before_body. Qed.
Print Assumptions C13_init_after_pre_before_body.

(* exactly once over the whole run, without hypothesis: every lightweight task listed as pre-task by some
   definition or as init task by the last one is executed, and none twice                          *)
Theorem C13_params_each_once : forall defs r, from_params defs = Some r ->
  NoDup (execs (r_log r)) /\
  exists front last, defs = front ++ [last] /\
    forall p, In p (execs (r_log r)) <-> (In p (d_init last) \/ exists d, In d defs /\ In p (d_pre d)).
Proof. exact params_each_once. Qed.
Print Assumptions C13_params_each_once.

(* the loader before the repair: an init task listed twice, or also attached as a pre-task, runs twice;
   exactly once only when the init tasks are pairwise distinct and none is also a pre-task          *)
Theorem C13_init_twice_refuted :
  exists defs r, from_params_listed defs = Some r /\ ~ NoDup (execs (r_log r)) /\
    exists r', from_params defs = Some r' /\ execs (r_log r') = [1; 2].
Proof. exact init_twice_refuted. Qed.
Print Assumptions C13_init_twice_refuted.

Theorem C13_params_each_once_listed : forall defs r front last, from_params_listed defs = Some r ->
  defs = front ++ [last] -> NoDup (d_init last) ->
  (forall p, In p (d_init last) -> ~ In p (pretasks defs)) ->
  NoDup (execs (r_log r)).
Proof. exact params_each_once_listed. Qed.
Print Assumptions C13_params_each_once_listed.

(* the parameter file of a graph: loading it answers, with exactly one object per configuration
   reachable from the task (values, task, pre-tasks, init tasks), the task's object returned *)
Theorem C13_load_total : forall h, wf_heap h -> forall root, root < length h ->
  exists r, load h root = Some r /\
    NoDup (map o_id (r_objects r)) /\
    (forall n, In n (map o_id (r_objects r)) <-> reach h ser_edges (fun _ => false) root n) /\
    r_root r = root.
Proof. exact load_total. Qed.
Print Assumptions C13_load_total.

(* "exactly one object per distinct configuration" whatever the objects look like.  The model names
   the object of configuration n by n; underneath is the ObjectStore consulted by FromPython.stub
   with `is None`: a configuration that has an object keeps it - for every type of objects, hence
   for objects that are falsy (empty containers, __bool__) or equal by content - both when it is
   asked again (pre-task gathering, a later instance() on the same store) and after any number of
   requests for other configurations                                                          *)
Theorem C13_store_keeps_first_object : forall (obj : Type),
  (forall (f1 f2 : obj) st n,
     stub f2 (fst (stub f1 st n)) n = (fst (stub f1 st n), snd (stub f1 st n))) /\
  (forall (reqs : list (nat * obj)) st n o,
     retrieve st n = Some o -> retrieve (stubs st reqs) n = Some o).
Proof. exact store_keeps_first_object. Qed.
Print Assumptions C13_store_keeps_first_object.

(* the variant deciding on the truth value of the cached object gives a second object *)
Theorem C13_store_by_truth_refuted : exists (truthy : nat -> bool) f1 f2 st n,
  snd (stub_by_truth truthy f2 (fst (stub_by_truth truthy f1 st n)) n)
  <> snd (stub_by_truth truthy f1 st n).
Proof. exact stub_by_truth_refuted. Qed.
Print Assumptions C13_store_by_truth_refuted.

(* the classes of the configurations are not an input: two graphs that differ by their classes
   only give the same objects, wiring and call log, by instance() and by the parameter file   *)
Theorem C13_class_blind : forall h h' constructed root,
  map (recls (fun _ => 0)) h = map (recls (fun _ => 0)) h' ->
  instantiate h constructed root = instantiate h' constructed root /\ load h root = load h' root.
Proof. exact class_blind. Qed.
Print Assumptions C13_class_blind.

(* one ObjectStore given to two instance() calls.  instantiate_store h constructed executed root = the call
   when the store remembers the pre-tasks it has executed (fixes/C13-3.diff): over the two calls no
   pre-task is executed twice.  Without that memory (instantiate, the code before the patch) a pre-task
   attached to configurations created by both calls runs in both                                  *)
Theorem C13_store_pretasks_once : forall h c e root1 root2 r1 r2,
  NoDup e ->
  instantiate_store h c e root1 = Some r1 ->
  instantiate_store h (c ++ map o_id (r_objects r1)) (e ++ execs (r_log r1)) root2 = Some r2 ->
  NoDup (e ++ execs (r_log r1) ++ execs (r_log r2)).
Proof. exact store_pretasks_once. Qed.
Print Assumptions C13_store_pretasks_once.

Theorem C13_store_pretask_twice_refuted : exists h root1 root2 r1 r2 p,
  instantiate h [] root1 = Some r1 /\ instantiate h (map o_id (r_objects r1)) root2 = Some r2 /\
  In p (execs (r_log r1)) /\ In p (execs (r_log r2)).
Proof. exact store_pretask_twice_refuted. Qed.
Print Assumptions C13_store_pretask_twice_refuted.
