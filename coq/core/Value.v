(* Configuration graphs: values, classes, nodes, heaps (DESIGN.md 5.1).
   Definitions only.  Bytes are N < 256; strings are their UTF-8 bytes.   *)
From Coq Require Import ZArith NArith List Bool.
Import ListNotations.

Definition bytes := list N.

Inductive value :=
| VNone
| VInt (z : Z)
| VBool (b : bool)
| VFloat (bits : N)                 (* the 64 IEEE-754 bits *)
| VStr (s : bytes)
| VPath (s : bytes)
| VEnum (q : bytes)                 (* "module.qualname:member" *)
| VList (l : list value)
| VDict (l : list (bytes * value))  (* insertion order; keys are strings *)
| VRef (n : nat).                   (* a configuration: position in the heap *)

Record argdecl := {
  a_name : bytes; a_ignored : bool; a_gen : bool; a_const : bool;
  a_required : bool; a_default : option value }.

Record class := { c_tid : bytes; c_args : list argdecl }.   (* declaration order *)

Record node := {
  n_cls : nat;
  n_fields : list (bytes * value);  (* the names present in .values, insertion order *)
  n_meta : option bool;
  n_task : option nat;              (* the task that produced it (None when it is itself) *)
  n_pre : list nat;
  n_init : list nat }.

Definition heap := list node.
Definition classes := list class.

(* ---- errors of the implementation, mapped to a small enum ---------- *)
Inductive err := EFuel | EMissing | ERange | EUnhashable | EBadRef.
Inductive res (A : Type) := Ok (a : A) | Err (e : err).
Arguments Ok {A} a.
Arguments Err {A} e.

Definition bind {A B} (r : res A) (f : A -> res B) : res B :=
  match r with Ok a => f a | Err e => Err e end.
Notation "'do' x <- r ; k" := (bind r (fun x => k)) (at level 200, x pattern, r at level 100, k at level 200).

(* ---- byte strings --------------------------------------------------- *)
Fixpoint bytes_eqb (a b : bytes) : bool :=
  match a, b with
  | [], [] => true
  | x :: a', y :: b' => N.eqb x y && bytes_eqb a' b'
  | _, _ => false
  end.

(* lexicographic order (Python str order = UTF-8 byte order) *)
Fixpoint bytes_leb (a b : bytes) : bool :=
  match a, b with
  | [], _ => true
  | _ :: _, [] => false
  | x :: a', y :: b' => if N.ltb x y then true else if N.ltb y x then false else bytes_leb a' b'
  end.

Fixpoint assoc {A} (k : bytes) (l : list (bytes * A)) : option A :=
  match l with
  | [] => None
  | (k', v) :: l' => if bytes_eqb k k' then Some v else assoc k l'
  end.

(* stable insertion sort by key *)
Fixpoint insert_by {A} (key : A -> bytes) (x : A) (l : list A) : list A :=
  match l with
  | [] => [x]
  | y :: l' => if bytes_leb (key x) (key y) then x :: l else y :: insert_by key x l'
  end.
Fixpoint sort_by {A} (key : A -> bytes) (l : list A) : list A :=
  match l with [] => [] | x :: l' => insert_by key x (sort_by key l') end.

(* ---- fixed-width encodings ------------------------------------------ *)
Fixpoint be_bytes (n : nat) (x : N) : bytes :=      (* n bytes, big endian *)
  match n with
  | O => []
  | S n' => be_bytes n' (N.div x 256) ++ [N.modulo x 256]
  end.

Definition two63 : Z := 9223372036854775808%Z.
Definition two64 : Z := 18446744073709551616%Z.

(* struct.pack("!q", z) *)
Definition pack_q (z : Z) : res bytes :=
  if (Z.leb (- two63) z && Z.ltb z two63)%bool
  then Ok (be_bytes 8 (Z.to_N (Z.modulo z two64)))
  else Err ERange.

(* the IEEE double of a natural number below 2^53 (exact) *)
Definition double_of_N (n : N) : N :=
  match n with
  | N0 => 0%N
  | _ => let e := N.log2 n in
         N.lor (N.shiftl (1023 + e) 52) (N.shiftl (n - N.shiftl 1 e) (52 - e))
  end.
Definition two53 : Z := 9007199254740992%Z.
Definition double_of_Z (z : Z) : option N :=
  if Z.ltb (Z.abs z) two53
  then Some (if Z.ltb z 0 then N.lor (N.shiftl 1 63) (double_of_N (Z.to_N (- z))) else double_of_N (Z.to_N z))
  else None.

(* struct.pack("!d", len(values)) *)
Definition pack_len (n : nat) : bytes := be_bytes 8 (double_of_N (N.of_nat n)).

(* ---- Python == on parameter values (used for the default test) ------
   Numbers compare by value across int / bool / float; NaN differs from
   everything; +0.0 == -0.0; a configuration never equals a non-configuration.
   Two configurations: the model answers false (no schema default is a
   configuration; stated in the trusted base).                               *)
Definition is_nan (b : N) : bool :=
  N.eqb (N.land (N.shiftr b 52) 2047) 2047 && negb (N.eqb (N.land b 4503599627370495) 0).
Definition float_eq (a b : N) : bool :=
  if is_nan a || is_nan b then false
  else N.eqb a b || (N.eqb (N.land a 9223372036854775807) 0 && N.eqb (N.land b 9223372036854775807) 0).
Definition int_float_eq (z : Z) (b : N) : bool :=
  match double_of_Z z with
  | Some d => float_eq d b
  | None => false
  end.
Definition zb (b : bool) : Z := if b then 1%Z else 0%Z.

Fixpoint pyeq (a b : value) {struct a} : bool :=
  match a, b with
  | VNone, VNone => true
  | VInt x, VInt y => Z.eqb x y
  | VInt x, VBool y => Z.eqb x (zb y)
  | VBool x, VInt y => Z.eqb (zb x) y
  | VBool x, VBool y => Bool.eqb x y
  | VInt x, VFloat y => int_float_eq x y
  | VFloat x, VInt y => int_float_eq y x
  | VBool x, VFloat y => int_float_eq (zb x) y
  | VFloat x, VBool y => int_float_eq (zb y) x
  | VFloat x, VFloat y => float_eq x y
  | VStr x, VStr y => bytes_eqb x y
  | VPath x, VPath y => bytes_eqb x y
  | VEnum x, VEnum y => bytes_eqb x y
  | VList x, VList y =>
      (fix go (x : list value) (y : list value) : bool :=
         match x, y with
         | [], [] => true
         | u :: x', v :: y' => pyeq u v && go x' y'
         | _, _ => false
         end) x y
  | VDict x, VDict y =>
      Nat.eqb (length x) (length y) &&
      (fix go (x : list (bytes * value)) : bool :=
         match x with
         | [] => true
         | (k, u) :: x' => match assoc k y with
                           | Some v => pyeq u v && go x'
                           | None => false
                           end
         end) x
  | _, _ => false
  end.

(* ---- heap access ------------------------------------------------------ *)
Definition getnode (h : heap) (n : nat) : res node :=
  match nth_error h n with Some x => Ok x | None => Err EBadRef end.
Definition getclass (cs : classes) (c : nat) : res class :=
  match nth_error cs c with Some x => Ok x | None => Err EBadRef end.

(* is_ignored(value): a configuration whose meta flag is truthy *)
Definition is_meta (h : heap) (v : value) : bool :=
  match v with
  | VRef n => match nth_error h n with
              | Some x => match n_meta x with Some true => true | _ => false end
              | None => false
              end
  | _ => false
  end.
Definition is_meta_false (h : heap) (v : value) : bool :=
  match v with
  | VRef n => match nth_error h n with
              | Some x => match n_meta x with Some false => true | _ => false end
              | None => false
              end
  | _ => false
  end.

(* remove_meta(value): meta-flagged members of lists and dicts removed at every depth
   (repaired by a fix: commit; remove_meta1 is the pinned commit's one-level version) *)
Fixpoint remove_meta (h : heap) (v : value) : value :=
  match v with
  | VList l => VList ((fix go (l : list value) : list value :=
                         match l with
                         | [] => []
                         | x :: l' => if is_meta h x then go l' else remove_meta h x :: go l'
                         end) l)
  | VDict l => VDict ((fix go (l : list (bytes * value)) : list (bytes * value) :=
                         match l with
                         | [] => []
                         | kv :: l' => if is_meta h (snd kv) then go l' else (fst kv, remove_meta h (snd kv)) :: go l'
                         end) l)
  | _ => v
  end.

Definition remove_meta1 (h : heap) (v : value) : value :=
  match v with
  | VList l => VList (filter (fun x => negb (is_meta h x)) l)
  | VDict l => VDict (filter (fun kv => negb (is_meta h (snd kv))) l)
  | _ => v
  end.
